"""Translator group of C14 (tie T1): `ShmemC14` (coq/Gen/ShmemC14.v), regenerated on every run from /repo/src/sc_mpi.c and
/repo/src/sc_shmem.c, parsed in the configuration the check builds (SC_ENABLE_MPI on tools/simmpi's mpi.h,
SC_ENABLE_MPICOMMSHARED, SC_ENABLE_MPIWINSHARED).

sc_mpi_comm_attach_node_comms
  attach_split_type_test     processes_per_node < 1
  attach_explicit            node = rank / ppn, offset = rank % ppn and the (colour, key) arguments of the two MPI_Comm_split calls
  attach_unequal             maxintrasize != minintrasize (node communicators of different size are not attached)
  attach_split_type          key of MPI_Comm_split_type, (colour, key) of the internode MPI_Comm_split
  attach_decisions           the whole function: which communicators are created / freed and whether the attribute is set, per
                             (processes_per_node, maxintrasize, minintrasize); exactly one return statement (unequal node sizes)
sc_shmem.c
  write_start_basic / write_start_window    the return value per flavour; window: which of MPI_Win_unlock / MPI_Barrier / MPI_Win_lock is called
                                            for which intrarank, the barrier's communicator, and the ORDER of these calls on the
                                            executed path (<callee>_seq = 1 + the number of these calls made before it): the model
                                            needs unlock, THEN the barrier on intranode, THEN the exclusive lock of intrarank 0
  write_end_window                          the same: who unlocks, then the barrier on intranode, then the shared lock
  scan_index_<type> / scan_add_<type>       sc_scan_on_array: the two slot indices and the wrapped sum, for the eight integer types
  allgather_basic / allgather_common        sc_shmem_allgather has separate send and receive signatures: every argument of the MPI_Allgather
                                            (basic), of sc_mpi_sizeof, sc_malloc, MPI_Gather on the node and MPI_Allgather between the nodes
                                            (window) as a function of (sendcount, sendtype, recvcount, recvtype, intrasize, typesize, comm,
                                            intranode, internode): which of them enters which argument
  prefix_basic / prefix_prescan / prefix_common / prefix_common_prescan
                                            byte counts and offsets: memset size, offset of slot 1 (count * typesize), buffer of the
                                            node root (intrasize * count * typesize), counts of the Gather / Allgather calls
coq/C14/ShmemGen.v proves that the hand-written model (ShmemModel.v) uses exactly these.
NOT sliced: `SC_ASSERT (!(size % processes_per_node))` (compiled out in the pinned configuration: not in the AST); the
dispatch over the flavour (`switch (type)`) and sc_shmem_malloc_window's window size (no counterpart in the model)."""
import os, re


def register(GROUPS, c2g, incs, REPO, HERE, STRUCTS, Group):
    import slicelib as sl
    import vlib

    def gen_shmem(tmp):
        g = Group("ShmemC14")
        inc14 = os.path.join(tmp, "inc_c14")
        os.makedirs(inc14, exist_ok=True)
        vlib.make_config_h(os.path.join(inc14, "sc_config.h"), "sim", True, False, ("SC_ENABLE_MPICOMMSHARED", "SC_ENABLE_MPIWINSHARED"))
        I = [inc14] + incs(tmp)[1:] + [os.path.join(os.path.dirname(HERE), "simmpi")]
        fm = os.path.join(REPO, "src", "sc_mpi.c")
        fs = os.path.join(REPO, "src", "sc_shmem.c")
        cache = {}
        MPI_OUT = ("sc_MPI_Comm_size", "sc_MPI_Comm_rank", "MPI_Comm_size", "MPI_Comm_rank")

        def fn(f, name):
            if (f, name) not in cache:
                cache[(f, name)] = c2g.find_function(c2g.clang_ast(f, name, I), name)
            return cache[(f, name)]

        def one(lst, what):
            if len(lst) != 1:
                raise c2g.Unsupported("%s: %d candidates" % (what, len(lst)))
            return lst[0]

        def flat(F):
            return list([c for c in F["inner"] if c.get("kind") == "CompoundStmt"][0].get("inner", []))

        # ---- sc_mpi_comm_attach_node_comms
        A = "sc_mpi_comm_attach_node_comms"
        F = fn(fm, A)
        top = one([n for n in flat(F) if n.get("kind") == "IfStmt" and sl.refs(n["inner"][0]) == {"processes_per_node"}], "attach: ppn test")
        if len(top["inner"]) != 3:
            raise c2g.Unsupported("attach: no explicit branch")
        t, i = sl.emit_cond(top["inner"][0], "attach_split_type_test", A, params=("processes_per_node",), want_params=["processes_per_node"])
        g.add(t, i)
        SPLIT = ("sc_MPI_Comm_split", "MPI_Comm_split")
        names = set()
        sl.walk(F, lambda n: names.add(sl.callee_name(n)) if n.get("kind") == "CallExpr" else None)
        split = [x for x in SPLIT if x in names]
        stype = [x for x in ("sc_MPI_Comm_split_type", "MPI_Comm_split_type") if x in names]
        if len(split) != 1 or len(stype) != 1:
            raise c2g.Unsupported("attach: split calls %s %s" % (split, stype))
        t, i = sl.emit_block([top["inner"][2]], "attach_explicit", ["node", "offset", "*ghosts"], A, params=("rank", "processes_per_node"),
                             want_params=["rank", "processes_per_node", split[0] + "_ret", split[0] + "2_ret"], effects=(split[0],), drop_calls=("sc_mpi_check",),
                             effect_skip_args={split[0]: (0,)},
                             comment="returns (node, offset, colour and key of the intranode split, colour and key of the internode split)")
        if i["outputs"] != ["node", "offset", split[0] + "_arg1", split[0] + "_arg2", split[0] + "2_arg1", split[0] + "2_arg2"]:
            raise c2g.Unsupported("attach_explicit: outputs %s" % i["outputs"])
        g.add(t, i)
        then = top["inner"][1]
        uneq = one([n for n in then.get("inner", []) if n.get("kind") == "IfStmt" and sl.refs(n["inner"][0]) == {"maxintrasize", "minintrasize"}], "attach: size test")
        if not sl.find_nodes(uneq["inner"][1], lambda n: n.get("kind") == "ReturnStmt"):
            raise c2g.Unsupported("attach: unequal node sizes do not return")
        t, i = sl.emit_cond(uneq["inner"][0], "attach_unequal", A, params=("maxintrasize", "minintrasize"), want_params=["maxintrasize", "minintrasize"])
        g.add(t, i)
        cst = one(sl.find_nodes(then, lambda n: n.get("kind") == "CallExpr" and sl.callee_name(n) == stype[0]), "attach: split_type call")
        csp = one(sl.find_nodes(then, lambda n: n.get("kind") == "CallExpr" and sl.callee_name(n) == split[0]), "attach: internode split call")
        t, i = sl.emit_expr(cst["inner"][3], "attach_split_type_key", A, params=("rank",), want_params=["rank"])
        g.add(t, i)
        t, i = sl.emit_expr(csp["inner"][2], "attach_split_type_colour", A, params=("intrarank", "rank"), want_params=["intrarank", "rank"])
        g.add(t, i)
        t, i = sl.emit_expr(csp["inner"][3], "attach_split_type_interkey", A, params=("intrarank", "rank"), want_params=["intrarank", "rank"])
        g.add(t, i)

        # ---- the decisions of the attach function as a whole: which communicators are created / freed and whether the attribute is set, as
        # a function of (processes_per_node, maxintrasize, minintrasize).  Strict: exactly ONE return statement (nodes of unequal size), the
        # keyval registration in front, the two slots filled as [0] = intranode, [1] = internode; any other call or early return fails the group.
        body = flat(F)
        rets = sl.find_nodes(F, lambda n: n.get("kind") == "ReturnStmt")
        if len(rets) != 1 or not sl.find_nodes(uneq["inner"][1], lambda n: n is rets[0]):
            raise c2g.Unsupported("attach: %d return statements, expected 1 (node communicators of unequal size)" % len(rets))
        reg = [n for n in body if n.get("kind") == "IfStmt" and sl.refs(n["inner"][0]) == {"sc_mpi_node_comm_keyval"}]
        if len(reg) != 1 or len(reg[0]["inner"]) != 2:
            raise c2g.Unsupported("attach: keyval registration")
        stores = [n for n in body if n.get("kind") == "BinaryOperator" and n.get("opcode") == "=" and
                  c2g.skip_parens(n["inner"][0]).get("kind") == "ArraySubscriptExpr"]
        slots = []
        for n in stores:
            lhs = c2g.skip_parens(n["inner"][0])
            idx = sl.strip(lhs["inner"][1])
            slots.append((sorted(sl.refs(lhs["inner"][0])), idx.get("value"), sorted(sl.refs(n["inner"][1]))))
        if slots != [(["node_comms"], "0", ["intranode"]), (["node_comms"], "1", ["internode"])]:
            raise c2g.Unsupported("attach: attribute slots %s" % slots)
        rest = [n for n in body if n is not reg[0] and n not in stores and n.get("kind") != "DeclStmt"]
        EFF = ("sc_MPI_Comm_size", "MPI_Comm_size", "sc_MPI_Comm_rank", "MPI_Comm_rank", "sc_MPI_Comm_split_type", "MPI_Comm_split_type", "sc_MPI_Allreduce",
               "MPI_Allreduce", "sc_MPI_Comm_free", "MPI_Comm_free", "sc_MPI_Comm_split", "MPI_Comm_split", "sc_MPI_Alloc_mem", "MPI_Alloc_mem",
               "sc_MPI_Comm_set_attr", "MPI_Comm_set_attr")
        t, i = sl.emit_block(rest, "attach_decisions", ["MPI_Comm_split_type_called", "MPI_Comm_free_called", "MPI_Comm_split_called", "MPI_Comm_split2_called",
                                                        "MPI_Comm_split3_called", "MPI_Alloc_mem_called", "MPI_Comm_set_attr_called", "MPI_Comm_set_attr_arg0"], A,
                             params=("processes_per_node", "maxintrasize", "minintrasize", "comm"), effect_called=True, effects=EFF,
                             drop_calls=("sc_mpi_check", "sc_log", "sc_logf"), want_params=None, ret="_void",
                             comment="returns (MPI_Comm_split_type called, MPI_Comm_free called, the internode MPI_Comm_split of the split_type branch called, "
                                     "the two MPI_Comm_split of the explicit branch called, MPI_Alloc_mem called, MPI_Comm_set_attr called, its communicator)")
        extra = [p for p in i["params"][4:] if not (p.endswith("_ret") or p in ("rank", "intranode", "internode", "intrarank", "sc_mpi_node_comm_keyval", "node_comms"))]
        if i["params"][:4] != ["processes_per_node", "maxintrasize", "minintrasize", "comm"] or extra:
            raise c2g.Unsupported("attach_decisions: parameters %s" % i["params"])
        g.add(t, i)

        # ---- write_start / write_end per flavour
        t, i = c2g.translate_function(fn(fs, "sc_shmem_write_start_basic"), gname="write_start_basic", skip_params=("array", "comm", "intranode", "internode"))
        g.add(t, i)
        # the lock / barrier calls of the write protocol WITH their order: a SliceT that gives every call of a function in SEQ the extra
        # ghost output <callee>_seq := 1 + (number of calls of functions in SEQ made so far on the executed path).  Local to this group
        # (slicelib.py is unchanged): emit_block instantiates sl.SliceT, which is replaced for the duration of the two calls below.
        SEQ = ("MPI_Win_unlock", "MPI_Barrier", "sc_MPI_Barrier", "MPI_Win_lock")

        class SeqT(sl.SliceT):
            def scan(self, stmts):
                super().scan(stmts)
                self.seq_pre = []
                gs = []
                for gk in self.ghosts:
                    gs.append(gk)
                    if gk.endswith("_called") and re.sub(r"[0-9]+$", "", gk[:-7]) in SEQ:
                        self.seq_pre.append(gk[:-7])
                        gs.append(gk[:-7] + "_seq")
                self.ghosts = gs

            def ghost_assign(self, pairs, env, rest, K):
                out = []
                for key, e in pairs:
                    if key.endswith("_called") and key[:-7] in self.seq_pre:
                        before = " + ".join(self.lookup(env, q + "_called") for q in self.seq_pre)
                        out.append((key[:-7] + "_seq", sl.E("1 + %s" % before, "Z", False)))
                    out.append((key, e))
                return super().ghost_assign(out, env, rest, K)

        def emit_protocol(W, gname, outputs, comment):
            F = fn(fs, W)
            calls = []
            sl.walk(F, lambda n: calls.append(sl.callee_name(n)) if n.get("kind") == "CallExpr" and sl.callee_name(n) in SEQ else None)
            for must in ("MPI_Win_unlock", "MPI_Win_lock"):
                if calls.count(must) != 1:
                    raise c2g.Unsupported("%s: %d calls of %s, expected 1" % (W, calls.count(must), must))
            nb = [c for c in calls if c.endswith("MPI_Barrier")]
            if len(nb) != 1:
                raise c2g.Unsupported("%s: %d calls of MPI_Barrier, expected 1" % (W, len(nb)))
            saved = sl.SliceT
            sl.SliceT = SeqT
            try:
                t, i = sl.emit_block(flat(F), gname, outputs, W,
                                     params=("intrarank",), ret="ret" if "ret" in outputs else None, want_params=None, effect_called=True,
                                     effects=("sc_shmem_get_win", "MPI_Win_unlock", "sc_MPI_Barrier", "MPI_Barrier", "MPI_Win_lock") + MPI_OUT,
                                     drop_calls=("sc_mpi_check",), effect_skip_args=dict((m, (0,)) for m in MPI_OUT), comment=comment)
            finally:
                sl.SliceT = saved
            want = ["intrarank", "array", "comm", "intranode", "internode"]
            if i["params"][:5] != want or [p for p in i["params"][5:] if not p.endswith("_ret")]:
                raise c2g.Unsupported("%s: parameters %s" % (W, i["params"]))
            return t, i

        t, i = emit_protocol("sc_shmem_write_start_window", "write_start_window",
                             ["ret", "MPI_Win_unlock_called", "MPI_Win_unlock_seq", "MPI_Barrier_called", "MPI_Barrier_seq", "MPI_Barrier_arg0",
                              "MPI_Win_lock_called", "MPI_Win_lock_seq", "MPI_Win_lock_arg0"],
                             "returns (return value, MPI_Win_unlock called, its position among the lock/barrier calls, MPI_Barrier called, position, "
                             "communicator, MPI_Win_lock called, position, lock type); intrarank = what MPI_Comm_rank (intranode) stores")
        g.add(t, i)
        t, i = emit_protocol("sc_shmem_write_end_window", "write_end_window",
                             ["MPI_Win_unlock_called", "MPI_Win_unlock_seq", "MPI_Barrier_called", "MPI_Barrier_seq", "MPI_Barrier_arg0",
                              "MPI_Win_lock_called", "MPI_Win_lock_seq", "MPI_Win_lock_arg0"],
                             "returns (MPI_Win_unlock called, its position among the lock/barrier calls, MPI_Barrier called, position, communicator, "
                             "MPI_Win_lock called, position, lock type)")
        g.add(t, i)
        # ---- sc_scan_on_array: one branch per element type
        S = "sc_scan_on_array"
        F = fn(fs, S)
        adds = sl.find_nodes(F, lambda n: n.get("kind") == "CompoundAssignOperator" and n.get("opcode") == "+=" and
                             c2g.skip_parens(n["inner"][0]).get("kind") == "ArraySubscriptExpr")
        seen = {}
        NAMES = {"char": "char", "short": "short", "unsigned short": "ushort", "int": "int", "unsigned int": "unsigned", "long": "long",
                 "unsigned long": "ulong", "long long": "longlong"}
        for a in adds:
            ty = c2g.strip_quals(c2g.tystr(a["inner"][0]))
            if ty not in NAMES:
                continue          # floating-point branches: the model's items are integers
            if ty in seen:
                raise c2g.Unsupported("sc_scan_on_array: two branches for %s" % ty)
            seen[ty] = True
            lhs = c2g.skip_parens(a["inner"][0])
            rhs = sl.strip(a["inner"][1])
            if rhs.get("kind") != "ArraySubscriptExpr":
                raise c2g.Unsupported("sc_scan_on_array: right side is not array[..]")
            t, i = sl.emit_expr(lhs["inner"][1], "scan_dst_%s" % NAMES[ty], S, params=("count", "p", "c"), want_params=["count", "p", "c"])
            g.add(t, i)
            t, i = sl.emit_expr(rhs["inner"][1], "scan_src_%s" % NAMES[ty], S, params=("count", "p", "c"), want_params=["count", "p", "c"])
            g.add(t, i)
            t, i = sl.emit_block([a], "scan_add_%s" % NAMES[ty], ["array_store"], S, params=("count", "p", "c"), want_params=["count", "p", "c"],
                                 store_arrays=("array",))
            g.add(t, i)
        if sorted(seen) != sorted(NAMES):
            raise c2g.Unsupported("sc_scan_on_array: integer branches %s" % sorted(seen))
        loops = sl.find_nodes(F, lambda n: n.get("kind") == "ForStmt" and "size" in sl.refs(n["inner"][2]))
        if not loops:
            raise c2g.Unsupported("sc_scan_on_array: no loop over the slots")
        t, i = sl.emit_cond(loops[0]["inner"][2], "scan_slot_cond", S, params=("p", "size"), want_params=["p", "size"])
        g.add(t, i)
        t, i = sl.emit_block([loops[0]["inner"][0]], "scan_slot_first", ["p"], S, want_params=[])
        g.add(t, i)

        # ---- byte counts, item counts and offsets of the prefix / allgather functions: selected arguments of their calls
        def args_of(cfn, callee_names, which, occ=0, total=1):
            F = fn(fs, cfn)
            calls = sl.find_nodes(F, lambda n: n.get("kind") == "CallExpr" and sl.callee_name(n) in callee_names)
            if len(calls) != total:
                raise c2g.Unsupported("%s: %d calls of %s, expected %d" % (cfn, len(calls), "/".join(callee_names), total))
            short = callee_names[-1].replace("sc_", "").replace("MPI_", "").lower()
            for k_ in which:
                gname = "%s_%s%s_arg%d" % (cfn.replace("sc_shmem_", ""), short, "" if total == 1 else str(occ + 1), k_)
                t, i = sl.emit_expr(calls[occ]["inner"][1 + k_], gname, cfn)
                g.add(t, i)
        AG, GA, SC = ("sc_MPI_Allgather", "MPI_Allgather"), ("sc_MPI_Gather", "MPI_Gather"), ("sc_MPI_Scan", "MPI_Scan")
        args_of("sc_shmem_prefix_basic", ("memset",), (2,))
        args_of("sc_shmem_prefix_basic", AG, (1, 3, 4))
        args_of("sc_shmem_prefix_basic", ("sc_scan_on_array",), (1, 2, 3))
        args_of("sc_shmem_prefix_prescan", ("sc_malloc",), (1,))
        args_of("sc_shmem_prefix_prescan", SC, (2,))
        args_of("sc_shmem_prefix_prescan", ("memset",), (2,))
        args_of("sc_shmem_prefix_prescan", AG, (1, 3, 4))
        # sc_shmem_allgather has separate send and receive signatures: every argument of the calls is a function of ALL of
        # (sendcount, sendtype, recvcount, recvtype, intrasize, typesize, comm, intranode, internode), in this order, so that the
        # theorems say WHICH of them enters which argument (a free variable outside this list fails the group)
        SIGP = ("sendcount", "sendtype", "recvcount", "recvtype", "intrasize", "typesize", "comm", "intranode", "internode")

        def sig_args(cfn, callee_names, which):
            F = fn(fs, cfn)
            calls = sl.find_nodes(F, lambda n: n.get("kind") == "CallExpr" and sl.callee_name(n) in callee_names)
            if len(calls) != 1:
                raise c2g.Unsupported("%s: %d calls of %s, expected 1" % (cfn, len(calls), "/".join(callee_names)))
            short = callee_names[-1].replace("sc_mpi_", "").replace("sc_", "").replace("MPI_", "").lower()
            for k_ in which:
                t, i = sl.emit_expr(calls[0]["inner"][1 + k_], "%s_%s_arg%d" % (cfn.replace("sc_shmem_", ""), short, k_), cfn,
                                    params=SIGP, want_params=list(SIGP))
                g.add(t, i)
        sig_args("sc_shmem_allgather_basic", AG, (1, 2, 4, 5, 6))
        sig_args("sc_shmem_allgather_common", ("sc_mpi_sizeof",), (0,))
        sig_args("sc_shmem_allgather_common", ("sc_malloc",), (1,))
        sig_args("sc_shmem_allgather_common", GA, (1, 2, 4, 5, 6, 7))
        sig_args("sc_shmem_allgather_common", AG, (1, 2, 4, 5, 6))
        # typesize is what sc_mpi_sizeof returned, and nothing else
        F = fn(fs, "sc_shmem_allgather_common")
        asg = sl.find_nodes(F, lambda n: n.get("kind") == "BinaryOperator" and n.get("opcode") == "=" and
                            sl.strip(n["inner"][0]).get("referencedDecl", {}).get("name") == "typesize")
        if len(asg) != 1 or sl.callee_name(sl.strip(asg[0]["inner"][1])) != "sc_mpi_sizeof":
            raise c2g.Unsupported("sc_shmem_allgather_common: typesize is not assigned exactly once from sc_mpi_sizeof")
        asg = sl.find_nodes(F, lambda n: n.get("kind") == "CallExpr" and sl.callee_name(n) in ("sc_MPI_Comm_size", "MPI_Comm_size"))
        if len(asg) != 1 or sl.refs(asg[0]["inner"][1]) != {"intranode"} or sl.refs(asg[0]["inner"][2]) != {"intrasize"}:
            raise c2g.Unsupported("sc_shmem_allgather_common: intrasize is not the size of intranode")
        args_of("sc_shmem_prefix_common", ("sc_malloc",), (1,))
        args_of("sc_shmem_prefix_common", GA, (1, 4, 6))
        args_of("sc_shmem_prefix_common", ("memset",), (2,))
        args_of("sc_shmem_prefix_common", AG, (1, 3, 4))
        args_of("sc_shmem_prefix_common", ("sc_scan_on_array",), (1, 2, 3))
        args_of("sc_shmem_prefix_common_prescan", ("sc_malloc",), (1,), occ=0, total=2)
        args_of("sc_shmem_prefix_common_prescan", ("sc_malloc",), (1,), occ=1, total=2)
        args_of("sc_shmem_prefix_common_prescan", SC, (2,))
        args_of("sc_shmem_prefix_common_prescan", GA, (1, 4, 6))
        args_of("sc_shmem_prefix_common_prescan", ("memset",), (2,))
        args_of("sc_shmem_prefix_common_prescan", AG, (1, 3, 4))
        # the node root (and nobody else) allocates the gather buffer: the three `if (!intrarank)` tests
        for cfn in ("sc_shmem_allgather_common", "sc_shmem_prefix_common", "sc_shmem_prefix_common_prescan"):
            nd = one([n for n in sl.find_nodes(fn(fs, cfn), lambda n: n.get("kind") == "IfStmt" and sl.refs(n["inner"][0]) == {"intrarank"})], cfn + ": root test")
            t, i = sl.emit_cond(nd["inner"][0], cfn.replace("sc_shmem_", "") + "_is_root", cfn, params=("intrarank",), want_params=["intrarank"])
            g.add(t, i)
        return g, [fm, fs]

    GROUPS["ShmemC14"] = gen_shmem
