"""Translator group of C04 (tie T1): `AllgatherC04` (coq/Gen/AllgatherC04.v), regenerated from /repo/src/sc_allgather.c on every run.

  sc_allgather_recursive   ag_halves (g2 = groupsize / 2, g2B = groupsize - g2), ag_is_recursive (groupsize > SC_ALLGATHER_ALLTOALL_MAX),
                           ag_in_lower (myoffset < g2), ag_lower_odd / ag_upper_odd (the two tests for the unpaired rank of an odd group),
                           ag_msg1 .. ag_msg6: (buffer offset, bytes, peer, tag) of the six Irecv / Isend calls in source order
                           (tags = the three enumerators as parameters), ag_recurse_lower / ag_recurse_upper (arguments of the recursive
                           calls), ag_wait_count, ag_a2a_args
  sc_allgather_alltoall    a2a_skip (j == myoffset), a2a_peer, a2a_recv / a2a_send (buffer offset, bytes, peer, tag),
                           a2a_wait_count
  sc_allgather             top_datasize, top_copy (destination offset and length of the own-block memcpy), top_args
coq/C04/AllgatherGen.v proves that the message lists of the hand-written model (AllgatherModel.v: recvs_level, sends_level, recvs_a2a,
sends_a2a) are exactly these."""
import os, re


def register(GROUPS, c2g, incs, REPO, HERE, STRUCTS, Group):
    import slicelib as sl

    def gen_allgather(tmp):
        g = Group("AllgatherC04")
        f = os.path.join(REPO, "src", "sc_allgather.c")
        src = open(f).read()
        cache = {}
        TAGS = ("SC_TAG_AG_RECURSIVE_A", "SC_TAG_AG_RECURSIVE_B", "SC_TAG_AG_RECURSIVE_C", "SC_TAG_AG_ALLTOALL")
        KW = dict(enum_params=True, symbolic_calls=("sc_mpi_sizeof",), elem_ptr_types=("sc_MPI_Request *", "int *"))

        def fn(name):
            if name not in cache:
                cache[name] = c2g.find_function(c2g.clang_ast(f, name, incs(tmp)), name)
            return cache[name]

        def one(lst, what):
            if len(lst) != 1:
                raise c2g.Unsupported("%s: %d candidates" % (what, len(lst)))
            return lst[0]

        def cond(node, gname, cfn, want):
            t, i = sl.emit_cond(node, gname, cfn, params=tuple(want), want_params=want, **KW)
            g.add(t, i)

        def ifs(cfn, refs_exact, inside=None):
            return [n for n in sl.find_nodes(inside or fn(cfn), lambda n: n.get("kind") == "IfStmt" and sl.refs(n["inner"][0]) == set(refs_exact))]

        def p2p(root):
            out = []
            sl.walk(root, lambda n: out.append(n) if n.get("kind") == "CallExpr" and sl.callee_name(n) in
                    ("sc_MPI_Irecv", "sc_MPI_Isend", "MPI_Irecv", "MPI_Isend") else None)
            return out

        def msg(call, gname, cfn, params, base):
            """(buffer offset relative to `base`, bytes, peer, tag) of a point-to-point call"""
            buf = sl.strip(call["inner"][1])
            if buf.get("kind") == "DeclRefExpr" and buf["referencedDecl"]["name"] == base:
                g.add("Definition %s_offset %s : Z :=\n0.\n" % (gname, " ".join("(%s : Z)" % p for p in params)),
                      dict(name=gname + "_offset", params=list(params), fuel=False))
            elif buf.get("kind") == "BinaryOperator" and buf.get("opcode") == "+" and sl.strip(buf["inner"][0]).get("referencedDecl", {}).get("name") == base:
                t, i = sl.emit_expr(buf["inner"][1], gname + "_offset", cfn, params=tuple(params), want_params=list(params), **KW)
                g.add(t, i)
            else:
                raise c2g.Unsupported("%s: buffer of %s is not %s + offset" % (cfn, gname, base))
            for k_, suffix in ((1, "bytes"), (3, "peer"), (4, "tag")):
                t, i = sl.emit_expr(call["inner"][1 + k_], "%s_%s" % (gname, suffix), cfn, params=tuple(params), want_params=list(params), **KW)
                g.add(t, i)

        # ================= sc_allgather_recursive
        R = "sc_allgather_recursive"
        F = fn(R)
        body = [c for c in F["inner"] if c.get("kind") == "CompoundStmt"][0]
        decls = [s_ for s_ in body.get("inner", []) if s_.get("kind") == "DeclStmt" and
                 any(d.get("name") in ("g2", "g2B") for d in s_.get("inner", []))]
        t, i = sl.emit_block(decls, "ag_halves", ["g2", "g2B"], R, params=("groupsize",), want_params=["groupsize"], **KW)
        g.add(t, i)
        top = one(ifs(R, ("groupsize",)), "recursive: threshold test")
        cond(top["inner"][0], "ag_is_recursive", R, ["groupsize"])
        if len(top["inner"]) != 3:
            raise c2g.Unsupported("sc_allgather_recursive: no all-to-all branch")
        low = one(ifs(R, ("myoffset", "g2")), "recursive: lower half test")
        cond(low["inner"][0], "ag_in_lower", R, ["myoffset", "g2"])
        lo_odd = one(ifs(R, ("myoffset", "g2", "g2B"), inside=low["inner"][1]), "recursive: odd test, lower half")
        cond(lo_odd["inner"][0], "ag_lower_odd", R, ["myoffset", "g2", "g2B"])
        up_odd = one(ifs(R, ("myoffset", "groupsize", "g2", "g2B"), inside=low["inner"][2]), "recursive: odd test, upper half")
        cond(up_odd["inner"][0], "ag_upper_odd", R, ["myoffset", "groupsize", "g2", "g2B"])
        calls = p2p(top["inner"][1])
        kinds = [sl.callee_name(c).replace("sc_", "") for c in calls]
        if kinds != ["MPI_Irecv", "MPI_Isend", "MPI_Isend", "MPI_Irecv", "MPI_Irecv", "MPI_Isend"]:
            raise c2g.Unsupported("sc_allgather_recursive: point-to-point calls %s" % kinds)
        # where they sit: 1, 2 unconditional in the lower half, 3 under its odd test; 4 under the upper odd test, 5, 6 in its else branch
        where = [low["inner"][1], low["inner"][1], lo_odd["inner"][1], up_odd["inner"][1], up_odd["inner"][2], up_odd["inner"][2]]
        for c, w in zip(calls, where):
            if not sl.find_nodes(w, lambda n: n is c):
                raise c2g.Unsupported("sc_allgather_recursive: a point-to-point call moved to another branch")
        if sl.find_nodes(lo_odd["inner"][1], lambda n: n is calls[0] or n is calls[1]):
            raise c2g.Unsupported("sc_allgather_recursive: calls 1 / 2 are under the odd test")
        MP = ("datasize", "g2", "g2B", "myrank") + TAGS[:3]
        for k_, c in enumerate(calls):
            msg(c, "ag_msg%d" % (k_ + 1), R, MP, "data")
        rcs = sl.find_nodes(top["inner"][1], lambda n: n.get("kind") == "CallExpr" and sl.callee_name(n) == R)
        if len(rcs) != 2 or not sl.find_nodes(low["inner"][1], lambda n: n is rcs[0]) or not sl.find_nodes(low["inner"][2], lambda n: n is rcs[1]):
            raise c2g.Unsupported("sc_allgather_recursive: recursive calls")
        for rc, gname in zip(rcs, ("ag_recurse_lower", "ag_recurse_upper")):
            buf = sl.strip(rc["inner"][2])
            off = None
            if buf.get("kind") == "BinaryOperator" and buf.get("opcode") == "+" and sl.strip(buf["inner"][0]).get("referencedDecl", {}).get("name") == "data":
                off = buf["inner"][1]
            elif not (buf.get("kind") == "DeclRefExpr" and buf["referencedDecl"]["name"] == "data"):
                raise c2g.Unsupported("sc_allgather_recursive: data argument of the recursive call")
            RP = ("datasize", "g2", "g2B", "myoffset", "myrank")
            if off is None:
                g.add("Definition %s_offset %s : Z :=\n0.\n" % (gname, " ".join("(%s : Z)" % p for p in RP)), dict(name=gname + "_offset", params=list(RP), fuel=False))
            else:
                t, i = sl.emit_expr(off, gname + "_offset", R, params=RP, want_params=list(RP), **KW)
                g.add(t, i)
            t, i = sl.emit_block([rc], gname, ["*ghosts"], R, params=RP, want_params=list(RP), effects=(R,), effect_skip_args={R: (0, 1)}, **KW)
            g.add(t, i)
        wa = one(sl.find_nodes(top["inner"][1], lambda n: n.get("kind") == "CallExpr" and sl.callee_name(n) in ("sc_MPI_Waitall", "MPI_Waitall")), "recursive: waitall")
        t, i = sl.emit_expr(wa["inner"][1], "ag_wait_count", R, want_params=[], **KW)
        g.add(t, i)
        # ---- the three request slots: on each of the four paths through the exchange step (lower half / its odd rank, upper half / its
        # unpaired rank) every slot request[0 .. 2] is written exactly once - by an Irecv / Isend (`request + K`) or by
        # `request[K] = sc_MPI_REQUEST_NULL` - before Waitall (3, request, ..).  The slot numbers are literals; they are collected
        # HERE in source order (not by the translator: literal-indexed stores are outside its conventions) and emitted as the
        # definition ag_req_slots : list (list Z); AllgatherGen.v proves every path a permutation of 0 .. ag_wait_count - 1.
        def lit(n):
            n = sl.strip(n)
            return int(n["value"]) if n.get("kind") == "IntegerLiteral" else None

        def slot_writes(stmts_):
            out = []

            def f(n):
                if n.get("kind") == "CallExpr" and sl.callee_name(n) in ("sc_MPI_Irecv", "sc_MPI_Isend", "MPI_Irecv", "MPI_Isend"):
                    a = sl.strip(n["inner"][7])
                    if a.get("kind") == "BinaryOperator" and a.get("opcode") == "+" and \
                            sl.strip(a["inner"][0]).get("referencedDecl", {}).get("name") == "request" and lit(a["inner"][1]) is not None:
                        out.append(lit(a["inner"][1]))
                    elif a.get("kind") == "DeclRefExpr" and a["referencedDecl"]["name"] == "request":
                        out.append(0)
                    else:
                        raise c2g.Unsupported("sc_allgather_recursive: request argument of a point-to-point call is not request + literal")
                if n.get("kind") == "BinaryOperator" and n.get("opcode") == "=":
                    l_ = c2g.skip_parens(n["inner"][0])
                    if l_.get("kind") == "ArraySubscriptExpr" and sl.strip(l_["inner"][0]).get("referencedDecl", {}).get("name") == "request":
                        if lit(l_["inner"][1]) is None:
                            raise c2g.Unsupported("sc_allgather_recursive: request[] store with a non-literal index")
                        out.append(lit(l_["inner"][1]))
            for st_ in stmts_:
                sl.walk(st_, f)
            return out

        def inner_stmts(n):
            return n.get("inner", []) if n.get("kind") == "CompoundStmt" else [n]
        if len(lo_odd["inner"]) != 3 or len(up_odd["inner"]) != 3:
            raise c2g.Unsupported("sc_allgather_recursive: an odd test without else branch")
        lower_common = [x for x in inner_stmts(low["inner"][1]) if x is not lo_odd]
        upper_common = [x for x in inner_stmts(low["inner"][2]) if x is not up_odd]
        if len(lower_common) + 1 != len(inner_stmts(low["inner"][1])) or len(upper_common) + 1 != len(inner_stmts(low["inner"][2])):
            raise c2g.Unsupported("sc_allgather_recursive: the odd tests are not statements of the half branches")
        paths = [slot_writes(lower_common + inner_stmts(lo_odd["inner"][1])), slot_writes(lower_common + inner_stmts(lo_odd["inner"][2])),
                 slot_writes(upper_common + inner_stmts(up_odd["inner"][1])), slot_writes(upper_common + inner_stmts(up_odd["inner"][2]))]
        g.add("Definition ag_req_slots : list (list Z) :=\n[%s].\n" % "; ".join("[%s]" % "; ".join(str(x) for x in p_) for p_ in paths),
              dict(name="ag_req_slots", params=[], fuel=False))
        # shape of the function: declarations, then ONE if (threshold) whose then-branch is `if (lower half) .. else ..; Waitall` and whose
        # else-branch is the all-to-all call; Waitall waits for request[]
        def shape(stmts_):
            out = []
            for st_ in stmts_:
                if st_.get("kind") == "DeclStmt":
                    continue
                cs_ = [sl.callee_name(n) for n in sl.find_nodes(st_, lambda n: n.get("kind") == "CallExpr")]
                cs_ = [c_ for c_ in cs_ if c_ not in sl.ABORTS]
                if st_.get("kind") in ("IfStmt", "ForStmt"):
                    out.append(st_["kind"])
                elif cs_:
                    out.append(",".join(cs_))
                elif sl.find_nodes(st_, lambda n: n.get("kind") in ("BinaryOperator", "CompoundAssignOperator", "UnaryOperator") and
                                   (n.get("opcode", "").endswith("=") and n.get("opcode") not in ("==", "!=", "<=", ">=") or n.get("opcode") in ("++", "--"))):
                    out.append("assign")
            return out
        if shape(body.get("inner", [])) != ["IfStmt"] or body["inner"][-1] is not top:
            raise c2g.Unsupported("sc_allgather_recursive: body is %s" % shape(body.get("inner", [])))
        if shape(inner_stmts(top["inner"][1])) != ["IfStmt", "sc_MPI_Waitall"] or shape(inner_stmts(top["inner"][2])) != ["sc_allgather_alltoall"]:
            raise c2g.Unsupported("sc_allgather_recursive: branches of the threshold test are %s / %s" %
                                  (shape(inner_stmts(top["inner"][1])), shape(inner_stmts(top["inner"][2]))))
        if sl.strip(wa["inner"][2]).get("referencedDecl", {}).get("name") != "request":
            raise c2g.Unsupported("sc_allgather_recursive: Waitall does not wait for request[]")
        a2 = one(sl.find_nodes(top["inner"][2], lambda n: n.get("kind") == "CallExpr" and sl.callee_name(n) == "sc_allgather_alltoall"), "recursive: alltoall call")
        t, i = sl.emit_block([a2], "ag_a2a_args", ["*ghosts"], R, params=("datasize", "groupsize", "myoffset", "myrank"),
                             want_params=["datasize", "groupsize", "myoffset", "myrank"], effects=("sc_allgather_alltoall",),
                             effect_skip_args={"sc_allgather_alltoall": (0, 1)}, **KW)
        g.add(t, i)

        # ================= sc_allgather_alltoall
        A = "sc_allgather_alltoall"
        F = fn(A)
        sk = one(ifs(A, ("j", "myoffset")), "alltoall: skip test")
        cond(sk["inner"][0], "a2a_skip", A, ["j", "myoffset"])
        if not sl.find_nodes(sk["inner"][1], lambda n: n.get("kind") == "ContinueStmt"):
            raise c2g.Unsupported("sc_allgather_alltoall: the own slot is not skipped")
        pa = one(sl.find_nodes(F, lambda n: n.get("kind") == "BinaryOperator" and n.get("opcode") == "=" and
                               sl.strip(n["inner"][0]).get("referencedDecl", {}).get("name") == "peer"), "alltoall: peer")
        t, i = sl.emit_block([pa], "a2a_peer", ["peer"], A, params=("myrank", "myoffset", "j"), want_params=["myrank", "myoffset", "j"], **KW)
        g.add(t, i)
        calls = p2p(F)
        if [sl.callee_name(c).replace("sc_", "") for c in calls] != ["MPI_Irecv", "MPI_Isend"]:
            raise c2g.Unsupported("sc_allgather_alltoall: point-to-point calls")
        AP = ("datasize", "j", "myoffset", "peer", "SC_TAG_AG_ALLTOALL")
        msg(calls[0], "a2a_recv", A, AP, "data")
        msg(calls[1], "a2a_send", A, AP, "data")
        lp = one(sl.find_nodes(F, lambda n: n.get("kind") == "ForStmt"), "alltoall: loop")
        cond(lp["inner"][2], "a2a_loop_cond", A, ["j", "groupsize"])
        wa = one(sl.find_nodes(F, lambda n: n.get("kind") == "CallExpr" and sl.callee_name(n) in ("sc_MPI_Waitall", "MPI_Waitall")), "alltoall: waitall")
        t, i = sl.emit_expr(wa["inner"][1], "a2a_wait_count", A, params=("groupsize",), want_params=["groupsize"], **KW)
        g.add(t, i)

        # ---- the LOOP of sc_allgather_alltoall as a whole: header (init, step; the condition is a2a_loop_cond above) and ONE ITERATION
        # translated as a block: which calls are made (ghost <callee>_called), ALL their arguments in source order including the request
        # slot (`request + j`, `request + groupsize + j`: element arithmetic on sc_MPI_Request *), and `stop` = 0 (the body never breaks).
        # The translator does not accept an assignment used as an expression, and the skip branch is the chained store
        # `request[j] = request[groupsize + j] = sc_MPI_REQUEST_NULL; continue;`.  That statement is therefore taken apart HERE: its two
        # index expressions and its value become slices of their own (a2a_null_recv_slot, a2a_null_send_slot, a2a_null_value), the shape
        # of the branch is checked (exactly this statement and `continue`), and a2a_iter is generated from the body without it.
        import copy
        init = lp["inner"][0]
        if not (isinstance(init, dict) and init.get("kind") == "BinaryOperator" and init.get("opcode") == "=" and
                sl.strip(init["inner"][0]).get("referencedDecl", {}).get("name") == "j"):
            raise c2g.Unsupported("sc_allgather_alltoall: loop initialisation is not `j = ...`")
        t, i = sl.emit_expr(init["inner"][1], "a2a_loop_init", A, want_params=[], **KW)
        g.add(t, i)
        t, i = sl.emit_block([lp["inner"][3]], "a2a_loop_step", ["j"], A, params=("j",), want_params=["j"], **KW)
        g.add(t, i)
        body = lp["inner"][4]
        if body.get("kind") != "CompoundStmt" or not body.get("inner") or body["inner"][0] is not sk:
            raise c2g.Unsupported("sc_allgather_alltoall: the skip test is not the first statement of the loop body")
        then = sk["inner"][1]
        tst = then.get("inner", []) if then.get("kind") == "CompoundStmt" else [then]
        if len(sk["inner"]) != 2 or len(tst) != 2 or tst[1].get("kind") != "ContinueStmt":
            raise c2g.Unsupported("sc_allgather_alltoall: the skip branch is not `<stores>; continue;` without else")

        def req_store(n):
            """n = `request[idx] = rhs` -> (idx node, rhs node)"""
            n = c2g.skip_parens(n)
            if n.get("kind") != "BinaryOperator" or n.get("opcode") != "=":
                raise c2g.Unsupported("sc_allgather_alltoall: skip branch: not a store")
            lhs = c2g.skip_parens(n["inner"][0])
            if lhs.get("kind") != "ArraySubscriptExpr" or sl.strip(lhs["inner"][0]).get("referencedDecl", {}).get("name") != "request":
                raise c2g.Unsupported("sc_allgather_alltoall: skip branch: store into something else than request[]")
            return lhs["inner"][1], n["inner"][1]
        idx1, rhs1 = req_store(tst[0])
        idx2, val = req_store(sl.strip(rhs1))
        if sl.find_nodes(val, lambda n: n.get("kind") in ("CallExpr", "UnaryOperator") and (n.get("kind") == "CallExpr" or n.get("opcode") in ("++", "--"))
                         or (n.get("kind") == "BinaryOperator" and n.get("opcode", "").endswith("=") and n.get("opcode") not in ("==", "!=", "<=", ">="))):
            raise c2g.Unsupported("sc_allgather_alltoall: the stored value has side effects")
        for nd, gname in ((idx1, "a2a_null_recv_slot"), (idx2, "a2a_null_send_slot")):
            t, i = sl.emit_expr(nd, gname, A, params=("j", "groupsize"), want_params=["j", "groupsize"], **KW)
            g.add(t, i)
        t, i = sl.emit_expr(val, "a2a_null_value", A, want_params=[], **KW)
        g.add(t, i)
        stm = copy.deepcopy(body["inner"])
        th2 = stm[0]["inner"][1]
        th2["inner"] = [x for x in th2["inner"] if x.get("kind") == "ContinueStmt"]
        IP = ("j", "myoffset", "myrank", "datasize", "groupsize", "data", "request", "mpicomm", "SC3_MPI_BYTE", "SC_TAG_AG_ALLTOALL",
              "sc_MPI_Irecv_ret", "sc_MPI_Isend_ret")
        callee = [sl.callee_name(c) for c in calls]
        t, i = sl.emit_block(stm, "a2a_iter", ["*ghosts", "stop"], A, params=IP, want_params=list(IP), effects=tuple(callee), effect_called=True,
                             jumps_end=True, **KW)
        want_out = [callee[0] + "_called"] + ["%s_arg%d" % (callee[0], k_) for k_ in range(7)] + \
                   [callee[1] + "_called"] + ["%s_arg%d" % (callee[1], k_) for k_ in range(7)] + ["stop"]
        if i["outputs"] != want_out:
            raise c2g.Unsupported("sc_allgather_alltoall: effects of one iteration are %s" % i["outputs"])
        g.add(t, i)
        # the requests waited for are the array that was filled: Waitall (.., request, ..); its allocation: 2 * groupsize requests
        if sl.strip(wa["inner"][2]).get("referencedDecl", {}).get("name") != "request":
            raise c2g.Unsupported("sc_allgather_alltoall: Waitall does not wait for request[]")
        # the allocation of request[] and the shape of the function: allocate, the loop, Waitall, free - nothing else
        al = one(sl.find_nodes(F, lambda n: n.get("kind") == "CallExpr" and sl.callee_name(n) == "sc_malloc"), "alltoall: allocation")
        t, i = sl.emit_expr(al["inner"][2], "a2a_alloc_bytes", A, params=("groupsize",), want_params=["groupsize"], **KW)
        g.add(t, i)
        abody = [c for c in F["inner"] if c.get("kind") == "CompoundStmt"][0]
        if shape(abody.get("inner", [])) != ["sc_malloc", "ForStmt", "sc_MPI_Waitall", "sc_free"]:
            raise c2g.Unsupported("sc_allgather_alltoall: body is %s" % shape(abody.get("inner", [])))
        asg = [st_ for st_ in abody["inner"] if st_.get("kind") == "BinaryOperator" and sl.find_nodes(st_, lambda n: n is al)]
        if len(asg) != 1 or sl.strip(asg[0]["inner"][0]).get("referencedDecl", {}).get("name") != "request":
            raise c2g.Unsupported("sc_allgather_alltoall: the allocation is not assigned to request")
        # nothing communicates outside the loop, and the loop is the only one
        if len(p2p(lp)) != 2:
            raise c2g.Unsupported("sc_allgather_alltoall: a point-to-point call outside the loop")

        # ================= sc_allgather
        T = "sc_allgather"
        F = fn(T)
        ds = one(sl.find_nodes(F, lambda n: n.get("kind") == "BinaryOperator" and n.get("opcode") == "=" and
                               sl.strip(n["inner"][0]).get("referencedDecl", {}).get("name") == "datasize"), "allgather: datasize")
        t, i = sl.emit_block([ds], "top_datasize", ["datasize"], T, params=("sendcount", "sc_mpi_sizeof_ret"), want_params=["sendcount", "sc_mpi_sizeof_ret"], **KW)
        g.add(t, i)
        # which type is measured: the argument of sc_mpi_sizeof (0 = sendtype, 1 = recvtype)
        sz = one(sl.find_nodes(ds, lambda n: n.get("kind") == "CallExpr" and sl.callee_name(n) == "sc_mpi_sizeof"), "allgather: sizeof call")
        t, i = sl.emit_expr(sz["inner"][1], "top_sized_type", T, params=("sendtype", "recvtype"), want_params=["sendtype", "recvtype"], **KW)
        g.add(t, i)
        mc = one(sl.find_nodes(F, lambda n: n.get("kind") == "CallExpr" and sl.callee_name(n) == "memcpy"), "allgather: memcpy")
        dst = sl.strip(mc["inner"][1])
        if dst.get("kind") != "BinaryOperator" or dst.get("opcode") != "+" or sl.strip(dst["inner"][0]).get("referencedDecl", {}).get("name") != "recvbuf":
            raise c2g.Unsupported("sc_allgather: memcpy destination is not recvbuf + offset")
        t, i = sl.emit_expr(dst["inner"][1], "top_copy_offset", T, params=("mpirank", "datasize"), want_params=["mpirank", "datasize"], **KW)
        g.add(t, i)
        t, i = sl.emit_expr(mc["inner"][3], "top_copy_bytes", T, params=("mpirank", "datasize"), want_params=["mpirank", "datasize"], **KW)
        g.add(t, i)
        if sl.strip(mc["inner"][2]).get("referencedDecl", {}).get("name") != "sendbuf":
            raise c2g.Unsupported("sc_allgather: memcpy source is not sendbuf")
        rc = one(sl.find_nodes(F, lambda n: n.get("kind") == "CallExpr" and sl.callee_name(n) == R), "allgather: recursive call")
        t, i = sl.emit_block([rc], "top_args", ["*ghosts"], T, params=("datasize", "mpisize", "mpirank"), want_params=["datasize", "mpisize", "mpirank"],
                             effects=(R,), effect_skip_args={R: (0, 1)}, **KW)
        g.add(t, i)
        # ---- the WHOLE BODY of sc_allgather as one block: every call it makes in source order (Comm_size, Comm_rank, the own-block memcpy,
        # the recursive routine) with all arguments, and the returned value; `&mpisize` / `&mpirank` passed to the two queries make these
        # variables unknowns (parameters): they are whatever MPI stored there
        body = [c for c in F["inner"] if c.get("kind") == "CompoundStmt"][0]
        EFF = ("sc_MPI_Comm_size", "sc_MPI_Comm_rank", "memcpy", R)
        TP = ("sendbuf", "sendcount", "sendtype", "recvbuf", "recvcount", "recvtype", "mpicomm", "sc_mpi_sizeof_ret", "sc_MPI_Comm_size_ret",
              "sc_MPI_Comm_rank_ret", "mpisize", "mpirank", "SC3_MPI_SUCCESS")
        t, i = sl.emit_block(body["inner"], "top_body", ["*ghosts", "ret"], T, params=TP, want_params=list(TP), effects=EFF, effect_called=True,
                             ret="ret", **KW)
        want_out = ["sc_MPI_Comm_size_called", "sc_MPI_Comm_size_arg0", "sc_MPI_Comm_rank_called", "sc_MPI_Comm_rank_arg0",
                    "memcpy_called", "memcpy_arg0", "memcpy_arg1", "memcpy_arg2"] + [R + "_called"] + ["%s_arg%d" % (R, k_) for k_ in range(6)] + ["ret"]
        if i["outputs"] != want_out:
            raise c2g.Unsupported("sc_allgather: effects of the body are %s" % i["outputs"])
        g.add(t, i)
        return g, [f]

    GROUPS["AllgatherC04"] = gen_allgather
