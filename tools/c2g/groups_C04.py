"""Translator group of C04 (tie T1): `AllgatherC04` (coq/Gen/AllgatherC04.v), regenerated from /repo/src/sc_allgather.c on every run.

  sc_allgather_recursive   ag_halves (g2 = groupsize / 2, g2B = groupsize - g2), ag_is_recursive (groupsize > SC_ALLGATHER_ALLTOALL_MAX),
                           ag_in_lower (myoffset < g2), ag_lower_odd / ag_upper_odd (the two tests for the unpaired rank of an odd group),
                           ag_msg1 .. ag_msg6: (buffer offset, bytes, peer, tag) of the six Irecv / Isend calls in source order
                           (tags = the three enumerators as parameters), ag_recurse_lower / ag_recurse_upper (arguments of the recursive
                           calls), ag_wait_count, ag_a2a_args
  sc_allgather_alltoall    a2a_skip (j == myoffset), a2a_peer, a2a_recv / a2a_send (buffer offset, bytes, peer, tag),
                           a2a_wait_count
  sc_allgather             top_datasize, top_copy (destination offset and length of the own-block memcpy), top_args
coq/C04/AllgatherGen.v proves that the message lists of the hand-written model (AllgatherModel.v: recvs_level, sends_level, recvs_a2a,
sends_a2a) are exactly these."""
import os, re


def register(GROUPS, c2g, incs, REPO, HERE, STRUCTS, Group):
    import slicelib as sl

    def gen_allgather(tmp):
        g = Group("AllgatherC04")
        f = os.path.join(REPO, "src", "sc_allgather.c")
        src = open(f).read()
        cache = {}
        TAGS = ("SC_TAG_AG_RECURSIVE_A", "SC_TAG_AG_RECURSIVE_B", "SC_TAG_AG_RECURSIVE_C", "SC_TAG_AG_ALLTOALL")
        KW = dict(enum_params=True, symbolic_calls=("sc_mpi_sizeof",), elem_ptr_types=("sc_MPI_Request *", "int *"))

        def fn(name):
            if name not in cache:
                cache[name] = c2g.find_function(c2g.clang_ast(f, name, incs(tmp)), name)
            return cache[name]

        def one(lst, what):
            if len(lst) != 1:
                raise c2g.Unsupported("%s: %d candidates" % (what, len(lst)))
            return lst[0]

        def cond(node, gname, cfn, want):
            t, i = sl.emit_cond(node, gname, cfn, params=tuple(want), want_params=want, **KW)
            g.add(t, i)

        def ifs(cfn, refs_exact, inside=None):
            return [n for n in sl.find_nodes(inside or fn(cfn), lambda n: n.get("kind") == "IfStmt" and sl.refs(n["inner"][0]) == set(refs_exact))]

        def p2p(root):
            out = []
            sl.walk(root, lambda n: out.append(n) if n.get("kind") == "CallExpr" and sl.callee_name(n) in
                    ("sc_MPI_Irecv", "sc_MPI_Isend", "MPI_Irecv", "MPI_Isend") else None)
            return out

        def msg(call, gname, cfn, params, base):
            """(buffer offset relative to `base`, bytes, peer, tag) of a point-to-point call"""
            buf = sl.strip(call["inner"][1])
            if buf.get("kind") == "DeclRefExpr" and buf["referencedDecl"]["name"] == base:
                g.add("Definition %s_offset %s : Z :=\n0.\n" % (gname, " ".join("(%s : Z)" % p for p in params)),
                      dict(name=gname + "_offset", params=list(params), fuel=False))
            elif buf.get("kind") == "BinaryOperator" and buf.get("opcode") == "+" and sl.strip(buf["inner"][0]).get("referencedDecl", {}).get("name") == base:
                t, i = sl.emit_expr(buf["inner"][1], gname + "_offset", cfn, params=tuple(params), want_params=list(params), **KW)
                g.add(t, i)
            else:
                raise c2g.Unsupported("%s: buffer of %s is not %s + offset" % (cfn, gname, base))
            for k_, suffix in ((1, "bytes"), (3, "peer"), (4, "tag")):
                t, i = sl.emit_expr(call["inner"][1 + k_], "%s_%s" % (gname, suffix), cfn, params=tuple(params), want_params=list(params), **KW)
                g.add(t, i)

        # ================= sc_allgather_recursive
        R = "sc_allgather_recursive"
        F = fn(R)
        body = [c for c in F["inner"] if c.get("kind") == "CompoundStmt"][0]
        decls = [s_ for s_ in body.get("inner", []) if s_.get("kind") == "DeclStmt" and
                 any(d.get("name") in ("g2", "g2B") for d in s_.get("inner", []))]
        t, i = sl.emit_block(decls, "ag_halves", ["g2", "g2B"], R, params=("groupsize",), want_params=["groupsize"], **KW)
        g.add(t, i)
        top = one(ifs(R, ("groupsize",)), "recursive: threshold test")
        cond(top["inner"][0], "ag_is_recursive", R, ["groupsize"])
        if len(top["inner"]) != 3:
            raise c2g.Unsupported("sc_allgather_recursive: no all-to-all branch")
        low = one(ifs(R, ("myoffset", "g2")), "recursive: lower half test")
        cond(low["inner"][0], "ag_in_lower", R, ["myoffset", "g2"])
        lo_odd = one(ifs(R, ("myoffset", "g2", "g2B"), inside=low["inner"][1]), "recursive: odd test, lower half")
        cond(lo_odd["inner"][0], "ag_lower_odd", R, ["myoffset", "g2", "g2B"])
        up_odd = one(ifs(R, ("myoffset", "groupsize", "g2", "g2B"), inside=low["inner"][2]), "recursive: odd test, upper half")
        cond(up_odd["inner"][0], "ag_upper_odd", R, ["myoffset", "groupsize", "g2", "g2B"])
        calls = p2p(top["inner"][1])
        kinds = [sl.callee_name(c).replace("sc_", "") for c in calls]
        if kinds != ["MPI_Irecv", "MPI_Isend", "MPI_Isend", "MPI_Irecv", "MPI_Irecv", "MPI_Isend"]:
            raise c2g.Unsupported("sc_allgather_recursive: point-to-point calls %s" % kinds)
        # where they sit: 1, 2 unconditional in the lower half, 3 under its odd test; 4 under the upper odd test, 5, 6 in its else branch
        where = [low["inner"][1], low["inner"][1], lo_odd["inner"][1], up_odd["inner"][1], up_odd["inner"][2], up_odd["inner"][2]]
        for c, w in zip(calls, where):
            if not sl.find_nodes(w, lambda n: n is c):
                raise c2g.Unsupported("sc_allgather_recursive: a point-to-point call moved to another branch")
        if sl.find_nodes(lo_odd["inner"][1], lambda n: n is calls[0] or n is calls[1]):
            raise c2g.Unsupported("sc_allgather_recursive: calls 1 / 2 are under the odd test")
        MP = ("datasize", "g2", "g2B", "myrank") + TAGS[:3]
        for k_, c in enumerate(calls):
            msg(c, "ag_msg%d" % (k_ + 1), R, MP, "data")
        rcs = sl.find_nodes(top["inner"][1], lambda n: n.get("kind") == "CallExpr" and sl.callee_name(n) == R)
        if len(rcs) != 2 or not sl.find_nodes(low["inner"][1], lambda n: n is rcs[0]) or not sl.find_nodes(low["inner"][2], lambda n: n is rcs[1]):
            raise c2g.Unsupported("sc_allgather_recursive: recursive calls")
        for rc, gname in zip(rcs, ("ag_recurse_lower", "ag_recurse_upper")):
            buf = sl.strip(rc["inner"][2])
            off = None
            if buf.get("kind") == "BinaryOperator" and buf.get("opcode") == "+" and sl.strip(buf["inner"][0]).get("referencedDecl", {}).get("name") == "data":
                off = buf["inner"][1]
            elif not (buf.get("kind") == "DeclRefExpr" and buf["referencedDecl"]["name"] == "data"):
                raise c2g.Unsupported("sc_allgather_recursive: data argument of the recursive call")
            RP = ("datasize", "g2", "g2B", "myoffset", "myrank")
            if off is None:
                g.add("Definition %s_offset %s : Z :=\n0.\n" % (gname, " ".join("(%s : Z)" % p for p in RP)), dict(name=gname + "_offset", params=list(RP), fuel=False))
            else:
                t, i = sl.emit_expr(off, gname + "_offset", R, params=RP, want_params=list(RP), **KW)
                g.add(t, i)
            t, i = sl.emit_block([rc], gname, ["*ghosts"], R, params=RP, want_params=list(RP), effects=(R,), effect_skip_args={R: (0, 1)}, **KW)
            g.add(t, i)
        wa = one(sl.find_nodes(top["inner"][1], lambda n: n.get("kind") == "CallExpr" and sl.callee_name(n) in ("sc_MPI_Waitall", "MPI_Waitall")), "recursive: waitall")
        t, i = sl.emit_expr(wa["inner"][1], "ag_wait_count", R, want_params=[], **KW)
        g.add(t, i)
        a2 = one(sl.find_nodes(top["inner"][2], lambda n: n.get("kind") == "CallExpr" and sl.callee_name(n) == "sc_allgather_alltoall"), "recursive: alltoall call")
        t, i = sl.emit_block([a2], "ag_a2a_args", ["*ghosts"], R, params=("datasize", "groupsize", "myoffset", "myrank"),
                             want_params=["datasize", "groupsize", "myoffset", "myrank"], effects=("sc_allgather_alltoall",),
                             effect_skip_args={"sc_allgather_alltoall": (0, 1)}, **KW)
        g.add(t, i)

        # ================= sc_allgather_alltoall
        A = "sc_allgather_alltoall"
        F = fn(A)
        sk = one(ifs(A, ("j", "myoffset")), "alltoall: skip test")
        cond(sk["inner"][0], "a2a_skip", A, ["j", "myoffset"])
        if not sl.find_nodes(sk["inner"][1], lambda n: n.get("kind") == "ContinueStmt"):
            raise c2g.Unsupported("sc_allgather_alltoall: the own slot is not skipped")
        pa = one(sl.find_nodes(F, lambda n: n.get("kind") == "BinaryOperator" and n.get("opcode") == "=" and
                               sl.strip(n["inner"][0]).get("referencedDecl", {}).get("name") == "peer"), "alltoall: peer")
        t, i = sl.emit_block([pa], "a2a_peer", ["peer"], A, params=("myrank", "myoffset", "j"), want_params=["myrank", "myoffset", "j"], **KW)
        g.add(t, i)
        calls = p2p(F)
        if [sl.callee_name(c).replace("sc_", "") for c in calls] != ["MPI_Irecv", "MPI_Isend"]:
            raise c2g.Unsupported("sc_allgather_alltoall: point-to-point calls")
        AP = ("datasize", "j", "myoffset", "peer", "SC_TAG_AG_ALLTOALL")
        msg(calls[0], "a2a_recv", A, AP, "data")
        msg(calls[1], "a2a_send", A, AP, "data")
        lp = one(sl.find_nodes(F, lambda n: n.get("kind") == "ForStmt"), "alltoall: loop")
        cond(lp["inner"][2], "a2a_loop_cond", A, ["j", "groupsize"])
        wa = one(sl.find_nodes(F, lambda n: n.get("kind") == "CallExpr" and sl.callee_name(n) in ("sc_MPI_Waitall", "MPI_Waitall")), "alltoall: waitall")
        t, i = sl.emit_expr(wa["inner"][1], "a2a_wait_count", A, params=("groupsize",), want_params=["groupsize"], **KW)
        g.add(t, i)

        # ================= sc_allgather
        T = "sc_allgather"
        F = fn(T)
        ds = one(sl.find_nodes(F, lambda n: n.get("kind") == "BinaryOperator" and n.get("opcode") == "=" and
                               sl.strip(n["inner"][0]).get("referencedDecl", {}).get("name") == "datasize"), "allgather: datasize")
        t, i = sl.emit_block([ds], "top_datasize", ["datasize"], T, params=("sendcount", "sc_mpi_sizeof_ret"), want_params=["sendcount", "sc_mpi_sizeof_ret"], **KW)
        g.add(t, i)
        # which type is measured: the argument of sc_mpi_sizeof (0 = sendtype, 1 = recvtype)
        sz = one(sl.find_nodes(ds, lambda n: n.get("kind") == "CallExpr" and sl.callee_name(n) == "sc_mpi_sizeof"), "allgather: sizeof call")
        t, i = sl.emit_expr(sz["inner"][1], "top_sized_type", T, params=("sendtype", "recvtype"), want_params=["sendtype", "recvtype"], **KW)
        g.add(t, i)
        mc = one(sl.find_nodes(F, lambda n: n.get("kind") == "CallExpr" and sl.callee_name(n) == "memcpy"), "allgather: memcpy")
        dst = sl.strip(mc["inner"][1])
        if dst.get("kind") != "BinaryOperator" or dst.get("opcode") != "+" or sl.strip(dst["inner"][0]).get("referencedDecl", {}).get("name") != "recvbuf":
            raise c2g.Unsupported("sc_allgather: memcpy destination is not recvbuf + offset")
        t, i = sl.emit_expr(dst["inner"][1], "top_copy_offset", T, params=("mpirank", "datasize"), want_params=["mpirank", "datasize"], **KW)
        g.add(t, i)
        t, i = sl.emit_expr(mc["inner"][3], "top_copy_bytes", T, params=("mpirank", "datasize"), want_params=["mpirank", "datasize"], **KW)
        g.add(t, i)
        if sl.strip(mc["inner"][2]).get("referencedDecl", {}).get("name") != "sendbuf":
            raise c2g.Unsupported("sc_allgather: memcpy source is not sendbuf")
        rc = one(sl.find_nodes(F, lambda n: n.get("kind") == "CallExpr" and sl.callee_name(n) == R), "allgather: recursive call")
        t, i = sl.emit_block([rc], "top_args", ["*ghosts"], T, params=("datasize", "mpisize", "mpirank"), want_params=["datasize", "mpisize", "mpirank"],
                             effects=(R,), effect_skip_args={R: (0, 1)}, **KW)
        g.add(t, i)
        return g, [f]

    GROUPS["AllgatherC04"] = gen_allgather
