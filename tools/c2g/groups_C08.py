"""Translator groups of C08 (sc_array) and C10 (allocation accounting): tie T1.

Group `Array`  (coq/Gen/Array.v)  - the integer-level decisions of the sc_array functions, taken from the
    bodies in /repo/src/sc_containers.c and the inline functions of sc_containers.h: every function is
    translated as a whole into a function from the scalar fields of the struct(s) and the scalar arguments
    to the new field values plus an *effect summary* (which allocation call is made, with which size).
    The hand-written model (coq/C08/ArrayModel.v) calls these generated functions for every decision and
    only performs the memory effect they name.
Group `Alloc`  (coq/Gen/Alloc.v)  - the counting statements of sc_malloc/sc_calloc/sc_realloc/sc_free,
    sc_memory_status, sc_memory_check_noerr, and the pointer arithmetic of the padding allocator
    (sc_malloc_aligned / sc_realloc_aligned / sc_free_aligned) of /repo/src/sc.c.
"""
import os, re, json


def register(GROUPS, c2g, incs, REPO, HERE, STRUCTS, Group):
    E = c2g.E
    ARR = ["elem_size", "elem_count", "byte_alloc", "array"]

    def strip(n):
        n = c2g.skip_parens(n)
        while n.get("kind") in ("ImplicitCastExpr", "CStyleCastExpr") and n.get("castKind") != "ToVoid":
            n = c2g.skip_parens(n["inner"][0])
        return n

    def callee_name(n):
        if n.get("kind") != "CallExpr":
            return None
        c = strip(n["inner"][0])
        return c.get("referencedDecl", {}).get("name")

    class EffT(c2g.Translator):
        """Translator with (a) pointers as plain integers (byte addresses), (b) calls with memory effects
        turned into assignments of ghost variables by `effects[name](T, call_node, env, lhs_key)`,
        which returns a list of (key, E)."""
        effects = {}
        effect_keys = {}
        drop_calls = ()

        def expr(self, n, env):
            k = n.get("kind")
            if k in ("ImplicitCastExpr", "CStyleCastExpr"):
                ck = n.get("castKind")
                if ck == "PointerToIntegral":
                    dst = c2g.int_type(c2g.tystr(n))
                    e = self.expr(n["inner"][0], env)
                    if dst == (False, 64):
                        return E(e.z(), "Z", True)
                    return E("%s %s" % (c2g.wrapname(dst), e.z()))
                if ck == "IntegralToPointer":
                    e = self.expr(n["inner"][0], env)
                    src = c2g.int_type(c2g.tystr(n["inner"][0]))
                    if src == (False, 64):
                        return E(e.z(), "Z", True)
                    return E("u64 %s" % e.z())
            if k == "BinaryOperator" and n.get("opcode") in ("+", "-") and c2g.is_pointer(c2g.tystr(n)):
                pt = c2g.strip_quals(c2g.tystr(n))
                if pt not in ("char *", "unsigned char *", "void *"):
                    raise c2g.Unsupported("pointer arithmetic on %s" % pt)
                a = self.expr(n["inner"][0], env)
                b = self.expr(n["inner"][1], env)
                return E("%s %s %s" % (a.z(), n["opcode"], b.z()))
            if k == "BinaryOperator" and n.get("opcode") in ("==", "!=") and c2g.is_pointer(c2g.tystr(n["inner"][0])):
                a = self.expr(n["inner"][0], env)
                b = self.expr(n["inner"][1], env)
                t = "%s =? %s" % (a.z(), b.z())
                return E(t if n["opcode"] == "==" else "negb (%s)" % t, "bool")
            if k == "ArraySubscriptExpr":
                # ((char **) ptr)[-1] and [-2]: the two bookkeeping words in front of an aligned block
                base = strip(n["inner"][0])
                idx = self.expr(n["inner"][1], env)
                if base.get("kind") == "DeclRefExpr" and re.match(r"^\(?-?\d+\)?$", idx.text):
                    key = "%s_word_%s" % (base["referencedDecl"]["name"], idx.text.strip("()").replace("-", "m"))
                    return E(self.lookup(env, key), "Z", True)
            return super().expr(n, env)

        def assigned(self, s, acc, declared):
            super().assigned(s, acc, declared)

            def walk(n):
                if not isinstance(n, dict):
                    return
                if n.get("kind") == "CallExpr" and callee_name(n) in self.effects:
                    for kk in self.effect_keys.get(callee_name(n), ()):
                        acc.add(kk)
                for c in n.get("inner", []):
                    walk(c)
            walk(s)

        def lvalue_key(self, n):
            n2 = c2g.skip_parens(n)
            if n2.get("kind") == "ArraySubscriptExpr":
                base = strip(n2["inner"][0])
                idx = n2["inner"][1]
                ie = super().expr(idx, {})
                if base.get("kind") == "DeclRefExpr" and re.match(r"^\(?-?\d+\)?$", ie.text):
                    return "%s_word_%s" % (base["referencedDecl"]["name"], ie.text.strip("()").replace("-", "m"))
            return super().lvalue_key(n)

        def stmts(self, ss, env, K):
            if ss:
                s, rest = ss[0], ss[1:]
                k = s.get("kind")
                call = None
                lhs = None
                if k == "CallExpr":
                    call = s
                elif k in ("ParenExpr", "CStyleCastExpr", "ImplicitCastExpr") and strip(s).get("kind") == "CallExpr" and not self.is_noop(s):
                    call = strip(s)
                elif k == "BinaryOperator" and s.get("opcode") == "=" and strip(s["inner"][1]).get("kind") == "CallExpr":
                    call = strip(s["inner"][1])
                    lhs = self.resolve_alias(self.lvalue_key(s["inner"][0]))
                elif k == "DeclStmt" and len(s.get("inner", [])) == 1:
                    d = s["inner"][0]
                    init = [c for c in d.get("inner", []) if isinstance(c, dict)]
                    if init and strip(init[0]).get("kind") == "CallExpr":
                        call = strip(init[0])
                        lhs = d["name"]
                if call is not None:
                    name = callee_name(call)
                    if name in self.drop_calls:
                        return self.stmts(rest, env, K)
                    if name in self.effects:
                        asg = self.effects[name](self, call, env, lhs)
                        env2 = dict(env)
                        pre = ""
                        for key, e in asg:
                            v = self.fresh(key)
                            pre += "let %s := %s in\n" % (v, e.z())
                            env2[key] = v
                        return pre + self.stmts(rest, env2, K)
                if k == "ReturnStmt":
                    # hoist prefix ++/-- out of the returned expression (sc_array_pop: `... * --array->elem_count`)
                    hoisted = []

                    def walk(n):
                        if not isinstance(n, dict):
                            return n
                        if n.get("kind") == "UnaryOperator" and n.get("opcode") in ("++", "--") and not n.get("isPostfix"):
                            hoisted.append(n)
                            return n["inner"][0]
                        if "inner" in n:
                            n = dict(n)
                            n["inner"] = [walk(c) for c in n["inner"]]
                        return n
                    s2 = walk(s)
                    if hoisted:
                        return self.stmts(hoisted + [s2] + rest, env, K)
                if k == "DoStmt":
                    # do { ... } while (0) wrappers of logging / alignment-hint macros carry no integer state
                    acc, decl = set(), set()
                    self.assigned(s, acc, decl)
                    if not [a for a in acc if a in env]:
                        return self.stmts(rest, env, K)
            return super().stmts(ss, env, K)

    def emit(fn, gname, params, outputs, effects=None, ghosts=(), drop_calls=(), body=None, ret=None, pre_env=None, comment="", effect_keys=None):
        """Translate the body of `fn` with the given parameter names (locations, e.g. array_elem_size) into
        Definition gname params := (outputs...).  ret: name under which the returned value is available as an output."""
        T = EffT(STRUCTS, tables={"sc_log2_lookup_table"})
        T.fname = fn["name"]
        T.gname = gname
        T.effects = effects or {}
        T.effect_keys = effect_keys or {}
        T.drop_calls = tuple(drop_calls)
        env = {}
        for p in params:
            env[p] = p
            T.param_kinds[p] = "Z"
        # pointer parameters themselves (needed for alias resolution `x = (T *) p`)
        for p in fn.get("inner", []):
            if p.get("kind") == "ParmVarDecl" and p.get("name") and p["name"] not in env:
                if c2g.is_pointer(c2g.tystr(p)) and (p["name"] + "_" + ARR[0]) in env:
                    env[p["name"]] = p["name"]
        for g in ghosts:
            env[g] = "0"
        if pre_env:
            env.update(pre_env)
        if body is None:
            body = [c for c in fn["inner"] if c.get("kind") == "CompoundStmt"][0].get("inner", [])

        def tup(e2, rv=None):
            parts = []
            for o in outputs:
                if o == ret:
                    parts.append(rv.z() if rv is not None else "0")
                else:
                    parts.append(e2[o])
            return parts[0] if len(parts) == 1 else "(%s)" % ", ".join(parts)

        K = dict(fin=lambda e2: tup(e2), ret=lambda e, e2: tup(e2, e),
                 brk=lambda e2: (_ for _ in ()).throw(c2g.Unsupported("break outside loop")),
                 cont=lambda e2: (_ for _ in ()).throw(c2g.Unsupported("continue outside loop")))
        text = T.stmts(list(body), env, K)
        if T.aux:
            raise c2g.Unsupported("loop in %s: not expected here" % fn["name"])
        plist = " ".join("(%s : Z)" % p for p in params)
        out = ""
        if comment:
            out += "(* %s *)\n" % comment
        out += "Definition %s %s :=\n%s.\n" % (gname, plist, text)
        return out, dict(name=gname, cname=fn["name"], params=list(params), outputs=list(outputs), fuel=False)

    def flds(p):
        return [p + "_" + f for f in ARR]

    # ------------------------------------------------------------------ group Array
    def gen_array(tmp):
        g = Group("Array")
        g.text += "From ScV Require Import Gen.Macros.   (* sc_log2_lookup_table, generated from sc.c *)\n\n"
        f = os.path.join(REPO, "src", "sc_containers.c")
        h = os.path.join(REPO, "src", "sc_containers.h")
        objs = c2g.clang_ast(f, "sc_array_", incs(tmp))

        def fnc(name):
            return c2g.find_function(objs, name)

        def arg(T, call, i, env):
            return T.expr(call["inner"][1 + i], env)

        # effect vocabulary: act = 0 nothing, 1 sc_array_reset (array), 2 array->array = sc_realloc (.., array->array, arg),
        #                    3 sc_array_resize (array, arg), 4 array->array = sc_malloc (.., arg), 5 sc_free (array->array)
        def eff_reset(T, call, env, lhs):
            return [("act", E("1", "Z", True))]

        def eff_realloc(T, call, env, lhs):
            if lhs != "array_array":
                raise c2g.Unsupported("sc_realloc result stored in %s" % lhs)
            p = strip(call["inner"][2])
            if T.lvalue_key(p) != "array_array":
                raise c2g.Unsupported("sc_realloc of something else than array->array")
            return [("act", E("2", "Z", True)), ("arg", arg(T, call, 2, env))]

        def eff_resize(T, call, env, lhs):
            return [("act", E("3", "Z", True)), ("arg", arg(T, call, 1, env))]

        def eff_malloc(T, call, env, lhs):
            if lhs != "array_array":
                raise c2g.Unsupported("sc_malloc result stored in %s" % lhs)
            return [("act", E("4", "Z", True)), ("arg", arg(T, call, 1, env))]

        def eff_free(T, call, env, lhs):
            key = T.lvalue_key(strip(call["inner"][2]))
            if key == "array_array":
                return [("act", E("5", "Z", True))]
            if key == "array":
                return [("self", E("1", "Z", True))]
            raise c2g.Unsupported("sc_free of %s" % key)

        EFF = {"sc_array_reset": eff_reset, "sc_realloc": eff_realloc, "sc_array_resize": eff_resize,
               "sc_malloc": eff_malloc, "sc_free": eff_free}

        EFFK = {"sc_array_reset": ["act"], "sc_realloc": ["act", "arg"], "sc_array_resize": ["act", "arg"],
                "sc_malloc": ["act", "arg"], "sc_free": ["act", "self"]}

        def one(name, params, outputs, **kw):
            t, i = emit(fnc(name), name, params, outputs, effects=EFF, ghosts=("act", "arg", "self"), effect_keys=EFFK, **kw)
            g.add(t, i)

        A = flds("array")
        one("sc_array_resize", A[:3] + ["new_count"], ["array_elem_count", "array_byte_alloc", "act", "arg"],
            comment="returns (elem_count, byte_alloc, act, arg): act 0 = no memory effect, 1 = sc_array_reset (array), "
                    "2 = array->array = sc_realloc (array->array, arg)")
        one("sc_array_push_count", A + ["add_count"], ["array_elem_count", "act", "arg", "ret"], ret="ret",
            comment="returns (elem_count, act, arg, returned pointer): act 3 = sc_array_resize (array, arg); the returned "
                    "pointer is computed from array->array BEFORE a possible reallocation (the C code reads it afterwards; the model "
                    "uses only the offset ret - array_array)")
        one("sc_array_pop", A, ["array_elem_count", "ret"], ret="ret",
            comment="returns (elem_count, returned pointer)")
        one("sc_array_index", A + ["iz"], ["ret"], ret="ret", comment="returned pointer")
        one("sc_array_init", ["elem_size"], A[:3] + ["array_array"], comment="new (elem_size, elem_count, byte_alloc, array)")
        one("sc_array_init_count", ["elem_size", "elem_count"], A[:3] + ["act", "arg"],
            comment="returns (elem_size, elem_count, byte_alloc, act, arg): act 4 = array->array = sc_malloc (arg)")
        one("sc_array_init_view", A + ["offset", "length"], flds("view"),
            comment="fields of the view from the fields of the viewed array")
        one("sc_array_init_data", ["base", "elem_size", "elem_count"], flds("view"), comment="fields of the view")
        one("sc_array_reset", A, A[1:] + ["act"],
            comment="returns (elem_count, byte_alloc, array, act): act 5 = sc_free (array->array)")
        one("sc_array_truncate", A, ["array_elem_count"], comment="new elem_count")
        one("sc_array_rewind", A + ["new_count"], ["array_elem_count", "act"],
            comment="returns (elem_count, act): act 1 = sc_array_reset (array)")
        one("sc_array_destroy", A, ["act", "self"],
            comment="returns (act, self): act 5 = sc_free (array->array); self 1 = sc_free (array), the struct itself")
        return g, [f, h]

    GROUPS["Array"] = gen_array

    # ------------------------------------------------------------------ group ArrayPermC08
    def gen_array_perm(tmp):
        """sc_array_permute cut into slices (tools/c2g/slicelib.py): the set-up (size of the temporary element, carray, esize,
        count), the choice of newind (in place / private copy with its sc_malloc and memcpy sizes), the two loop conditions, the
        statement in front of the inner loop, ONE iteration of the inner loop (the three memcpy calls with destination, source
        and byte count, the new zj, zk and the store into newind) and the statements behind it.  Everything else in the function
        must be a no-op (SC_ASSERT), a declaration without initialiser or an sc_free: the shape is checked here, so that a
        statement added anywhere, another callee or another loop makes the group FAIL (tie broken) instead of being ignored."""
        import slicelib as sl
        g = Group("ArrayPermC08")
        f = os.path.join(REPO, "src", "sc_containers.c")
        objs = c2g.clang_ast(f, "sc_array_", incs(tmp))
        P = "sc_array_permute"
        F = c2g.find_function(objs, P)
        body = [c for c in F["inner"] if c.get("kind") == "CompoundStmt"][0]
        stm = list(body.get("inner", []))
        probe = sl.SliceT()

        def bad(msg):
            raise c2g.Unsupported("%s: %s" % (P, msg))

        def calls(n):
            return [sl.callee_name(x) for x in sl.find_nodes(n, lambda x: x.get("kind") == "CallExpr")]

        def hoist(ss):
            """`x = (++y);` is `++y; x = y;`"""
            out = []
            for s_ in ss:
                if s_.get("kind") == "BinaryOperator" and s_.get("opcode") == "=":
                    r = sl.strip(s_["inner"][1])
                    if r.get("kind") == "UnaryOperator" and r.get("opcode") in ("++", "--") and not r.get("isPostfix"):
                        out.append(r)
                        out.append(dict(s_, inner=[s_["inner"][0], r["inner"][0]]))
                        continue
                out.append(s_)
            return out

        def add(t_i, want_outs=None):
            t, i = t_i
            if want_outs is not None and i.get("outputs") != want_outs:
                bad("%s: outputs %s, expected %s" % (i["name"], i.get("outputs"), want_outs))
            g.add(t, i)

        allc = calls(F)
        cnt = dict((c, allc.count(c)) for c in set(allc))
        if cnt != {"sc_malloc": 2, "sc_free": 3, "sc_array_index": 2, "memcpy": 4}:
            bad("calls %s (expected 2 sc_malloc, 3 sc_free, 2 sc_array_index, 4 memcpy and nothing else)" % sorted(cnt.items()))
        for c in sl.find_nodes(F, lambda x: x.get("kind") == "CallExpr" and sl.callee_name(x) == "sc_array_index"):
            a0, a1 = sl.strip(c["inner"][1]), sl.strip(c["inner"][2])
            if a0.get("referencedDecl", {}).get("name") != "newindices" or a1.get("kind") != "IntegerLiteral" or a1.get("value") != "0":
                bad("sc_array_index is not called as (newindices, 0)")
        loops = sl.find_nodes(F, lambda x: x.get("kind") in ("WhileStmt", "ForStmt", "DoStmt") and not probe.is_noop(x))
        wl = [x for x in loops if x.get("kind") == "WhileStmt"]
        if len(wl) != 2 or len([x for x in loops if x.get("kind") == "ForStmt"]) != 0:
            bad("expected exactly the two nested while loops")
        outer, inner = wl
        if outer not in stm:
            bad("the outer loop is not a statement of the function body")
        ob = list(outer["inner"][1].get("inner", []))
        if inner not in ob:
            bad("the inner loop is not a statement of the outer loop's body")
        k0 = stm.index(outer)
        live = [s_ for s_ in stm[:k0] if not probe.is_noop(s_)]
        decls = [s_ for s_ in live if s_.get("kind") == "DeclStmt"]
        ifs = [s_ for s_ in live if s_.get("kind") == "IfStmt"]
        inits = [s_ for s_ in live if s_.get("kind") == "BinaryOperator"]
        if len(decls) + len(ifs) + len(inits) != len(live) or len(ifs) != 2:
            bad("statements in front of the loop are not declarations, the two tests and the assignments to zi, zj")
        withinit = [d for d in decls if any(isinstance(c, dict) for v in d["inner"] for c in v.get("inner", []))]
        add(sl.emit_block(withinit, "c8_permute_setup", ["esize", "count", "carray", "temp", "*ghosts"], P, effects=("sc_malloc",),
                          effect_skip_args={"sc_malloc": (0,)}, want_params=["array_elem_size", "sc_malloc_ret", "array_array", "array_elem_count"],
                          comment="(esize, count, carray, temp, byte count of the sc_malloc of temp)"),
            ["esize", "count", "carray", "temp", "sc_malloc_arg1"])
        # if (!count) { SC_FREE (temp); return; }
        add(sl.emit_cond(ifs[0]["inner"][0], "c8_permute_empty", P, want_params=["count"]))
        eb = ifs[0]["inner"][1]
        if len(ifs[0]["inner"]) != 2 or calls(eb) != ["sc_free"] or not sl.find_nodes(eb, lambda x: x.get("kind") == "ReturnStmt") or \
                sl.find_nodes(eb, lambda x: x.get("kind") in ("BinaryOperator", "UnaryOperator", "CompoundAssignOperator") and x.get("opcode") in ("=", "++", "--")):
            bad("the branch for an empty array is not { sc_free; return; }")
        add(sl.emit_block([ifs[1]], "c8_permute_newind", ["newind", "*ghosts"], P, effects=("sc_malloc", "memcpy"), symbolic_calls=("sc_array_index",),
                          effect_skip_args={"sc_malloc": (0,)}, effect_called=True,
                          want_params=["keepperm", "sc_array_index_ret", "count", "sc_malloc_ret", "sc_array_index2_ret"],
                          comment="newind: the storage of newindices itself, or (keepperm) a private copy: (newind, sc_malloc called, its byte count, "
                                  "memcpy called, dest, src, byte count); sc_array_index_ret = sc_array_index (newindices, 0)"),
            ["newind", "sc_malloc_called", "sc_malloc_arg1", "memcpy_called", "memcpy_arg0", "memcpy_arg1", "memcpy_arg2"])
        add(sl.emit_block(inits, "c8_permute_init", ["zi", "zj"], P, want_params=[]))
        add(sl.emit_cond(outer["inner"][0], "c8_permute_outer_cond", P, want_params=["zi", "count"]))
        add(sl.emit_cond(inner["inner"][0], "c8_permute_inner_cond", P, want_params=["zk", "zi"]))
        k = ob.index(inner)
        add(sl.emit_block(ob[:k], "c8_permute_outer_pre", ["zk"], P, elem_arrays=("newind",), want_params=["newind_zj"],
                          comment="in front of the inner loop: zk = newind[zj]"))
        ib = list(inner["inner"][1].get("inner", []))
        add(sl.emit_block(ib, "c8_permute_inner_step", ["zj", "zk", "newind_zj", "*ghosts"], P, effects=("memcpy",), elem_arrays=("newind",),
                          want_params=["temp", "carray", "esize", "zk", "zi", "newind_zk"],
                          comment="one iteration of the inner loop: (zj, zk, value stored into newind[zj] (the NEW zj), then destination, source, "
                                  "byte count of the three memcpy calls in source order); newind_zk = newind[zk] on entry"),
            ["zj", "zk", "newind_zj"] + ["memcpy%s_arg%d" % (q, j) for q in ("", "2", "3") for j in range(3)])
        add(sl.emit_block(hoist(ob[k + 1:]), "c8_permute_outer_post", ["newind_zi", "zi", "zj"], P, elem_arrays=("newind",), want_params=["zi"],
                          comment="behind the inner loop: (value stored into newind[zi] (the OLD zi), zi, zj)"))
        # behind the outer loop: only sc_free calls (the private copy of newind if keepperm, temp)
        for s_ in stm[k0 + 1:]:
            if probe.is_noop(s_):
                continue
            if [c for c in calls(s_) if c != "sc_free"] or sl.find_nodes(s_, lambda x: x.get("opcode") in ("=", "++", "--", "+=", "-=")):
                bad("a statement behind the loop is not an sc_free")
        return g, [f]

    GROUPS["ArrayPermC08"] = gen_array_perm

    # ------------------------------------------------------------------ group ArrayDebugC08
    def gen_array_debug(tmp):
        """The SC_ENABLE_DEBUG configuration of sc_array_truncate, sc_array_rewind, sc_array_reset and sc_array_resize, each translated
        as a WHOLE (slicelib; SC_ASSERT = the executions that do not abort; memset / sc_realloc / sc_free / sc_array_reset calls as ghost
        outputs <callee>_called, <callee>_arg<i> in source order; `return` = end of the function): what the Debug build fills with -1,
        where and under which condition.  The census of memset calls over ALL sc_array_* functions of the Debug configuration is pinned:
        a fill added anywhere else makes the group FAIL."""
        import slicelib as sl
        import vlib
        g = Group("ArrayDebugC08")
        g.text += "From ScV Require Import Gen.Macros.   (* sc_log2_lookup_table, generated from sc.c *)\n\n"
        dinc = os.path.join(tmp, "inc_debug")
        os.makedirs(dinc, exist_ok=True)
        vlib.make_config_h(os.path.join(dinc, "sc_config.h"), "off", True, True)
        f = os.path.join(REPO, "src", "sc_containers.c")
        h = os.path.join(REPO, "src", "sc_containers.h")
        objs = c2g.clang_ast(f, "sc_array_", [dinc] + incs(tmp)[1:])

        def calls(n):
            return [sl.callee_name(x) for x in sl.find_nodes(n, lambda x: x.get("kind") == "CallExpr")]

        census = {}
        for o in objs:
            if o.get("kind") == "FunctionDecl" and o.get("name", "").startswith("sc_array_") and any(c.get("kind") == "CompoundStmt" for c in o.get("inner", [])):
                k = calls(o).count("memset")
                if k:
                    census[o["name"]] = k
        want = {"sc_array_memset": 1, "sc_array_truncate": 1, "sc_array_resize": 3}      # resize: shrink fill, grow fill (F-C08g repair), realloc fill
        if census != want:
            raise c2g.Unsupported("Debug configuration: memset calls per sc_array function %s, expected %s" % (sorted(census.items()), sorted(want.items())))

        def r2b(n):
            if not isinstance(n, dict):
                return n
            if n.get("kind") == "ReturnStmt":
                if [c for c in n.get("inner", []) if isinstance(c, dict)]:
                    raise c2g.Unsupported("return with a value in a void function")
                return {"kind": "BreakStmt"}
            m = dict(n)
            if "inner" in m:
                m["inner"] = [r2b(c) for c in m["inner"]]
            return m

        def whole(cname, gname, outs, want_params, want_outs, comment, **kw):
            F = c2g.find_function(objs, cname)
            body = [r2b(x) for x in [c for c in F["inner"] if c.get("kind") == "CompoundStmt"][0].get("inner", [])]
            t, i = sl.emit_block(body, gname, outs, cname, effect_called=True, jumps_end=True, want_params=want_params,
                                 tables={"sc_log2_lookup_table"}, comment=comment, **kw)
            if i["outputs"] != want_outs:
                raise c2g.Unsupported("%s (Debug configuration): outputs %s, expected %s" % (cname, i["outputs"], want_outs))
            g.add(t, i)

        EFF = ("memset", "memcpy", "sc_realloc", "sc_malloc", "sc_free", "sc_array_reset")
        SKIP = {"sc_realloc": (0,), "sc_malloc": (0,), "sc_free": (0,)}
        whole("sc_array_truncate", "c8d_truncate", ["array_elem_count", "*ghosts"], ["array_array", "array_byte_alloc"],
              ["array_elem_count", "memset_called", "memset_arg0", "memset_arg1", "memset_arg2"],
              "(elem_count, memset called, destination, value, byte count)", effects=EFF, effect_skip_args=SKIP)
        whole("sc_array_rewind", "c8d_rewind", ["array_elem_count", "*ghosts"], ["new_count", "array_byte_alloc", "array", "array_elem_count"],
              ["array_elem_count", "sc_array_reset_called", "sc_array_reset_arg0"],
              "(elem_count, sc_array_reset called, its argument): NO memset", effects=EFF, effect_skip_args=SKIP)
        whole("sc_array_reset", "c8d_reset", ["array_array", "array_elem_count", "array_byte_alloc", "*ghosts"], ["array_byte_alloc", "array_array"],
              ["array_array", "array_elem_count", "array_byte_alloc", "sc_free_called", "sc_free_arg1"],
              "(array, elem_count, byte_alloc, sc_free called, freed pointer): NO memset", effects=EFF, effect_skip_args=SKIP)
        whole("sc_array_resize", "c8d_resize", ["array_elem_count", "array_byte_alloc", "*ghosts"],
              ["array_byte_alloc", "new_count", "array", "array_elem_count", "array_elem_size", "array_array", "sc_realloc_ret"],
              ["array_elem_count", "array_byte_alloc", "sc_array_reset_called", "sc_array_reset_arg0", "memset_called", "memset_arg0", "memset_arg1",
               "memset_arg2", "memset2_called", "memset2_arg0", "memset2_arg1", "memset2_arg2", "sc_realloc_called", "sc_realloc_arg1", "sc_realloc_arg2",
               "memset3_called", "memset3_arg0", "memset3_arg1", "memset3_arg2"],
              "(elem_count, byte_alloc, reset called, arg, memset [allocation kept, shrink: the dropped elements] called, dest, value, bytes, memset2 "
              "[allocation kept, growth: the elements that become visible] called, dest, value, bytes, sc_realloc called, pointer, size, memset3 [after "
              "the reallocation] called, dest, value, bytes)", effects=EFF, effect_skip_args=SKIP)
        if [i_ for i_ in g.infos if i_.get("fuel")]:
            raise c2g.Unsupported("Debug configuration: a loop in one of the four functions (the spare-byte assertion loop of F-C08g is back?)")
        return g, [f, h]

    GROUPS["ArrayDebugC08"] = gen_array_debug
