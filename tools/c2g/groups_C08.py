"""Translator groups of C08 (sc_array) and C10 (allocation accounting): tie T1.

Group `Array`  (coq/Gen/Array.v)  - the integer-level decisions of the sc_array functions, taken from the
    bodies in /repo/src/sc_containers.c and the inline functions of sc_containers.h: every function is
    translated as a whole into a function from the scalar fields of the struct(s) and the scalar arguments
    to the new field values plus an *effect summary* (which allocation call is made, with which size).
    The hand-written model (coq/C08/ArrayModel.v) calls these generated functions for every decision and
    only performs the memory effect they name.
Group `Alloc`  (coq/Gen/Alloc.v)  - the counting statements of sc_malloc/sc_calloc/sc_realloc/sc_free,
    sc_memory_status, sc_memory_check_noerr, and the pointer arithmetic of the padding allocator
    (sc_malloc_aligned / sc_realloc_aligned / sc_free_aligned) of /repo/src/sc.c.
"""
import os, re, json


def register(GROUPS, c2g, incs, REPO, HERE, STRUCTS, Group):
    E = c2g.E
    ARR = ["elem_size", "elem_count", "byte_alloc", "array"]

    def strip(n):
        n = c2g.skip_parens(n)
        while n.get("kind") in ("ImplicitCastExpr", "CStyleCastExpr") and n.get("castKind") != "ToVoid":
            n = c2g.skip_parens(n["inner"][0])
        return n

    def callee_name(n):
        if n.get("kind") != "CallExpr":
            return None
        c = strip(n["inner"][0])
        return c.get("referencedDecl", {}).get("name")

    class EffT(c2g.Translator):
        """Translator with (a) pointers as plain integers (byte addresses), (b) calls with memory effects
        turned into assignments of ghost variables by `effects[name](T, call_node, env, lhs_key)`,
        which returns a list of (key, E)."""
        effects = {}
        effect_keys = {}
        drop_calls = ()

        def expr(self, n, env):
            k = n.get("kind")
            if k in ("ImplicitCastExpr", "CStyleCastExpr"):
                ck = n.get("castKind")
                if ck == "PointerToIntegral":
                    dst = c2g.int_type(c2g.tystr(n))
                    e = self.expr(n["inner"][0], env)
                    if dst == (False, 64):
                        return E(e.z(), "Z", True)
                    return E("%s %s" % (c2g.wrapname(dst), e.z()))
                if ck == "IntegralToPointer":
                    e = self.expr(n["inner"][0], env)
                    src = c2g.int_type(c2g.tystr(n["inner"][0]))
                    if src == (False, 64):
                        return E(e.z(), "Z", True)
                    return E("u64 %s" % e.z())
            if k == "BinaryOperator" and n.get("opcode") in ("+", "-") and c2g.is_pointer(c2g.tystr(n)):
                pt = c2g.strip_quals(c2g.tystr(n))
                if pt not in ("char *", "unsigned char *", "void *"):
                    raise c2g.Unsupported("pointer arithmetic on %s" % pt)
                a = self.expr(n["inner"][0], env)
                b = self.expr(n["inner"][1], env)
                return E("%s %s %s" % (a.z(), n["opcode"], b.z()))
            if k == "BinaryOperator" and n.get("opcode") in ("==", "!=") and c2g.is_pointer(c2g.tystr(n["inner"][0])):
                a = self.expr(n["inner"][0], env)
                b = self.expr(n["inner"][1], env)
                t = "%s =? %s" % (a.z(), b.z())
                return E(t if n["opcode"] == "==" else "negb (%s)" % t, "bool")
            if k == "ArraySubscriptExpr":
                # ((char **) ptr)[-1] and [-2]: the two bookkeeping words in front of an aligned block
                base = strip(n["inner"][0])
                idx = self.expr(n["inner"][1], env)
                if base.get("kind") == "DeclRefExpr" and re.match(r"^\(?-?\d+\)?$", idx.text):
                    key = "%s_word_%s" % (base["referencedDecl"]["name"], idx.text.strip("()").replace("-", "m"))
                    return E(self.lookup(env, key), "Z", True)
            return super().expr(n, env)

        def assigned(self, s, acc, declared):
            super().assigned(s, acc, declared)

            def walk(n):
                if not isinstance(n, dict):
                    return
                if n.get("kind") == "CallExpr" and callee_name(n) in self.effects:
                    for kk in self.effect_keys.get(callee_name(n), ()):
                        acc.add(kk)
                for c in n.get("inner", []):
                    walk(c)
            walk(s)

        def lvalue_key(self, n):
            n2 = c2g.skip_parens(n)
            if n2.get("kind") == "ArraySubscriptExpr":
                base = strip(n2["inner"][0])
                idx = n2["inner"][1]
                ie = super().expr(idx, {})
                if base.get("kind") == "DeclRefExpr" and re.match(r"^\(?-?\d+\)?$", ie.text):
                    return "%s_word_%s" % (base["referencedDecl"]["name"], ie.text.strip("()").replace("-", "m"))
            return super().lvalue_key(n)

        def stmts(self, ss, env, K):
            if ss:
                s, rest = ss[0], ss[1:]
                k = s.get("kind")
                call = None
                lhs = None
                if k == "CallExpr":
                    call = s
                elif k in ("ParenExpr", "CStyleCastExpr", "ImplicitCastExpr") and strip(s).get("kind") == "CallExpr" and not self.is_noop(s):
                    call = strip(s)
                elif k == "BinaryOperator" and s.get("opcode") == "=" and strip(s["inner"][1]).get("kind") == "CallExpr":
                    call = strip(s["inner"][1])
                    lhs = self.resolve_alias(self.lvalue_key(s["inner"][0]))
                elif k == "DeclStmt" and len(s.get("inner", [])) == 1:
                    d = s["inner"][0]
                    init = [c for c in d.get("inner", []) if isinstance(c, dict)]
                    if init and strip(init[0]).get("kind") == "CallExpr":
                        call = strip(init[0])
                        lhs = d["name"]
                if call is not None:
                    name = callee_name(call)
                    if name in self.drop_calls:
                        return self.stmts(rest, env, K)
                    if name in self.effects:
                        asg = self.effects[name](self, call, env, lhs)
                        env2 = dict(env)
                        pre = ""
                        for key, e in asg:
                            v = self.fresh(key)
                            pre += "let %s := %s in\n" % (v, e.z())
                            env2[key] = v
                        return pre + self.stmts(rest, env2, K)
                if k == "ReturnStmt":
                    # hoist prefix ++/-- out of the returned expression (sc_array_pop: `... * --array->elem_count`)
                    hoisted = []

                    def walk(n):
                        if not isinstance(n, dict):
                            return n
                        if n.get("kind") == "UnaryOperator" and n.get("opcode") in ("++", "--") and not n.get("isPostfix"):
                            hoisted.append(n)
                            return n["inner"][0]
                        if "inner" in n:
                            n = dict(n)
                            n["inner"] = [walk(c) for c in n["inner"]]
                        return n
                    s2 = walk(s)
                    if hoisted:
                        return self.stmts(hoisted + [s2] + rest, env, K)
                if k == "DoStmt":
                    # do { ... } while (0) wrappers of logging / alignment-hint macros carry no integer state
                    acc, decl = set(), set()
                    self.assigned(s, acc, decl)
                    if not [a for a in acc if a in env]:
                        return self.stmts(rest, env, K)
            return super().stmts(ss, env, K)

    def emit(fn, gname, params, outputs, effects=None, ghosts=(), drop_calls=(), body=None, ret=None, pre_env=None, comment="", effect_keys=None):
        """Translate the body of `fn` with the given parameter names (locations, e.g. array_elem_size) into
        Definition gname params := (outputs...).  ret: name under which the returned value is available as an output."""
        T = EffT(STRUCTS, tables={"sc_log2_lookup_table"})
        T.fname = fn["name"]
        T.gname = gname
        T.effects = effects or {}
        T.effect_keys = effect_keys or {}
        T.drop_calls = tuple(drop_calls)
        env = {}
        for p in params:
            env[p] = p
            T.param_kinds[p] = "Z"
        # pointer parameters themselves (needed for alias resolution `x = (T *) p`)
        for p in fn.get("inner", []):
            if p.get("kind") == "ParmVarDecl" and p.get("name") and p["name"] not in env:
                if c2g.is_pointer(c2g.tystr(p)) and (p["name"] + "_" + ARR[0]) in env:
                    env[p["name"]] = p["name"]
        for g in ghosts:
            env[g] = "0"
        if pre_env:
            env.update(pre_env)
        if body is None:
            body = [c for c in fn["inner"] if c.get("kind") == "CompoundStmt"][0].get("inner", [])

        def tup(e2, rv=None):
            parts = []
            for o in outputs:
                if o == ret:
                    parts.append(rv.z() if rv is not None else "0")
                else:
                    parts.append(e2[o])
            return parts[0] if len(parts) == 1 else "(%s)" % ", ".join(parts)

        K = dict(fin=lambda e2: tup(e2), ret=lambda e, e2: tup(e2, e),
                 brk=lambda e2: (_ for _ in ()).throw(c2g.Unsupported("break outside loop")),
                 cont=lambda e2: (_ for _ in ()).throw(c2g.Unsupported("continue outside loop")))
        text = T.stmts(list(body), env, K)
        if T.aux:
            raise c2g.Unsupported("loop in %s: not expected here" % fn["name"])
        plist = " ".join("(%s : Z)" % p for p in params)
        out = ""
        if comment:
            out += "(* %s *)\n" % comment
        out += "Definition %s %s :=\n%s.\n" % (gname, plist, text)
        return out, dict(name=gname, cname=fn["name"], params=list(params), outputs=list(outputs), fuel=False)

    def flds(p):
        return [p + "_" + f for f in ARR]

    # ------------------------------------------------------------------ group Array
    def gen_array(tmp):
        g = Group("Array")
        g.text += "From ScV Require Import Gen.Macros.   (* sc_log2_lookup_table, generated from sc.c *)\n\n"
        f = os.path.join(REPO, "src", "sc_containers.c")
        h = os.path.join(REPO, "src", "sc_containers.h")
        objs = c2g.clang_ast(f, "sc_array_", incs(tmp))

        def fnc(name):
            return c2g.find_function(objs, name)

        def arg(T, call, i, env):
            return T.expr(call["inner"][1 + i], env)

        # effect vocabulary: act = 0 nothing, 1 sc_array_reset (array), 2 array->array = sc_realloc (.., array->array, arg),
        #                    3 sc_array_resize (array, arg), 4 array->array = sc_malloc (.., arg), 5 sc_free (array->array)
        def eff_reset(T, call, env, lhs):
            return [("act", E("1", "Z", True))]

        def eff_realloc(T, call, env, lhs):
            if lhs != "array_array":
                raise c2g.Unsupported("sc_realloc result stored in %s" % lhs)
            p = strip(call["inner"][2])
            if T.lvalue_key(p) != "array_array":
                raise c2g.Unsupported("sc_realloc of something else than array->array")
            return [("act", E("2", "Z", True)), ("arg", arg(T, call, 2, env))]

        def eff_resize(T, call, env, lhs):
            return [("act", E("3", "Z", True)), ("arg", arg(T, call, 1, env))]

        def eff_malloc(T, call, env, lhs):
            if lhs != "array_array":
                raise c2g.Unsupported("sc_malloc result stored in %s" % lhs)
            return [("act", E("4", "Z", True)), ("arg", arg(T, call, 1, env))]

        def eff_free(T, call, env, lhs):
            key = T.lvalue_key(strip(call["inner"][2]))
            if key == "array_array":
                return [("act", E("5", "Z", True))]
            if key == "array":
                return [("self", E("1", "Z", True))]
            raise c2g.Unsupported("sc_free of %s" % key)

        EFF = {"sc_array_reset": eff_reset, "sc_realloc": eff_realloc, "sc_array_resize": eff_resize,
               "sc_malloc": eff_malloc, "sc_free": eff_free}

        EFFK = {"sc_array_reset": ["act"], "sc_realloc": ["act", "arg"], "sc_array_resize": ["act", "arg"],
                "sc_malloc": ["act", "arg"], "sc_free": ["act", "self"]}

        def one(name, params, outputs, **kw):
            t, i = emit(fnc(name), name, params, outputs, effects=EFF, ghosts=("act", "arg", "self"), effect_keys=EFFK, **kw)
            g.add(t, i)

        A = flds("array")
        one("sc_array_resize", A[:3] + ["new_count"], ["array_elem_count", "array_byte_alloc", "act", "arg"],
            comment="returns (elem_count, byte_alloc, act, arg): act 0 = no memory effect, 1 = sc_array_reset (array), "
                    "2 = array->array = sc_realloc (array->array, arg)")
        one("sc_array_push_count", A + ["add_count"], ["array_elem_count", "act", "arg", "ret"], ret="ret",
            comment="returns (elem_count, act, arg, returned pointer): act 3 = sc_array_resize (array, arg); the returned "
                    "pointer is computed from array->array BEFORE a possible reallocation (the C code reads it afterwards; the model "
                    "uses only the offset ret - array_array)")
        one("sc_array_pop", A, ["array_elem_count", "ret"], ret="ret",
            comment="returns (elem_count, returned pointer)")
        one("sc_array_index", A + ["iz"], ["ret"], ret="ret", comment="returned pointer")
        one("sc_array_init", ["elem_size"], A[:3] + ["array_array"], comment="new (elem_size, elem_count, byte_alloc, array)")
        one("sc_array_init_count", ["elem_size", "elem_count"], A[:3] + ["act", "arg"],
            comment="returns (elem_size, elem_count, byte_alloc, act, arg): act 4 = array->array = sc_malloc (arg)")
        one("sc_array_init_view", A + ["offset", "length"], flds("view"),
            comment="fields of the view from the fields of the viewed array")
        one("sc_array_init_data", ["base", "elem_size", "elem_count"], flds("view"), comment="fields of the view")
        one("sc_array_reset", A, A[1:] + ["act"],
            comment="returns (elem_count, byte_alloc, array, act): act 5 = sc_free (array->array)")
        one("sc_array_truncate", A, ["array_elem_count"], comment="new elem_count")
        one("sc_array_rewind", A + ["new_count"], ["array_elem_count", "act"],
            comment="returns (elem_count, act): act 1 = sc_array_reset (array)")
        one("sc_array_destroy", A, ["act", "self"],
            comment="returns (act, self): act 5 = sc_free (array->array); self 1 = sc_free (array), the struct itself")
        return g, [f, h]

    GROUPS["Array"] = gen_array
