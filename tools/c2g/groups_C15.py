"""Translator group of C15 (tie T1): `RangesC15` (coq/Gen/RangesC15.v), regenerated from /repo/src/sc_ranges.c on every run.

`ranges[2 * x]` / `ranges[2 * x + 1]` are the locations ranges_lo_x / ranges_hi_x (see tools/c2g/slicelib.py; any other index
shape is refused, so an edited index is a FAILED group or a changed definition).
sc_ranges_compute
  compute_unused          the two constants every slot is initialised with (-1, -2)
  compute_empty           first_peer > last_peer: no peers, no ranges
  compute_init            lastw = num_ranges - 1, prev = -1
  compute_skip            !procs[j] || j == rank (not a peer)
  compute_first           prev == -1 (the first peer opens no gap)
  compute_gap_test / compute_gap_length / compute_gap_claim / compute_slot_unused / compute_nwin
                          prev < j - 1, the length, the claimed empty range (prev + 1, j - 1), the test for an unused slot
  compute_full            nwin == num_ranges: all slots in use, one has to go
  compute_evict_init / compute_evict_step / compute_evict_move_test / compute_evict_move / compute_evict_clear
                          the scan for the shortest slot (length of a slot, the comparison that decides), the move of the
                          last slot into its place, the cleared last slot
  compute_invert_last / compute_invert_step / compute_invert_first   empty ranges -> covering ranges
sc_ranges_decode
  decode_row_recv / decode_row_send    offset of a rank's row in global_ranges
  decode_recv_stop / decode_recv_first / decode_recv_cond / decode_recv_body   the receivers of `rank`
  decode_send_self / decode_send_body                                          is j a sender to `rank`
coq/C15/RangesGen.v proves that the hand-written model (RangesModel.v) computes exactly these.

Loops and whole bodies (class RangesT = slicelib.SliceT + three documented additions: a chained assignment `a = b = e` is `b = e; a = b`;
`*(T *) p` for a pointer variable p is the location p_deref; `a[K]` with a literal K is the location a_K).  Here `ranges[e]` / `procs[e]`
are MEMORY READS (`ranges e`, `procs e` with ranges, procs : Z -> Z), so the loops are translated as loops (fuelled fixpoints):
  compute_claim_scan      the loop that finds the first unused slot (and the two stores into it): which slot a new gap goes into
  compute_evict_scan      `nwin = lastw; shortest_range = -1; shortest_length = num_procs + 1; for (i = 0; i < num_ranges; ++i) ..`:
                          the WHOLE scan for the shortest slot with its bounds
  compute_sort            the statements between the walk over the peers and the inversion: qsort (ranges, nwin, 2 * sizeof (int), ..) is
                          called unconditionally (ghost output qsort_called = 1) - the comparator argument is checked here to be
                          sc_ranges_compare; ranges_compare = the body of sc_ranges_compare
  adaptive_body           the WHOLE body of sc_ranges_adaptive: the loop that counts the peers (procs[j] > 0 && j != rank), the arguments of
                          sc_ranges_compute / sc_MPI_Allreduce / sc_malloc / sc_MPI_Allgather (ghost outputs <callee>_called, _arg<i>), the
                          contributions local[0], local[1], the outputs *inout1, *inout2, *global_ranges, the return value
  statistics_body         the WHOLE body of sc_ranges_statistics: the two nested loops and the value handed to sc_stats_set1
coq/C15/RangesGenLoops.v proves the model equal to these."""
import os, re


def register(GROUPS, c2g, incs, REPO, HERE, STRUCTS, Group):
    import slicelib as sl

    class RangesT(sl.SliceT):
        """SliceT with one documented addition: a chained assignment `a = b = e` at statement level is read as `b = e; a = b`."""
        loops_return_int = False       # the function returns an int: a `return e;` inside a loop would deliver an integer

        @property
        def ret_void(self):
            return not self.loops_return_int

        @ret_void.setter
        def ret_void(self, v):
            pass

        def __init__(self, **kw):
            super().__init__(**kw)
            self.const_index_locations = True     # `local[0]`, `global[1]` (literal index) are the scalar locations local_0, global_1

        def lvalue_key(self, n):
            # *(T *) p for a pointer variable p: the location p_deref (the object p points to, read at type T)
            n2 = c2g.skip_parens(n)
            if n2.get("kind") == "UnaryOperator" and n2.get("opcode") == "*":
                b = sl.strip(n2["inner"][0])
                if b.get("kind") == "DeclRefExpr":
                    return b["referencedDecl"]["name"] + "_deref"
            return super().lvalue_key(n)

        def referenced(self, s_, acc):
            # a[e] for a memory-read array references what e references; a[K] with a literal K is the location a_K
            if s_.get("kind") == "ArraySubscriptExpr":
                if self.fun_name(s_) is not None:
                    self.referenced(s_["inner"][1], acc)
                    return
                b, ix = sl.strip(s_["inner"][0]), sl.strip(s_["inner"][1])
                if b.get("kind") == "DeclRefExpr" and ix.get("kind") == "IntegerLiteral" and b["referencedDecl"]["name"] not in self.pair_arrays:
                    acc.add("%s_%s" % (b["referencedDecl"]["name"], ix["value"]))
                    return
            super().referenced(s_, acc)

        def stmts(self, ss, env, K):
            if ss and ss[0].get("kind") == "BinaryOperator" and ss[0].get("opcode") == "=":
                rhs = c2g.skip_parens(ss[0]["inner"][1])
                if rhs.get("kind") == "BinaryOperator" and rhs.get("opcode") == "=":
                    lv = rhs["inner"][0]
                    read = dict(kind="ImplicitCastExpr", castKind="LValueToRValue", type=lv.get("type", {}), inner=[lv])
                    return self.stmts([rhs, dict(ss[0], inner=[ss[0]["inner"][0], read])] + list(ss[1:]), env, K)
            return super().stmts(ss, env, K)

    def remit(*a, **kw):
        """sl.emit_block with RangesT as the translator"""
        saved = sl.SliceT
        RangesT.loops_return_int = bool(kw.pop("loops_return_int", False))
        sl.SliceT = RangesT
        try:
            return sl.emit_block(*a, **kw)
        finally:
            sl.SliceT = saved
            RangesT.loops_return_int = False

    def gen_ranges(tmp):
        g = Group("RangesC15")
        f = os.path.join(REPO, "src", "sc_ranges.c")
        src = open(f).read()
        cache = {}
        KW = dict(pair_arrays=("ranges", "the_ranges"), elem_arrays=("procs",), append_arrays=("receiver_ranks", "sender_ranks"),
                  drop_calls=("sc_log", "sc_logf"))

        def fn(name):
            if name not in cache:
                cache[name] = c2g.find_function(c2g.clang_ast(f, name, incs(tmp)), name)
            return cache[name]

        def block(cfn, begin, end, gname, outputs, want, occurrence=0, params=None, **kw):
            st = c2g.select_between(fn(cfn), src, begin, end, occurrence=occurrence)
            k2 = dict(KW)
            k2.update(kw)
            t, i = sl.emit_block(st, gname, outputs, cfn, want_params=want, params=tuple(params if params is not None else want), **k2)
            g.add(t, i)

        def cond(node, gname, cfn, want):
            t, i = sl.emit_cond(node, gname, cfn, want_params=want, **KW)
            g.add(t, i)

        def ifs_with(cfn, must_ref, jump, exact=False, inside=None):
            """if statements of cfn whose condition mentions exactly / at least must_ref and whose branch is (ends in) `jump`"""
            def ok(n):
                if n.get("kind") != "IfStmt":
                    return False
                r = sl.refs(n["inner"][0])
                if (r != set(must_ref)) if exact else not (set(must_ref) <= r):
                    return False
                br = n["inner"][1]
                sts = br.get("inner", []) if br.get("kind") == "CompoundStmt" else [br]
                sts = [x for x in sts if isinstance(x, dict) and "kind" in x]
                return bool(sts) and sts[-1].get("kind") == jump
            return sl.find_nodes(inside or fn(cfn), ok)

        def one(lst, what):
            if len(lst) != 1:
                raise c2g.Unsupported("%s: %d candidates" % (what, len(lst)))
            return lst[0]

        C = "sc_ranges_compute"
        # ---- initialisation
        block(C, r"ranges\[2 \* i\] = -1;", r"/\* if no peers are present there are no ranges \*/", "compute_unused",
              ["ranges_lo_i", "ranges_hi_i"], [])
        cond(one(ifs_with(C, ("first_peer", "last_peer"), "ReturnStmt", exact=True), "compute: empty test")["inner"][0],
             "compute_empty", C, ["first_peer", "last_peer"])
        block(C, r"lastw = num_ranges - 1;", r"for \(j = 0; j < num_procs; \+\+j\)", "compute_init", ["lastw", "prev"], ["num_ranges"])
        # ---- the walk over the peers
        cond(one(ifs_with(C, ("procs", "j", "rank"), "ContinueStmt", exact=True), "compute: skip test")["inner"][0],
             "compute_skip", C, ["procs_j", "j", "rank"])
        cond(one(ifs_with(C, ("prev",), "ContinueStmt", exact=True), "compute: first peer test")["inner"][0],
             "compute_first", C, ["prev"])
        gap = one([n for n in sl.find_nodes(fn(C), lambda n: n.get("kind") == "IfStmt" and sl.refs(n["inner"][0]) == {"prev", "j"})
                   if sl.find_nodes(n["inner"][1], lambda m: m.get("kind") == "ForStmt")], "compute: gap test")
        cond(gap["inner"][0], "compute_gap_test", C, ["prev", "j"])
        block(C, r"length = j - 1 - prev;", r"SC_GEN_LOGF \(package_id, SC_LC_NORMAL, SC_LP_DEBUG,\s*\n\s*\"found empty range", "compute_gap_length",
              ["length"], ["prev", "j"])
        block(C, r"ranges\[2 \* i\] = prev \+ 1;", r"^\s*break;", "compute_gap_claim", ["ranges_lo_i", "ranges_hi_i"], ["prev", "j"])
        cond(one(ifs_with(C, ("ranges", "i"), "BreakStmt", exact=True, inside=gap), "compute: unused slot test")["inner"][0],
             "compute_slot_unused", C, ["ranges_lo_i"])
        block(C, r"nwin = i \+ 1;", r"/\* if all ranges are used, remove the shortest \*/", "compute_nwin", ["nwin"], ["i"])
        # ---- eviction of the shortest
        full = one(sl.find_nodes(gap, lambda n: n.get("kind") == "IfStmt" and sl.refs(n["inner"][0]) == {"nwin", "num_ranges"}), "compute: full test")
        cond(full["inner"][0], "compute_full", C, ["nwin", "num_ranges"])
        block(C, r"nwin = lastw;", r"for \(i = 0; i < num_ranges; \+\+i\) \{\s*\n\s*length = ranges", "compute_evict_init",
              ["nwin", "shortest_range", "shortest_length"], ["lastw", "num_procs"])
        block(C, r"length = ranges\[2 \* i \+ 1\] - ranges\[2 \* i\] \+ 1;", r"SC_ASSERT \(shortest_range >= 0 && shortest_range <= lastw\);",
              "compute_evict_step", ["shortest_range", "shortest_length"],
              ["ranges_lo_i", "ranges_hi_i", "i", "shortest_range", "shortest_length"])
        mv = one(sl.find_nodes(full, lambda n: n.get("kind") == "IfStmt" and sl.refs(n["inner"][0]) == {"shortest_range", "lastw"}), "compute: move test")
        cond(mv["inner"][0], "compute_evict_move_test", C, ["shortest_range", "lastw"])
        block(C, r"ranges\[2 \* shortest_range\] = ranges\[2 \* lastw\];", r"^\s*\}\s*\n\s*ranges\[2 \* lastw\] = -1;", "compute_evict_move",
              ["ranges_lo_shortest_range", "ranges_hi_shortest_range"], ["ranges_lo_lastw", "ranges_hi_lastw"])
        block(C, r"^\s*ranges\[2 \* lastw\] = -1;", r"^\s*prev = j;", "compute_evict_clear", ["ranges_lo_lastw", "ranges_hi_lastw"], [])
        # ---- empty ranges -> ranges
        block(C, r"ranges\[2 \* nwin \+ 1\] = last_peer;", r"for \(i = nwin; i > 0; --i\)", "compute_invert_last", ["ranges_hi_nwin"], ["last_peer"])
        block(C, r"ranges\[2 \* i\] = ranges\[2 \* i - 1\] \+ 1;", r"^\s*ranges\[0\] = first_peer;", "compute_invert_step",
              ["ranges_lo_i", "ranges_hi_i_m1"], ["ranges_lo_i_m1", "ranges_hi_i_m1"])
        block(C, r"^\s*ranges\[0\] = first_peer;", r"^\s*return nwin;", "compute_invert_first", ["ranges_lo_0", "nwin"], ["first_peer", "nwin"],
              occurrence=0)

        # ---- sc_ranges_decode
        D = "sc_ranges_decode"
        F = fn(D)
        rows = sl.find_nodes(F, lambda n: n.get("kind") == "BinaryOperator" and n.get("opcode") == "=" and
                             sl.strip(n["inner"][0]).get("referencedDecl", {}).get("name") == "the_ranges")
        if len(rows) != 2:
            raise c2g.Unsupported("sc_ranges_decode: %d assignments of the_ranges" % len(rows))
        for r_, gname, want in ((rows[0], "decode_row_recv", ["max_ranges", "rank"]), (rows[1], "decode_row_send", ["max_ranges", "j"])):
            rhs = sl.strip(r_["inner"][1])
            if rhs.get("kind") != "BinaryOperator" or rhs.get("opcode") != "+" or \
                    sl.strip(rhs["inner"][0]).get("referencedDecl", {}).get("name") != "global_ranges":
                raise c2g.Unsupported("sc_ranges_decode: the_ranges is not global_ranges + offset")
            t, i = sl.emit_expr(rhs["inner"][1], gname, D, want_params=want, **KW)
            g.add(t, i)
        stops = ifs_with(D, ("the_ranges", "i"), "BreakStmt", exact=True)
        stops = [n for n in stops if len(n["inner"][1].get("inner", [n["inner"][1]])) == 1]
        if len(stops) != 2:
            raise c2g.Unsupported("sc_ranges_decode: %d end-of-row tests" % len(stops))
        cond(stops[0]["inner"][0], "decode_recv_stop", D, ["the_ranges_lo_i"])
        inner = one(sl.find_nodes(F, lambda n: n.get("kind") == "ForStmt" and
                                  sl.find_nodes(n, lambda m: m.get("kind") == "DeclRefExpr" and m["referencedDecl"]["name"] == "receiver_ranks")
                                  and not sl.find_nodes(n["inner"][-1], lambda m: m.get("kind") == "ForStmt")), "decode: receiver loop")
        init_, cnd = inner["inner"][0], inner["inner"][2]
        if init_.get("kind") != "BinaryOperator" or init_.get("opcode") != "=" or sl.strip(init_["inner"][0]).get("referencedDecl", {}).get("name") != "j":
            raise c2g.Unsupported("sc_ranges_decode: receiver loop does not start with j = ...")
        t, i = sl.emit_expr(init_["inner"][1], "decode_recv_first", D, want_params=["the_ranges_lo_i"], **KW)
        g.add(t, i)
        cond(cnd, "decode_recv_cond", D, ["j", "the_ranges_hi_i"])
        body = inner["inner"][-1]
        t, i = sl.emit_block(list(body.get("inner", [])), "decode_recv_body", ["receiver_ranks_hit", "receiver_ranks_val", "nr", "stop"], D,
                             params=("j", "rank", "nr"), want_params=["j", "rank", "nr"], jumps_end=True, **KW)
        g.add(t, i)
        selfs = ifs_with(D, ("j", "rank"), "ContinueStmt", exact=True)
        if len(selfs) != 2:
            raise c2g.Unsupported("sc_ranges_decode: %d self-exclusion tests" % len(selfs))
        cond(selfs[1]["inner"][0], "decode_send_self", D, ["j", "rank"])
        srow = one(sl.find_nodes(F, lambda n: n.get("kind") == "ForStmt" and
                                 sl.find_nodes(n, lambda m: m.get("kind") == "DeclRefExpr" and m["referencedDecl"]["name"] == "sender_ranks")
                                 and not sl.find_nodes(n["inner"][-1], lambda m: m.get("kind") == "ForStmt")), "decode: sender row loop")
        t, i = sl.emit_block(list(srow["inner"][-1].get("inner", [])), "decode_send_body", ["sender_ranks_hit", "sender_ranks_val", "ns", "stop"], D,
                             params=("the_ranges_lo_i", "the_ranges_hi_i", "rank", "j", "ns"),
                             want_params=["the_ranges_lo_i", "the_ranges_hi_i", "rank", "j", "ns"], jumps_end=True, **KW)
        g.add(t, i)


        # ---- the eviction scan as a loop, the final sort and its comparator
        st = c2g.select_between(fn(C), src, r"nwin = lastw;", r"SC_ASSERT \(shortest_range >= 0 && shortest_range <= lastw\);")
        t, i = remit(st, "compute_evict_scan", ["nwin", "shortest_range", "shortest_length"], C, array_reads=("ranges",),
                     params=("lastw", "num_procs", "num_ranges", "length"), want_params=["lastw", "num_procs", "num_ranges", "length"], drop_calls=("sc_log", "sc_logf"))
        g.add(t, i)
        st = c2g.select_between(fn(C), src, r"SC_ASSERT \(nwin >= 0 && nwin < num_ranges\);", r"/\* compute real ranges from empty ranges \*/")
        qs = one(sl.find_nodes(fn(C), lambda n: n.get("kind") == "CallExpr" and sl.callee_name(n) == "qsort"), "compute: qsort call")
        if sl.strip(qs["inner"][4]).get("referencedDecl", {}).get("name") != "sc_ranges_compare":
            raise c2g.Unsupported("sc_ranges_compute: qsort is not called with sc_ranges_compare")
        t, i = remit(st, "compute_sort", ["*ghosts"], C, effects=("qsort",), effect_called=True, effect_skip_args={"qsort": (3,)},
                     params=("ranges", "nwin"), want_params=["ranges", "nwin"], drop_calls=("sc_log", "sc_logf"))
        g.add(t, i)
        bodyK = [c for c in fn("sc_ranges_compare")["inner"] if c.get("kind") == "CompoundStmt"][0]
        t, i = remit(list(bodyK.get("inner", [])), "ranges_compare", ["ret"], "sc_ranges_compare", ret="ret",
                     params=("v1_deref", "v2_deref"), want_params=["v1_deref", "v2_deref"])
        g.add(t, i)

        st = c2g.select_between(fn(C), src, r"for \(i = 0; i < num_ranges; \+\+i\) \{\s*\n\s*if \(ranges\[2 \* i\] == -1\)", r"SC_ASSERT \(i < num_ranges\);")
        t, i = remit(st, "compute_claim_scan", ["i", "ranges_store"], C, array_reads=("ranges",), store_arrays=("ranges",),
                     params=("num_ranges", "prev", "j", "ranges_store"), want_params=["num_ranges", "prev", "j", "ranges_store"], drop_calls=("sc_log", "sc_logf"))
        g.add(t, i)
        # ---- sc_ranges_adaptive: the whole body
        A = "sc_ranges_adaptive"
        FA = fn(A)
        bodyA = [c for c in FA["inner"] if c.get("kind") == "CompoundStmt"][0]
        stA = [x for x in bodyA.get("inner", []) if x.get("kind") != "DeclStmt"]
        AEFF = ("sc_MPI_Comm_size", "sc_MPI_Comm_rank", "sc_ranges_compute", "sc_MPI_Allreduce", "sc_MPI_Allgather", "sc_malloc")
        AP = ["mpicomm", "sc_MPI_Comm_size_ret", "sc_MPI_Comm_rank_ret", "inout1_deref", "inout2_deref", "num_procs", "rank", "local_1",
              "global_ranges_deref", "package_id", "num_ranges", "ranges", "sc_ranges_compute_ret", "SC3_MPI_INT", "SC3_MPI_MAX",
              "sc_MPI_Allreduce_ret", "global_0", "global_1", "global_ranges", "sc_package_id", "sc_malloc_ret", "sc_MPI_Allgather_ret"]
        # num_procs / rank: what sc_MPI_Comm_size / _rank stored; global_0 / global_1: what sc_MPI_Allreduce stored into global[];
        # local_1, global_ranges_deref: values before the call (only on paths that do not assign them)
        t, i = remit(stA, "adaptive_body", ["*ghosts", "local_0", "local_1", "inout1_deref", "inout2_deref", "global_ranges_deref", "ret"], A,
                     ret="ret", loops_return_int=True, array_reads=("procs",), effects=AEFF, effect_called=True, enum_params=True,
                     effect_skip_args={"sc_ranges_compute": (2,), "sc_MPI_Allreduce": (0, 1)},
                     params=tuple(AP), want_params=AP, drop_calls=("sc_log", "sc_logf"))
        g.add(t, i)

        # ---- sc_ranges_statistics: the whole body
        S = "sc_ranges_statistics"
        bodyS = [c for c in fn(S)["inner"] if c.get("kind") == "CompoundStmt"][0]
        stS = [x for x in bodyS.get("inner", []) if x.get("kind") != "DeclStmt"]
        SP = ["j", "num_ranges", "rank", "mpicomm"]       # j: its value before the loops (never read)
        t, i = remit(stS, "statistics_body", ["*ghosts"], S, array_reads=("ranges", "procs"), effects=("sc_stats_set1", "sc_stats_compute"),
                     effect_called=True, params=tuple(SP), want_params=SP, drop_calls=("sc_log", "sc_logf"))
        g.add(t, i)
        return g, [f]

    GROUPS["RangesC15"] = gen_ranges
