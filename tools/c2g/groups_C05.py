"""Translator group of C05 (tie T1): `PsortC05` (coq/Gen/PsortC05.v), regenerated from /repo/src/sc_sort.c on every run.

  sc_bsearch_cumulative     the WHOLE function (fuelled loop; `cumulative : Z -> Z`), incl. the size_t `guess - 1`
  sc_merge_bitonic          merge_guard (n > 1 && my_hi > lo && my_lo < hi), merge_n2 (`for (k = 1; k < n;) k = k << 1; n2 = k >> 1`),
                            merge_ends (lo_end, hi_beg), merge_seg_cond / merge_seg1 / merge_seg2 / merge_seg_next (the segment loop:
                            owners, lengths, max_length = SC_MIN (.., SC_MIN (lo_length, hi_length)), offset += max_length; loops 1 and 2),
                            merge_lo_side / merge_hi_side / merge_local (which side of an exchange this rank is), merge_lo_start /
                            merge_hi_start (byte offset of the segment in the local array), the tags of the four Irecv / Isend calls,
                            merge_swap_* (`dir == (compar (..) > 0)`, all five copies), merge_remote_lower (rank < peer->prank),
                            merge_recurse (arguments of the two recursive calls)
  sc_psort_bitonic          psort_guard, psort_inside (lo >= my_lo && hi <= my_hi), psort_recurse (n / 2, !dir, the three calls)
  the local sort            in ALL THREE preprocessor configurations (GNU qsort_r, BSD qsort_r, plain qsort): the comparison wrappers
                            sc_compare_r / sc_icompare_r / sc_icompare (whole functions; the user's function is compar : Z -> Z -> Z),
                            psort_local_cmp_<v> (the `dir ? f : g` argument of the qsort call), psort_local_start / _n / _size_<v>;
                            structural: pst.compar / sc_compare are assigned the parameter compar in sc_psort and nowhere else
coq/C05/PsortGen.v proves that the hand-written model (PsortModel.v, over nat) computes exactly these."""
import os, re


def register(GROUPS, c2g, incs, REPO, HERE, STRUCTS, Group):
    import slicelib as sl

    def gen_psort(tmp):
        g = Group("PsortC05")
        f = os.path.join(REPO, "src", "sc_sort.c")
        src = open(f).read()
        cache = {}
        KW = dict(array_reads=("gmemb",), symbolic_calls=("compar",), enum_params=True)

        def fn(name):
            if name not in cache:
                cache[name] = c2g.find_function(c2g.clang_ast(f, name, incs(tmp)), name)
            return cache[name]

        def block(cfn, begin, end, gname, outputs, want, occurrence=0, params=None, **kw):
            st = c2g.select_between(fn(cfn), src, begin, end, occurrence=occurrence)
            k2 = dict(KW)
            k2.update(kw)
            t, i = sl.emit_block(st, gname, outputs, cfn, want_params=want, params=tuple(params if params is not None else want), **k2)
            g.add(t, i)

        def one(lst, what):
            if len(lst) != 1:
                raise c2g.Unsupported("%s: %d candidates" % (what, len(lst)))
            return lst[0]

        # ---- sc_bsearch_cumulative: the whole function
        t, i = c2g.translate_function(fn("sc_bsearch_cumulative"), arrays=("cumulative",))
        g.add(t, i)

        M = "sc_merge_bitonic"
        F = fn(M)
        body = [c for c in F["inner"] if c.get("kind") == "CompoundStmt"][0]
        outer = one([s_ for s_ in body.get("inner", []) if s_.get("kind") == "IfStmt"], "merge: guard")
        t, i = sl.emit_cond(outer["inner"][0], "merge_guard", M, params=("n", "lo", "hi", "pst_my_lo", "pst_my_hi"),
                            want_params=["n", "lo", "hi", "pst_my_lo", "pst_my_hi"])
        g.add(t, i)
        block(M, r"for \(k = 1; k < n;\) \{", r"SC_ASSERT \(n2 >= n / 2 && n2 < n\);", "merge_n2", ["n2"], ["n"])
        block(M, r"lo_end = lo \+ n - n2;", r"SC_ASSERT \(lo_end <= hi_beg", "merge_ends", ["lo_end", "hi_beg"], ["lo", "n", "n2"])
        # ---- the segment loop (loops 1 and 2 have the same header and the same first six statements)
        loops = [n for n in sl.find_nodes(F, lambda n: n.get("kind") == "ForStmt" and "offset" in sl.refs(n["inner"][2] if n["inner"][2].get("kind") else {}))
                 if "max_length" in sl.refs(n["inner"][3])]
        if len(loops) != 2:
            raise c2g.Unsupported("sc_merge_bitonic: %d segment loops" % len(loops))
        for li, L in enumerate(loops):
            t, i = sl.emit_cond(L["inner"][2], "merge_seg_cond%d" % (li + 1), M, params=("offset", "lo_end", "lo"), want_params=["offset", "lo_end", "lo"])
            g.add(t, i)
            t, i = sl.emit_block([L["inner"][3]], "merge_seg_next%d" % (li + 1), ["offset"], M, params=("offset", "max_length"), want_params=["offset", "max_length"])
            g.add(t, i)
            block(M, r"lo_owner =\s*$", r"SC_ASSERT \(max_length > 0\);", "merge_seg%d" % (li + 1),
                  ["lo_owner", "lo_length", "hi_owner", "hi_length", "max_length", "*ghosts"],
                  ["lo", "hi_beg", "lo_end", "offset", "lo_owner", "hi_owner", "pst_num_procs", "sc_bsearch_cumulative_ret", "sc_bsearch_cumulative2_ret"],
                  occurrence=li, effects=("sc_bsearch_cumulative",), effect_skip_args={"sc_bsearch_cumulative": (0,)})
        # ---- which side of an exchange
        sides = [n for n in sl.find_nodes(F, lambda n: n.get("kind") == "IfStmt" and sl.refs(n["inner"][0]) == {"lo_owner", "hi_owner", "rank"})]
        if len(sides) != 3:
            raise c2g.Unsupported("sc_merge_bitonic: %d owner tests" % len(sides))
        for nd, gname in zip(sides, ("merge_lo_side", "merge_hi_side", "merge_local")):
            t, i = sl.emit_cond(nd["inner"][0], gname, M, params=("lo_owner", "hi_owner", "rank"), want_params=["lo_owner", "hi_owner", "rank"])
            g.add(t, i)
        # byte offsets of the segments in the local array: the addend of `pst->my_base + ...` (first copies: loop 1)
        for var, gname, want in (("lo_data", "merge_lo_start", ["lo", "offset", "pst_my_lo", "size"]),
                                 ("hi_data", "merge_hi_start", ["hi_beg", "offset", "pst_my_lo", "size"])):
            asg = [n for n in sl.find_nodes(F, lambda n: n.get("kind") == "BinaryOperator" and n.get("opcode") == "=" and
                                            sl.strip(n["inner"][0]).get("referencedDecl", {}).get("name") == var and "my_base" in
                                            [m.get("name") for m in sl.find_nodes(n["inner"][1], lambda m: m.get("kind") == "MemberExpr")])]
            if len(asg) != 2:
                raise c2g.Unsupported("sc_merge_bitonic: %d assignments %s = pst->my_base + .." % (len(asg), var))
            for ai, a in enumerate(asg):
                rhs = sl.strip(a["inner"][1])
                if rhs.get("kind") != "BinaryOperator" or rhs.get("opcode") != "+":
                    raise c2g.Unsupported("sc_merge_bitonic: %s is not base + offset" % var)
                t, i = sl.emit_expr(rhs["inner"][1], gname + ("" if ai == 0 else "_local"), M, params=tuple(want), want_params=want)
                g.add(t, i)
        # message length in bytes
        bts = sl.find_nodes(F, lambda n: n.get("kind") == "VarDecl" and n.get("name") == "bytes")
        if len(bts) != 2:
            raise c2g.Unsupported("sc_merge_bitonic: %d declarations of bytes" % len(bts))
        for bi, b in enumerate(bts):
            init = [c for c in b.get("inner", []) if isinstance(c, dict)][0]
            t, i = sl.emit_expr(init, "merge_bytes_%s" % ("lo", "hi")[bi], M, params=("max_length", "size"), want_params=["max_length", "size"])
            g.add(t, i)
        # ---- tags: (Irecv, Isend) of the low side, then of the high side
        calls = sl.find_nodes(F, lambda n: n.get("kind") == "CallExpr" and sl.callee_name(n) in ("sc_MPI_Irecv", "sc_MPI_Isend", "MPI_Irecv", "MPI_Isend"))
        names = [sl.callee_name(c).replace("sc_", "") for c in calls]
        if names != ["MPI_Irecv", "MPI_Isend", "MPI_Irecv", "MPI_Isend"]:
            raise c2g.Unsupported("sc_merge_bitonic: posting order %s" % names)
        for c, gname in zip(calls, ("merge_lo_recv_tag", "merge_lo_send_tag", "merge_hi_recv_tag", "merge_hi_send_tag")):
            t, i = sl.emit_expr(c["inner"][5], gname, M, params=("SC_TAG_PSORT_LO", "SC_TAG_PSORT_HI"), want_params=["SC_TAG_PSORT_LO", "SC_TAG_PSORT_HI"], enum_params=True)
            g.add(t, i)
        # ---- the swap test, all copies
        swaps = sl.find_nodes(F, lambda n: n.get("kind") == "IfStmt" and "dir" in sl.refs(n["inner"][0]) and
                              sl.find_nodes(n["inner"][0], lambda m: m.get("kind") == "MemberExpr" and m.get("name") == "compar"))
        if len(swaps) != 5:
            raise c2g.Unsupported("sc_merge_bitonic: %d swap tests" % len(swaps))
        for si, sw in enumerate(swaps):
            t, i = sl.emit_cond(sw["inner"][0], "merge_swap_%d" % si, M, params=("dir", "compar_ret"), want_params=["dir", "compar_ret"], **KW)
            g.add(t, i)
            # what is copied where when the test holds: (dest, source) of the memcpy calls, symbolic addresses
            t, i = sl.emit_block([sw], "merge_move_%d" % si, ["*ghosts"], M, params=("dir", "compar_ret", "lo_data", "hi_data", "size") + (("temp",) if si == 0 else ()),
                                 want_params=["dir", "compar_ret", "lo_data", "hi_data", "size"] + (["temp"] if si == 0 else []),
                                 effects=("memcpy",), symbolic_calls=("compar",))
            g.add(t, i)
        lows = sl.find_nodes(F, lambda n: n.get("kind") == "IfStmt" and "rank" in sl.refs(n["inner"][0]) and
                             [m for m in sl.find_nodes(n["inner"][0], lambda m: m.get("kind") == "MemberExpr" and m.get("name") == "prank")])
        if len(lows) != 2:
            raise c2g.Unsupported("sc_merge_bitonic: %d tests rank < peer->prank" % len(lows))
        for li, lw in enumerate(lows):
            t, i = sl.emit_cond(lw["inner"][0], "merge_remote_lower%d" % (li + 1), M, params=("rank", "peer_prank"), want_params=["rank", "peer_prank"])
            g.add(t, i)
        # ---- recursion
        block(M, r"sc_merge_bitonic \(pst, lo, lo \+ n2, dir\);", r"^  \}", "merge_recurse", ["*ghosts"], ["lo", "hi", "n2", "dir"],
              effects=("sc_merge_bitonic",), effect_skip_args={"sc_merge_bitonic": (0,)})

        P = "sc_psort_bitonic"
        F = fn(P)
        body = [c for c in F["inner"] if c.get("kind") == "CompoundStmt"][0]
        outer = one([s_ for s_ in body.get("inner", []) if s_.get("kind") == "IfStmt"], "psort: guard")
        t, i = sl.emit_cond(outer["inner"][0], "psort_guard", P, params=("n", "lo", "hi", "pst_my_lo", "pst_my_hi"),
                            want_params=["n", "lo", "hi", "pst_my_lo", "pst_my_hi"])
        g.add(t, i)
        inner = one([s_ for s_ in outer["inner"][1].get("inner", []) if s_.get("kind") == "IfStmt"], "psort: inside test")
        t, i = sl.emit_cond(inner["inner"][0], "psort_inside", P, params=("lo", "hi", "pst_my_lo", "pst_my_hi"), want_params=["lo", "hi", "pst_my_lo", "pst_my_hi"])
        g.add(t, i)
        if len(inner["inner"]) != 3:
            raise c2g.Unsupported("sc_psort_bitonic: no else branch")
        t, i = sl.emit_block([inner["inner"][2]], "psort_recurse", ["*ghosts"], P, params=("n", "lo", "hi", "dir"), want_params=["n", "lo", "hi", "dir"],
                             effects=("sc_psort_bitonic", "sc_merge_bitonic"), effect_skip_args={"sc_psort_bitonic": (0,), "sc_merge_bitonic": (0,)})
        g.add(t, i)

        # ---- the local sort: the comparison wrappers handed to qsort / qsort_r and the place where one is chosen by `dir`.
        # sc_sort.c has three variants selected by sc_config.h (GNU qsort_r, BSD qsort_r, plain qsort with the static pointer
        # sc_compare); ALL THREE are translated on every run (three preprocessor configurations of the same working tree).
        # The user's comparison function is the Gallina function `compar : Z -> Z -> Z` of the two element addresses; its result
        # is an arbitrary integer (no -1/0/1 normalisation anywhere).
        E = c2g.E

        class CmpT(sl.SliceT):
            def expr(self, n, env):
                if n.get("kind") == "CallExpr" and len(n["inner"]) == 3:
                    c = sl.strip(n["inner"][0])
                    nm = None
                    if c.get("kind") == "MemberExpr":
                        nm = c.get("name")
                    elif c.get("kind") == "DeclRefExpr" and c.get("referencedDecl", {}).get("kind") == "VarDecl":
                        nm = c["referencedDecl"]["name"]
                    if nm in ("compar", "sc_compare"):
                        a, b = [self.expr(x, env) for x in n["inner"][1:]]
                        if ("compar", "Z -> Z -> Z") not in self.extra:
                            self.extra.append(("compar", "Z -> Z -> Z"))
                        return E("compar %s %s" % (a.z(), b.z()))
                return super().expr(n, env)

        def with_cmpt(fun, *a, **kw):
            orig = sl.SliceT
            sl.SliceT = CmpT
            try:
                return fun(*a, **kw)
            finally:
                sl.SliceT = orig

        base_cfg = open(os.path.join(tmp, "inc", "sc_config.h")).read()
        if not re.search(r"^#define SC_HAVE_QSORT_R\b", base_cfg, re.M) or re.search(r"^#define SC_HAVE_BSD_QSORT_R\b", base_cfg, re.M):
            raise c2g.Unsupported("configuration template is not the GNU qsort_r variant")
        cfgs = {"gnu": base_cfg,
                "bsd": base_cfg.replace("/* #undef SC_HAVE_BSD_QSORT_R */", "#define SC_HAVE_BSD_QSORT_R 1"),
                "plain": re.sub(r"^#define SC_HAVE_QSORT_R\b.*$", "/* #undef SC_HAVE_QSORT_R */", base_cfg, flags=re.M)}
        if cfgs["bsd"] == base_cfg or cfgs["plain"] == base_cfg:
            raise c2g.Unsupported("cannot derive the BSD / plain-qsort configurations")
        # role of the arguments of the comparison function as qsort / qsort_r calls it, and of the call's own arguments
        CONV = {"gnu": ("qsort_r", ("e1", "e2", "thunk"), 3, 4), "bsd": ("qsort_r", ("thunk", "e1", "e2"), 4, 3), "plain": ("qsort", ("e1", "e2"), 3, None)}
        for v in ("gnu", "bsd", "plain"):
            d = os.path.join(tmp, "inc_" + v)
            os.makedirs(d, exist_ok=True)
            open(os.path.join(d, "sc_config.h"), "w").write(cfgs[v])
            objs = c2g.clang_ast(f, "sc_", [d] + incs(tmp)[1:])
            qname, roles, cpos, tpos = CONV[v]
            FB = c2g.find_function(objs, "sc_psort_bitonic")
            qs = sl.find_nodes(FB, lambda n: n.get("kind") == "CallExpr" and sl.callee_name(n) in ("qsort", "qsort_r"))
            if len(qs) != 1 or sl.callee_name(qs[0]) != qname or len(qs[0]["inner"]) != 1 + len(roles) + 2:
                raise c2g.Unsupported("sc_psort_bitonic (%s): local sort call is not one %s with %d arguments" % (v, qname, len(roles) + 2))
            args = qs[0]["inner"][1:]
            if tpos is not None and sl.strip(args[tpos]).get("referencedDecl", {}).get("name") != "pst":
                raise c2g.Unsupported("sc_psort_bitonic (%s): the qsort_r argument is not pst" % v)
            ch = sl.strip(args[cpos])
            if ch.get("kind") != "ConditionalOperator":
                raise c2g.Unsupported("sc_psort_bitonic (%s): comparison function is not chosen by `dir ? f : g`" % v)
            branches = []
            for bnode in ch["inner"][1:]:
                r = sl.strip(bnode)
                rd = r.get("referencedDecl", {}) if r.get("kind") == "DeclRefExpr" else {}
                if rd.get("kind") == "VarDecl" and rd.get("name") == "sc_compare" and v == "plain":
                    branches.append("compar e1 e2")       # the static pointer: the user's function itself (assignment checked below)
                elif rd.get("kind") == "FunctionDecl":
                    W = c2g.find_function(objs, rd["name"])
                    wb = [c for c in W["inner"] if c.get("kind") == "CompoundStmt"][0]
                    ps = [p_["name"] for p_ in W["inner"] if p_.get("kind") == "ParmVarDecl"]
                    if len(ps) != len(roles):
                        raise c2g.Unsupported("%s (%s): %d parameters" % (rd["name"], v, len(ps)))
                    gname = "%s_%s" % (rd["name"], v)
                    if gname not in [i_["name"] for i_ in g.infos]:
                        t, i = with_cmpt(sl.emit_block, wb["inner"], gname, ["ret"], rd["name"], params=tuple(ps), ret="ret", want_params=ps)
                        if i["params"][:1] != ["compar"]:
                            raise c2g.Unsupported("%s (%s) does not call the user's comparison function" % (rd["name"], v))
                        g.add(t, i)
                    branches.append("%s compar %s" % (gname, " ".join(roles)))
                else:
                    raise c2g.Unsupported("sc_psort_bitonic (%s): branch of the comparator choice is %s" % (v, r.get("kind")))
            T = sl.SliceT()
            T.fname, T.gname, T.free_as_params, T.fun_params, T.params = P, "psort_local_cmp_" + v, True, [], ["dir"]
            ce = T.expr(ch["inner"][0], {"dir": "dir"})
            if T.params != ["dir"] or T.fun_params:
                raise c2g.Unsupported("sc_psort_bitonic (%s): comparator choice depends on %s" % (v, T.params))
            g.add("(* the comparison function qsort%s calls in sc_psort_bitonic, as a function of dir; e1 e2: the two elements qsort compares *)\n"
                  "Definition psort_local_cmp_%s (compar : Z -> Z -> Z) (dir : Z) (e1 e2 thunk : Z) : Z :=\nif %s then %s else %s.\n"
                  % ("_r" if tpos is not None else "", v, ce.b(), branches[0], branches[1]),
                  dict(name="psort_local_cmp_" + v, cname=P, params=["compar", "dir", "e1", "e2", "thunk"], fuel=False))
            # base, number and size of the elements handed to the local sort
            b0 = sl.strip(args[0])
            if b0.get("kind") != "BinaryOperator" or b0.get("opcode") != "+" or "my_base" not in \
                    [m.get("name") for m in sl.find_nodes(b0["inner"][0], lambda m: m.get("kind") == "MemberExpr")]:
                raise c2g.Unsupported("sc_psort_bitonic (%s): base of the local sort is not pst->my_base + .." % v)
            t, i = sl.emit_expr(b0["inner"][1], "psort_local_start_" + v, P, params=("lo", "pst_my_lo", "pst_size"), want_params=["lo", "pst_my_lo", "pst_size"])
            g.add(t, i)
            t, i = sl.emit_expr(args[1], "psort_local_n_" + v, P, params=("n",), want_params=["n"])
            g.add(t, i)
            t, i = sl.emit_expr(args[2], "psort_local_size_" + v, P, params=("pst_size",), want_params=["pst_size"])
            g.add(t, i)
            # sc_psort: pst.compar (and the static pointer of the plain variant) IS the caller's function
            FS = c2g.find_function(objs, "sc_psort")

            def asg(pred):
                return [sl.strip(n["inner"][1]) for n in sl.find_nodes(FS, lambda n: n.get("kind") == "BinaryOperator" and n.get("opcode") == "=" and pred(sl.strip(n["inner"][0])))]
            a1 = asg(lambda l: l.get("kind") == "MemberExpr" and l.get("name") == "compar")
            if len(a1) != 1 or a1[0].get("referencedDecl", {}).get("kind") != "ParmVarDecl" or a1[0]["referencedDecl"].get("name") != "compar":
                raise c2g.Unsupported("sc_psort (%s): pst.compar is not assigned the parameter compar exactly once" % v)
            a2 = asg(lambda l: l.get("kind") == "DeclRefExpr" and l["referencedDecl"].get("name") == "sc_compare")
            if v == "plain":
                if len(a2) != 2 or a2[0].get("referencedDecl", {}).get("kind") != "ParmVarDecl" or a2[0]["referencedDecl"].get("name") != "compar" \
                        or a2[1].get("kind") == "DeclRefExpr":
                    raise c2g.Unsupported("sc_psort (plain): sc_compare is not `= compar` before and `= NULL` after the sort")
            # nobody else writes the comparison function
            for fo in objs:
                if fo.get("kind") == "FunctionDecl" and fo.get("name") != "sc_psort" and any(c.get("kind") == "CompoundStmt" for c in fo.get("inner", [])):
                    w = sl.find_nodes(fo, lambda n: n.get("kind") == "BinaryOperator" and n.get("opcode", "").endswith("=") and n.get("opcode") not in ("==", "!=", "<=", ">=") and
                                      ((sl.strip(n["inner"][0]).get("kind") == "MemberExpr" and sl.strip(n["inner"][0]).get("name") == "compar") or
                                       sl.strip(n["inner"][0]).get("referencedDecl", {}).get("name") == "sc_compare"))
                    if w:
                        raise c2g.Unsupported("%s (%s) assigns the comparison function" % (fo.get("name"), v))
        return g, [f]

    GROUPS["PsortC05"] = gen_psort
