"""Translator group of C05 (tie T1): `PsortC05` (coq/Gen/PsortC05.v), regenerated from /repo/src/sc_sort.c on every run.

  sc_bsearch_cumulative     the WHOLE function (fuelled loop; `cumulative : Z -> Z`), incl. the size_t `guess - 1`
  sc_merge_bitonic          merge_guard (n > 1 && my_hi > lo && my_lo < hi), merge_n2 (`for (k = 1; k < n;) k = k << 1; n2 = k >> 1`),
                            merge_ends (lo_end, hi_beg), merge_seg_cond / merge_seg1 / merge_seg2 / merge_seg_next (the segment loop:
                            owners, lengths, max_length = SC_MIN (.., SC_MIN (lo_length, hi_length)), offset += max_length; loops 1 and 2),
                            merge_lo_side / merge_hi_side / merge_local (which side of an exchange this rank is), merge_lo_start /
                            merge_hi_start (byte offset of the segment in the local array), the tags of the four Irecv / Isend calls,
                            merge_swap_* (`dir == (compar (..) > 0)`, all five copies), merge_remote_lower (rank < peer->prank),
                            merge_recurse (arguments of the two recursive calls)
  sc_psort_bitonic          psort_guard, psort_inside (lo >= my_lo && hi <= my_hi), psort_recurse (n / 2, !dir, the three calls)
coq/C05/PsortGen.v proves that the hand-written model (PsortModel.v, over nat) computes exactly these."""
import os, re


def register(GROUPS, c2g, incs, REPO, HERE, STRUCTS, Group):
    import slicelib as sl

    def gen_psort(tmp):
        g = Group("PsortC05")
        f = os.path.join(REPO, "src", "sc_sort.c")
        src = open(f).read()
        cache = {}
        KW = dict(array_reads=("gmemb",), symbolic_calls=("compar",), enum_params=True)

        def fn(name):
            if name not in cache:
                cache[name] = c2g.find_function(c2g.clang_ast(f, name, incs(tmp)), name)
            return cache[name]

        def block(cfn, begin, end, gname, outputs, want, occurrence=0, params=None, **kw):
            st = c2g.select_between(fn(cfn), src, begin, end, occurrence=occurrence)
            k2 = dict(KW)
            k2.update(kw)
            t, i = sl.emit_block(st, gname, outputs, cfn, want_params=want, params=tuple(params if params is not None else want), **k2)
            g.add(t, i)

        def one(lst, what):
            if len(lst) != 1:
                raise c2g.Unsupported("%s: %d candidates" % (what, len(lst)))
            return lst[0]

        # ---- sc_bsearch_cumulative: the whole function
        t, i = c2g.translate_function(fn("sc_bsearch_cumulative"), arrays=("cumulative",))
        g.add(t, i)

        M = "sc_merge_bitonic"
        F = fn(M)
        body = [c for c in F["inner"] if c.get("kind") == "CompoundStmt"][0]
        outer = one([s_ for s_ in body.get("inner", []) if s_.get("kind") == "IfStmt"], "merge: guard")
        t, i = sl.emit_cond(outer["inner"][0], "merge_guard", M, params=("n", "lo", "hi", "pst_my_lo", "pst_my_hi"),
                            want_params=["n", "lo", "hi", "pst_my_lo", "pst_my_hi"])
        g.add(t, i)
        block(M, r"for \(k = 1; k < n;\) \{", r"SC_ASSERT \(n2 >= n / 2 && n2 < n\);", "merge_n2", ["n2"], ["n"])
        block(M, r"lo_end = lo \+ n - n2;", r"SC_ASSERT \(lo_end <= hi_beg", "merge_ends", ["lo_end", "hi_beg"], ["lo", "n", "n2"])
        # ---- the segment loop (loops 1 and 2 have the same header and the same first six statements)
        loops = [n for n in sl.find_nodes(F, lambda n: n.get("kind") == "ForStmt" and "offset" in sl.refs(n["inner"][2] if n["inner"][2].get("kind") else {}))
                 if "max_length" in sl.refs(n["inner"][3])]
        if len(loops) != 2:
            raise c2g.Unsupported("sc_merge_bitonic: %d segment loops" % len(loops))
        for li, L in enumerate(loops):
            t, i = sl.emit_cond(L["inner"][2], "merge_seg_cond%d" % (li + 1), M, params=("offset", "lo_end", "lo"), want_params=["offset", "lo_end", "lo"])
            g.add(t, i)
            t, i = sl.emit_block([L["inner"][3]], "merge_seg_next%d" % (li + 1), ["offset"], M, params=("offset", "max_length"), want_params=["offset", "max_length"])
            g.add(t, i)
            block(M, r"lo_owner =\s*$", r"SC_ASSERT \(max_length > 0\);", "merge_seg%d" % (li + 1),
                  ["lo_owner", "lo_length", "hi_owner", "hi_length", "max_length", "*ghosts"],
                  ["lo", "hi_beg", "lo_end", "offset", "lo_owner", "hi_owner", "pst_num_procs", "sc_bsearch_cumulative_ret", "sc_bsearch_cumulative2_ret"],
                  occurrence=li, effects=("sc_bsearch_cumulative",), effect_skip_args={"sc_bsearch_cumulative": (0,)})
        # ---- which side of an exchange
        sides = [n for n in sl.find_nodes(F, lambda n: n.get("kind") == "IfStmt" and sl.refs(n["inner"][0]) == {"lo_owner", "hi_owner", "rank"})]
        if len(sides) != 3:
            raise c2g.Unsupported("sc_merge_bitonic: %d owner tests" % len(sides))
        for nd, gname in zip(sides, ("merge_lo_side", "merge_hi_side", "merge_local")):
            t, i = sl.emit_cond(nd["inner"][0], gname, M, params=("lo_owner", "hi_owner", "rank"), want_params=["lo_owner", "hi_owner", "rank"])
            g.add(t, i)
        # byte offsets of the segments in the local array: the addend of `pst->my_base + ...` (first copies: loop 1)
        for var, gname, want in (("lo_data", "merge_lo_start", ["lo", "offset", "pst_my_lo", "size"]),
                                 ("hi_data", "merge_hi_start", ["hi_beg", "offset", "pst_my_lo", "size"])):
            asg = [n for n in sl.find_nodes(F, lambda n: n.get("kind") == "BinaryOperator" and n.get("opcode") == "=" and
                                            sl.strip(n["inner"][0]).get("referencedDecl", {}).get("name") == var and "my_base" in
                                            [m.get("name") for m in sl.find_nodes(n["inner"][1], lambda m: m.get("kind") == "MemberExpr")])]
            if len(asg) != 2:
                raise c2g.Unsupported("sc_merge_bitonic: %d assignments %s = pst->my_base + .." % (len(asg), var))
            for ai, a in enumerate(asg):
                rhs = sl.strip(a["inner"][1])
                if rhs.get("kind") != "BinaryOperator" or rhs.get("opcode") != "+":
                    raise c2g.Unsupported("sc_merge_bitonic: %s is not base + offset" % var)
                t, i = sl.emit_expr(rhs["inner"][1], gname + ("" if ai == 0 else "_local"), M, params=tuple(want), want_params=want)
                g.add(t, i)
        # message length in bytes
        bts = sl.find_nodes(F, lambda n: n.get("kind") == "VarDecl" and n.get("name") == "bytes")
        if len(bts) != 2:
            raise c2g.Unsupported("sc_merge_bitonic: %d declarations of bytes" % len(bts))
        for bi, b in enumerate(bts):
            init = [c for c in b.get("inner", []) if isinstance(c, dict)][0]
            t, i = sl.emit_expr(init, "merge_bytes_%s" % ("lo", "hi")[bi], M, params=("max_length", "size"), want_params=["max_length", "size"])
            g.add(t, i)
        # ---- tags: (Irecv, Isend) of the low side, then of the high side
        calls = sl.find_nodes(F, lambda n: n.get("kind") == "CallExpr" and sl.callee_name(n) in ("sc_MPI_Irecv", "sc_MPI_Isend", "MPI_Irecv", "MPI_Isend"))
        names = [sl.callee_name(c).replace("sc_", "") for c in calls]
        if names != ["MPI_Irecv", "MPI_Isend", "MPI_Irecv", "MPI_Isend"]:
            raise c2g.Unsupported("sc_merge_bitonic: posting order %s" % names)
        for c, gname in zip(calls, ("merge_lo_recv_tag", "merge_lo_send_tag", "merge_hi_recv_tag", "merge_hi_send_tag")):
            t, i = sl.emit_expr(c["inner"][5], gname, M, params=("SC_TAG_PSORT_LO", "SC_TAG_PSORT_HI"), want_params=["SC_TAG_PSORT_LO", "SC_TAG_PSORT_HI"], enum_params=True)
            g.add(t, i)
        # ---- the swap test, all copies
        swaps = sl.find_nodes(F, lambda n: n.get("kind") == "IfStmt" and "dir" in sl.refs(n["inner"][0]) and
                              sl.find_nodes(n["inner"][0], lambda m: m.get("kind") == "MemberExpr" and m.get("name") == "compar"))
        if len(swaps) != 5:
            raise c2g.Unsupported("sc_merge_bitonic: %d swap tests" % len(swaps))
        for si, sw in enumerate(swaps):
            t, i = sl.emit_cond(sw["inner"][0], "merge_swap_%d" % si, M, params=("dir", "compar_ret"), want_params=["dir", "compar_ret"], **KW)
            g.add(t, i)
            # what is copied where when the test holds: (dest, source) of the memcpy calls, symbolic addresses
            t, i = sl.emit_block([sw], "merge_move_%d" % si, ["*ghosts"], M, params=("dir", "compar_ret", "lo_data", "hi_data", "size") + (("temp",) if si == 0 else ()),
                                 want_params=["dir", "compar_ret", "lo_data", "hi_data", "size"] + (["temp"] if si == 0 else []),
                                 effects=("memcpy",), symbolic_calls=("compar",))
            g.add(t, i)
        lows = sl.find_nodes(F, lambda n: n.get("kind") == "IfStmt" and "rank" in sl.refs(n["inner"][0]) and
                             [m for m in sl.find_nodes(n["inner"][0], lambda m: m.get("kind") == "MemberExpr" and m.get("name") == "prank")])
        if len(lows) != 2:
            raise c2g.Unsupported("sc_merge_bitonic: %d tests rank < peer->prank" % len(lows))
        for li, lw in enumerate(lows):
            t, i = sl.emit_cond(lw["inner"][0], "merge_remote_lower%d" % (li + 1), M, params=("rank", "peer_prank"), want_params=["rank", "peer_prank"])
            g.add(t, i)
        # ---- recursion
        block(M, r"sc_merge_bitonic \(pst, lo, lo \+ n2, dir\);", r"^  \}", "merge_recurse", ["*ghosts"], ["lo", "hi", "n2", "dir"],
              effects=("sc_merge_bitonic",), effect_skip_args={"sc_merge_bitonic": (0,)})

        P = "sc_psort_bitonic"
        F = fn(P)
        body = [c for c in F["inner"] if c.get("kind") == "CompoundStmt"][0]
        outer = one([s_ for s_ in body.get("inner", []) if s_.get("kind") == "IfStmt"], "psort: guard")
        t, i = sl.emit_cond(outer["inner"][0], "psort_guard", P, params=("n", "lo", "hi", "pst_my_lo", "pst_my_hi"),
                            want_params=["n", "lo", "hi", "pst_my_lo", "pst_my_hi"])
        g.add(t, i)
        inner = one([s_ for s_ in outer["inner"][1].get("inner", []) if s_.get("kind") == "IfStmt"], "psort: inside test")
        t, i = sl.emit_cond(inner["inner"][0], "psort_inside", P, params=("lo", "hi", "pst_my_lo", "pst_my_hi"), want_params=["lo", "hi", "pst_my_lo", "pst_my_hi"])
        g.add(t, i)
        if len(inner["inner"]) != 3:
            raise c2g.Unsupported("sc_psort_bitonic: no else branch")
        t, i = sl.emit_block([inner["inner"][2]], "psort_recurse", ["*ghosts"], P, params=("n", "lo", "hi", "dir"), want_params=["n", "lo", "hi", "dir"],
                             effects=("sc_psort_bitonic", "sc_merge_bitonic"), effect_skip_args={"sc_psort_bitonic": (0,), "sc_merge_bitonic": (0,)})
        g.add(t, i)
        return g, [f]

    GROUPS["PsortC05"] = gen_psort
