"""Translator groups of C07 (tie T1), regenerated from /repo on every run:

  `PuffC07`   (coq/Gen/PuffC07.v)   src/sc_puff.c: bits, stored, decode (fast version), construct, codes, dynamic, sc_puff
  `DecodeC07` (coq/Gen/DecodeC07.v) libb64/cdecode.c: the four steps of base64_decode_block; src/sc_io.c (configuration
                                    WITHOUT zlib): header tests of sc_io_nonuncompress, the adler bytes, the remaining
                                    header arithmetic of sc_io_decode and sc_io_decode_info

Every definition is a SLICE: a condition, a straight-line block, or ONE iteration of a loop ("step": the loop test, the
body and the increment; output `stop` = 1 when the loop is left).  coq/C07/PuffGen.v and coq/C07/DecodeGen.v prove that the
hand-written instrumented models (C07/PuffModel.v, C07/DecodeModel.v, C06/B64Model.v) compute exactly these.

The sources use constructs c2g does not translate (side effects inside expressions, early returns in the middle of a
slice, longjmp, stores through pointers).  They are DESUGARED on the AST first, each by a rule that is a C identity:

  * `x++` / `x--` (postfix, x a scalar location) inside a larger expression: the expression reads x, the statement
    `x = x +- 1` follows the statement.  Refused unless this is the only occurrence of x in the statement.
    `A[i]++` (A an array): reads A[i]; the store A[i] := A[i] + 1 follows.
  * `a = b = c = K`: c = K; b = c; a = b.
  * a store `A[i] = v`, `*p = v` (A an array / p a pointer into an array): the ghost outputs `A_widx` := i, `A_wval` := v
    (second store of the slice into the same array: `A2_widx`, `A2_wval`).  A slice that READS an array after it stored
    into it is refused (the slice would have to know the store).
  * a read `A[i]` / `*p`: `A i` / `<name>_at p` with `A : Z -> Z` a parameter (the memory); pointers to short / char count
    in ELEMENTS.
  * `return e`: ghost outputs `returned` := 1, `retv` := e, and the slice ends (`stop` := 1).
  * `longjmp (env, K)`: ghost output `jumped` := K, and the slice ends (`stop` := 1).
  * a call of bits / decode / construct / stored / fixed / dynamic / setjmp inside an expression: its value is the parameter
    `<callee>_ret` (`<callee>2_ret` for the second call of the slice); its integer arguments are the ghost outputs
    `<callee>_arg<i>`.  The callees change s->bitbuf, s->bitcnt, s->incnt (and s->out[], s->outcnt for stored/fixed/dynamic):
    a slice that contains such a call and reads one of these fields AFTER the call is refused.
  * `while (c) B` / `for (;c;i) B` as a step: `if (!c) break; B; i`.  `while (x--) B`: `go = x; x = x - 1; if (!go) break; B`.
    A loop nested in a step slice is cut out (ghost output `<name>_entered` := 1) and sliced on its own.
  * the struct member `in` is renamed `inb` (`in` is a Gallina keyword).
Whatever is outside raises c2g.Unsupported: the group FAILS and the check reports the tie as broken.
"""
import os, re, copy, json


# ------------------------------------------------------------------------------------------------------------
# AST helpers
# ------------------------------------------------------------------------------------------------------------
def _ty(q):
    return {"qualType": q}


def mk_ref(name, q="int"):
    return {"kind": "DeclRefExpr", "referencedDecl": {"name": name, "kind": "VarDecl"}, "type": _ty(q), "synthetic": True}


def mk_rv(node):
    return {"kind": "ImplicitCastExpr", "castKind": "LValueToRValue", "type": node["type"], "inner": [node]}


def mk_lit(v, q="int"):
    return {"kind": "IntegerLiteral", "value": str(v), "type": _ty(q)}


def mk_assign(lhs, rhs):
    return {"kind": "BinaryOperator", "opcode": "=", "type": lhs["type"], "inner": [lhs, rhs]}


def mk_break():
    return {"kind": "BreakStmt"}


def mk_block(sts):
    return {"kind": "CompoundStmt", "inner": list(sts)}


def mk_if(cond, then, els=None):
    return {"kind": "IfStmt", "inner": [cond, then] + ([els] if els is not None else [])}


def mk_not(e):
    return {"kind": "UnaryOperator", "opcode": "!", "type": _ty("int"), "inner": [e]}


def register(GROUPS, c2g, incs, REPO, HERE, STRUCTS, Group):
    import vlib
    import slicelib as sl

    CALLEES = ("bits", "decode", "construct", "stored", "fixed", "dynamic", "codes", "_setjmp", "setjmp", "__sigsetjmp",
               "base64_decode_value", "sc_puff", "sc_io_adler32_update", "sc_io_adler32_init", "memcpy", "memset", "base64_decode_block",
               "base64_init_decodestate")
    STATE_CLOBBER = {"bits": ("s_bitbuf", "s_bitcnt", "s_incnt"), "decode": ("s_bitbuf", "s_bitcnt", "s_incnt"),
                     "stored": ("s_bitbuf", "s_bitcnt", "s_incnt", "s_outcnt"), "fixed": ("s_bitbuf", "s_bitcnt", "s_incnt", "s_outcnt"),
                     "dynamic": ("s_bitbuf", "s_bitcnt", "s_incnt", "s_outcnt"), "codes": ("s_bitbuf", "s_bitcnt", "s_incnt", "s_outcnt")}

    def tyq(n):
        return n.get("type", {}).get("qualType", "int")

    class Desugar:
        """one instance per slice"""

        def __init__(self, fname, ptr_reads=None, keep_calls=()):
            self.fname = fname
            self.T = c2g.Translator()
            self.T.fname = fname
            self.ghosts = []            # ghost outputs in order of creation
            self.stores = {}            # array name -> number of stores so far
            self.calls = {}             # callee -> number of calls so far
            self.arrays_read = set()
            self.ptr_reads = dict(ptr_reads or {})   # pointer variable -> name of the memory it points into
            self.keep_calls = tuple(keep_calls)
            self.clobbered = set()

        def ghost(self, name):
            if name not in self.ghosts:
                self.ghosts.append(name)
            return name

        def bad(self, msg):
            raise c2g.Unsupported("%s: %s" % (self.fname, msg))

        # ---- classification
        def array_name(self, n):
            """n = ArraySubscriptExpr: name of the array (variable or struct member), or None for a scalar location"""
            b = sl.strip(n["inner"][0])
            if b.get("kind") == "DeclRefExpr":
                return b["referencedDecl"]["name"]
            if b.get("kind") == "MemberExpr":
                return b.get("name")
            return None

        def deref_name(self, n):
            """n = UnaryOperator '*' on a pointer variable in ptr_reads: the memory name"""
            b = sl.strip(n["inner"][0])
            if b.get("kind") == "UnaryOperator" and b.get("opcode") in ("++", "--"):
                b = sl.strip(b["inner"][0])
            if b.get("kind") == "DeclRefExpr" and b["referencedDecl"]["name"] in self.ptr_reads:
                return self.ptr_reads[b["referencedDecl"]["name"]]
            return None

        def key_of(self, n):
            try:
                return self.T.lvalue_key(n)
            except c2g.Unsupported:
                return None

        def count_key(self, root, key):
            cnt = [0]

            def f(x):
                if x.get("kind") in ("DeclRefExpr", "MemberExpr") and self.key_of(x) == key:
                    cnt[0] += 1
            sl.walk(root, f)
            return cnt[0]

        # ---- expressions: returns (expr', pre statements, post statements)
        def dx(self, n, root):
            if not isinstance(n, dict) or "kind" not in n:
                return n, [], []
            k = n.get("kind")
            if k == "UnaryOperator" and n.get("opcode") in ("++", "--"):
                tgt = c2g.skip_parens(n["inner"][0])
                delta = "+" if n["opcode"] == "++" else "-"
                if tgt.get("kind") == "ArraySubscriptExpr" and self.array_name(tgt) is not None and self.key_of(tgt) is None or \
                        (tgt.get("kind") == "ArraySubscriptExpr" and sl.strip(tgt["inner"][1]).get("kind") != "IntegerLiteral"):
                    if not n.get("isPostfix"):
                        self.bad("prefix ++ on an array element inside an expression")
                    t2, pre, post = self.dx_children(tgt, root)
                    ety = tyq(tgt)
                    newv = {"kind": "CStyleCastExpr", "castKind": "IntegralCast", "type": _ty(ety), "inner": [
                        {"kind": "BinaryOperator", "opcode": delta, "type": _ty("int"), "inner": [
                            {"kind": "ImplicitCastExpr", "castKind": "IntegralCast", "type": _ty("int"), "inner": [mk_rv(copy.deepcopy(t2))]}, mk_lit(1)]}]}
                    st = self.store_stmts(t2, newv)
                    return mk_rv(t2) if False else t2, pre, post + st
                key = self.key_of(tgt)
                if key is None:
                    self.bad("++/-- on an unsupported location")
                if self.count_key(root, key) != 1:
                    self.bad("%s is changed by ++/-- and used elsewhere in the same statement" % key)
                if not n.get("isPostfix"):
                    return tgt, [self.incr_stmt(tgt, delta)], []
                return tgt, [], [self.incr_stmt(tgt, delta)]
            if k == "BinaryOperator" and n.get("opcode") == "=":
                # assignment used as a value: a = (b = c)
                lhs = c2g.skip_parens(n["inner"][0])
                st = self.assign_stmt(n, root)
                return mk_rv(copy.deepcopy(lhs)), st, []
            if k == "BinaryOperator" and n.get("opcode") in ("&&", "||", ","):
                a, pa, qa = self.dx(n["inner"][0], root)
                b, pb, qb = self.dx(n["inner"][1], root)
                if pb or qb or qa:
                    self.bad("side effect inside %s" % n["opcode"])
                return dict(n, inner=[a, b]), pa, []
            if k == "ConditionalOperator":
                c, pc, qc = self.dx(n["inner"][0], root)
                if qc:
                    self.bad("side effect in the test of ?:")
                arms = []
                for a in n["inner"][1:]:
                    a2, p2, q2 = self.dx(a, root)
                    # calls without integer arguments leave no statements behind: their value is a parameter
                    if p2 or q2:
                        self.bad("side effect in an arm of ?:")
                    arms.append(a2)
                return dict(n, inner=[c] + arms), pc, []
            if k == "CallExpr":
                name = sl.callee_name(n)
                if name in self.keep_calls:
                    return self.dx_children(n, root)
                if name not in CALLEES:
                    self.bad("call of %s" % name)
                self.calls[name] = self.calls.get(name, 0) + 1
                pre_name = re.sub(r"^_+", "", name) + ("" if self.calls[name] == 1 else str(self.calls[name]))
                pre, argpost = [], []
                for i, a in enumerate(n["inner"][1:]):
                    aty = c2g.strip_quals(c2g.tystr(a))
                    if c2g.int_type(aty) is not None:
                        a2, pa, qa = self.dx(a, root)
                        # x++ inside the argument: the argument reads x, the increment is complete before the callee runs
                        argpost += qa
                        pre += pa + [mk_assign(mk_ref(self.ghost("%s_arg%d" % (pre_name, i)), tyq(a)), a2)]
                    elif aty.startswith("short *") or aty.startswith("const short *"):
                        a2, pa, qa = self.dx(a, root)
                        if pa or qa:
                            self.bad("side effect in an argument of %s" % name)
                        if sl.strip(a2).get("kind") == "BinaryOperator":
                            pre += [mk_assign(mk_ref(self.ghost("%s_arg%d" % (pre_name, i)), "long"), a2)]
                post = argpost
                for a in n["inner"][1:]:
                    a_ = sl.strip(a)
                    if a_.get("kind") == "UnaryOperator" and a_.get("opcode") == "&":
                        t_ = sl.strip(a_["inner"][0])
                        if t_.get("kind") == "DeclRefExpr" and c2g.int_type(c2g.strip_quals(c2g.tystr(t_))) is not None:
                            # the callee stores into x: afterwards x is whatever the callee left there (a parameter)
                            post.append(mk_assign(copy.deepcopy(t_), mk_rv(mk_ref("%s_after_%s" % (t_["referencedDecl"]["name"], pre_name), tyq(t_)))))
                for c_ in STATE_CLOBBER.get(name, ()):
                    self.clobbered.add(c_)
                return mk_ref(pre_name + "_ret", tyq(n) if c2g.int_type(c2g.strip_quals(c2g.tystr(n))) else "int"), pre, post
            if k in ("MemberExpr", "DeclRefExpr"):
                key = self.key_of(n)
                if key in self.clobbered:
                    self.bad("%s is read after a call that changes it" % key)
                return n, [], []
            if k == "ArraySubscriptExpr" and self.array_name(n) is not None and sl.strip(n["inner"][1]).get("kind") != "IntegerLiteral" or \
                    (k == "ArraySubscriptExpr" and self.array_name(n) in ARRAYS):
                nm = self.array_name(n)
                if nm in TABLES:
                    return self.dx_children(n, root)
                if nm in self.stores:
                    self.bad("array %s is read after the slice stored into it" % nm)
                self.arrays_read.add(nm)
                return self.dx_children(n, root)
            if k == "UnaryOperator" and n.get("opcode") == "*" and self.deref_name(n) is not None:
                nm = self.deref_name(n)
                if nm in self.stores:
                    self.bad("memory %s is read after the slice stored into it" % nm)
                self.arrays_read.add(nm)
                p, pre, post = self.dx(n["inner"][0], root)
                # *p  ==>  <nm>[p]
                return {"kind": "ArraySubscriptExpr", "type": n["type"], "inner": [mk_ref(nm, tyq(n) + " *"), p if p.get("kind") == "ImplicitCastExpr" else mk_rv(p)]}, pre, post
            return self.dx_children(n, root)

        def dx_children(self, n, root):
            pre, post, inner = [], [], []
            for c in n.get("inner", []):
                if isinstance(c, dict) and "kind" in c:
                    c2, p, q = self.dx(c, root)
                    inner.append(c2)
                    pre += p
                    post += q
                else:
                    inner.append(c)
            return dict(n, inner=inner), pre, post

        def incr_stmt(self, tgt, delta):
            ty = c2g.strip_quals(c2g.tystr(tgt))
            if c2g.int_type(ty) is None:
                # pointer: p = p +- 1 (elements)
                return mk_assign(copy.deepcopy(tgt), {"kind": "BinaryOperator", "opcode": delta, "type": tgt["type"],
                                                      "inner": [mk_rv(copy.deepcopy(tgt)), mk_lit(1)]})
            return {"kind": "UnaryOperator", "opcode": "++" if delta == "+" else "--", "isPostfix": True, "type": tgt["type"],
                    "inner": [copy.deepcopy(tgt)]}

        def store_stmts(self, lhs, rhs):
            """lhs = ArraySubscriptExpr A[i] (or the rewritten *p): ghost outputs A_widx, A_wval"""
            nm = self.array_name(lhs)
            self.stores[nm] = self.stores.get(nm, 0) + 1
            pre = nm if self.stores[nm] == 1 else "%s%d" % (nm, self.stores[nm])
            idx = lhs["inner"][1]
            return [mk_assign(mk_ref(self.ghost(pre + "_widx"), "long"), copy.deepcopy(idx)),
                    mk_assign(mk_ref(self.ghost(pre + "_wval"), tyq(lhs)), rhs)]

        def is_array_lhs(self, lhs):
            if lhs.get("kind") == "ArraySubscriptExpr" and self.array_name(lhs) is not None:
                return sl.strip(lhs["inner"][1]).get("kind") != "IntegerLiteral" or self.array_name(lhs) in ARRAYS
            if lhs.get("kind") == "UnaryOperator" and lhs.get("opcode") == "*" and self.deref_name(lhs) is not None:
                return True
            return False

        def assign_stmt(self, n, root):
            """n = BinaryOperator '=' at statement level (or nested): list of statements"""
            lhs = c2g.skip_parens(n["inner"][0])
            rhs, pre, post = self.dx(n["inner"][1], root)
            if self.is_array_lhs(lhs):
                if lhs.get("kind") == "UnaryOperator":
                    nm = self.deref_name(lhs)
                    p, p1, q1 = self.dx(lhs["inner"][0], root)
                    lhs2 = {"kind": "ArraySubscriptExpr", "type": lhs["type"], "inner": [mk_ref(nm, tyq(lhs) + " *"), p if p.get("kind") == "ImplicitCastExpr" else mk_rv(p)]}
                else:
                    lhs2, p1, q1 = self.dx_children(lhs, root)
                return pre + p1 + self.store_stmts(lhs2, rhs) + post + q1
            return pre + [dict(n, inner=[n["inner"][0], rhs])] + post

        # ---- statements
        def ds(self, s):
            k = s.get("kind")
            if k == "CompoundStmt":
                out = []
                for c in s.get("inner", []):
                    out += self.ds(c)
                return out
            if k in ("NullStmt", "BreakStmt", "ContinueStmt", "DeclStmt"):
                if k == "DeclStmt":
                    for d in s.get("inner", []):
                        init = [c for c in d.get("inner", []) if isinstance(c, dict) and "kind" in c]
                        if init:
                            e, pre, post = self.dx(init[0], s)
                            if pre or post:
                                self.bad("side effect in an initialiser")
                return [s]
            if k == "ReturnStmt":
                inner = [c for c in s.get("inner", []) if isinstance(c, dict)]
                out = []
                if inner:
                    e, pre, post = self.dx(inner[0], s)
                    out += pre + [mk_assign(mk_ref(self.ghost("retv"), tyq(inner[0])), e)] + post
                self.ghost("returned")
                return out + [mk_assign(mk_ref("returned"), mk_lit(1)), mk_break()]
            if k == "CallExpr" and sl.callee_name(s) == "longjmp":
                self.ghost("jumped")
                return [mk_assign(mk_ref("jumped"), s["inner"][2]), mk_break()]
            if k == "CallExpr":
                e, pre, post = self.dx(s, s)
                return pre + post
            if k == "BinaryOperator" and s.get("opcode") == "=":
                return self.assign_stmt(s, s)
            if k == "CompoundAssignOperator":
                lhs = c2g.skip_parens(s["inner"][0])
                if self.is_array_lhs(lhs):
                    self.bad("compound assignment to an array element")
                rhs, pre, post = self.dx(s["inner"][1], s)
                if c2g.int_type(c2g.strip_quals(c2g.tystr(lhs))) is None:
                    # p += e on a pointer: p = p + e
                    if s["opcode"] not in ("+=", "-="):
                        self.bad("pointer %s" % s["opcode"])
                    return pre + [mk_assign(copy.deepcopy(lhs), {"kind": "BinaryOperator", "opcode": s["opcode"][0], "type": lhs["type"],
                                                                  "inner": [mk_rv(copy.deepcopy(lhs)), rhs]})] + post
                return pre + [dict(s, inner=[s["inner"][0], rhs])] + post
            if k in ("ConditionalOperator", "ParenExpr", "CStyleCastExpr") and c2g.tystr(s) == "void" and not \
                    [c_ for c_ in sl.find_nodes(s, lambda x: x.get("kind") == "CallExpr") if sl.callee_name(c_) not in LOGS]:
                return [s]
            if k == "DoStmt" and sl.strip(s["inner"][1]).get("kind") == "IntegerLiteral" and sl.strip(s["inner"][1]).get("value") == "0" and not \
                    [c_ for c_ in sl.find_nodes(s, lambda x: x.get("kind") == "CallExpr") if sl.callee_name(c_) not in LOGS] and not assigned_order([s]):
                return [s]
            if k in ("UnaryOperator",) and s.get("opcode") in ("++", "--"):
                tgt = c2g.skip_parens(s["inner"][0])
                if tgt.get("kind") == "ArraySubscriptExpr" and self.is_array_lhs(tgt):
                    e, pre, post = self.dx(dict(s, isPostfix=True), s)
                    return pre + post
                if c2g.int_type(c2g.strip_quals(c2g.tystr(tgt))) is None:
                    return [self.incr_stmt(tgt, "+" if s["opcode"] == "++" else "-")]
                return [s]
            if k in ("ParenExpr",):
                return self.ds(s["inner"][0])
            if k == "IfStmt":
                c, pre, post = self.dx(s["inner"][0], s["inner"][0])
                # stores (and the fields changed by calls) are tracked per branch
                snap, csnap = dict(self.stores), set(self.clobbered)
                a = self.ds(s["inner"][1])
                sa, ca = self.stores, self.clobbered
                self.stores, self.clobbered = dict(snap), set(csnap)
                b = self.ds(s["inner"][2]) if len(s["inner"]) > 2 else []
                for k_, v_ in sa.items():
                    self.stores[k_] = max(self.stores.get(k_, 0), v_)
                self.clobbered |= ca
                if post:
                    a = copy.deepcopy(post) + a
                    b = copy.deepcopy(post) + b
                return pre + [mk_if(c, mk_block(a), mk_block(b) if (b or len(s["inner"]) > 2) else None)]
            if k in ("WhileStmt", "ForStmt", "DoStmt"):
                # a nested loop is cut out of the slice
                nm = self.nested_name(s)
                return [mk_assign(mk_ref(self.ghost(nm + "_entered")), mk_lit(1))]
            self.bad("statement kind %s" % k)

        def nested_name(self, s):
            self.nloops = getattr(self, "nloops", 0) + 1
            return "loop%d" % self.nloops

        def loop_step(self, s):
            """one iteration of loop s: [test; body; increment]"""
            k = s["kind"]
            if k == "WhileStmt":
                cond, body, inc = s["inner"][0], s["inner"][1], None
            elif k == "ForStmt":
                _i, _cv, cond, inc, body = s["inner"]
                cond = cond if cond.get("kind") else None
                inc = inc if inc.get("kind") else None
            else:
                body, cond, inc = s["inner"][0], s["inner"][1], None
            out = []
            test = []
            if cond is not None and not (sl.strip(cond).get("kind") == "IntegerLiteral" and sl.strip(cond).get("value") == "1"):
                c, pre, post = self.dx(cond, cond)
                if post:
                    go = mk_ref(self.ghost("go"), tyq(cond))
                    test = pre + [mk_assign(go, c)] + post + [mk_if(mk_not(mk_rv(go)), mk_block([mk_break()]))]
                else:
                    test = pre + [mk_if(mk_not(c), mk_block([mk_break()]))]
            if k == "DoStmt":
                return self.ds(body) + test
            out = test + self.ds(body)
            if inc is not None:
                out += self.ds(inc)
            return out

    ARRAYS = set()
    LOGS = ("sc_log", "sc_logf")
    TABLES = set()

    def rename_in(n):
        def f(x):
            if x.get("kind") == "MemberExpr" and x.get("name") == "in":
                x["name"] = "inb"
        sl.walk(n, f)
        return n

    def assigned_order(stmts):
        """location keys assigned in the (desugared) statements, in source order"""
        T = c2g.Translator()
        out = []

        def f(x):
            if x.get("kind") in ("BinaryOperator", "CompoundAssignOperator") and (x.get("opcode") == "=" or x.get("kind") == "CompoundAssignOperator") or \
                    (x.get("kind") == "UnaryOperator" and x.get("opcode") in ("++", "--")):
                try:
                    key = T.lvalue_key(x["inner"][0])
                except c2g.Unsupported:
                    return
                if key not in out:
                    out.append(key)
        for s in stmts:
            sl.walk(s, f)
        return out

    def declared(stmts):
        d = set()
        for s in stmts:
            sl.walk(s, lambda x: d.add(x["name"]) if x.get("kind") == "VarDecl" else None)
        return d

    class Emitter:
        def __init__(self, g, cfile, I, tables=(), rename=None):
            self.g, self.cfile, self.I = g, cfile, I
            self.src = open(cfile).read()
            self.cache = {}
            self.tables = set(tables)
            self.names = []
            self.kw = dict(elem_ptr_types=("short *", "const short *"))

        def fn(self, name):
            if name not in self.cache:
                objs = c2g.clang_ast(self.cfile, name, self.I)
                F = [o for o in objs if o.get("kind") == "FunctionDecl" and o.get("name") == name and
                     any(c.get("kind") == "CompoundStmt" for c in o.get("inner", []))]
                if len(F) != 1:
                    raise c2g.Unsupported("%d definitions of %s" % (len(F), name))
                self.cache[name] = rename_in(F[0])
            return self.cache[name]

        def body(self, name):
            return [c for c in self.fn(name)["inner"] if c.get("kind") == "CompoundStmt"][0]

        def emit(self, stmts, gname, fname, arrays=(), want=None, comment="", outputs=None, drop=(), D=None, raw=False):
            """stmts: ORIGINAL statements (desugared here unless raw), translated as one slice"""
            D = D or Desugar(fname)
            ds = []
            if raw:
                ds = list(stmts)
            else:
                for s in stmts:
                    ds += D.ds(s)
            locs = [k for k in assigned_order(ds) if k not in D.ghosts and k not in drop]
            dec = declared(ds)
            outs = outputs if outputs is not None else (D.ghosts + [k for k in locs] + ["stop"])
            outs = [o for o in outs if o not in drop]
            init = dict((gh, "0") for gh in D.ghosts)
            comment = (comment + "; " if comment else "") + "returns (%s)" % ", ".join(outs)
            t, i = sl.emit_block(ds, gname, outs, fname, init=init, jumps_end=True, want_params=want, comment=comment,
                                 array_reads=tuple(sorted((set(arrays) | D.arrays_read | set(D.stores)) - TABLES)), tables=self.tables,
                                 drop_calls=LOGS, **self.kw)
            if gname in self.names:
                raise c2g.Unsupported("duplicate slice name " + gname)
            self.names.append(gname)
            self.g.add(t, i)
            return i

        def cond(self, node, gname, fname, want=None, comment=""):
            D = Desugar(fname)
            c, pre, post = D.dx(node, node)
            if pre or post:
                raise c2g.Unsupported("%s: condition with side effects" % fname)
            t, i = sl.emit_cond(c, gname, fname, want_params=want, comment=comment,
                                array_reads=tuple(sorted(D.arrays_read)), tables=self.tables, **self.kw)
            self.names.append(gname)
            self.g.add(t, i)
            return i

        def step(self, loop, gname, fname, want=None, comment="", ptr_reads=None):
            D = Desugar(fname, ptr_reads=ptr_reads)
            ds = D.loop_step(loop)
            return self.emit(ds, gname, fname, want=want, comment=comment, D=D, raw=True)

    def one(lst, what):
        if len(lst) != 1:
            raise c2g.Unsupported("%s: %d candidates" % (what, len(lst)))
        return lst[0]

    def loops_of(n, kinds=("WhileStmt", "ForStmt", "DoStmt")):
        """loops directly inside n (not nested in another loop)"""
        out = []

        def f(x, top):
            for c in x.get("inner", []):
                if not isinstance(c, dict):
                    continue
                if c.get("kind") in kinds:
                    out.append(c)
                else:
                    f(c, False)
        f(n, True)
        return out

    def lift_tables(F, rename, g):
        """local `static const short t[] = {..}` tables of F: global Gallina tables (renamed); their declarations are removed"""
        body = [c for c in F["inner"] if c.get("kind") == "CompoundStmt"][0]
        keep, tabs = [], set()
        for st in body.get("inner", []):
            if st.get("kind") == "DeclStmt" and all(d.get("storageClass") == "static" and d.get("name") in rename for d in st.get("inner", [])):
                for d in st["inner"]:
                    t, info = c2g.translate_table(d, rename[d["name"]])
                    g.text += t
                    tabs.add(rename[d["name"]])
                continue
            keep.append(st)
        body["inner"] = keep

        def ren(n):
            if n.get("kind") == "DeclRefExpr" and n.get("referencedDecl", {}).get("name") in rename:
                n["referencedDecl"]["name"] = rename[n["referencedDecl"]["name"]]
        sl.walk(body, ren)
        return tabs

    def stmts_of(comp):
        return [c for c in comp.get("inner", []) if isinstance(c, dict) and "kind" in c]

    def is_ret_const(st, v):
        """st is `return v;` (possibly inside a compound)"""
        r = sl.find_nodes(st, lambda n: n.get("kind") == "ReturnStmt")
        if len(r) != 1:
            return False
        e = sl.strip(r[0]["inner"][0])
        if e.get("kind") == "UnaryOperator" and e.get("opcode") == "-":
            return -int(sl.strip(e["inner"][0]).get("value", "x0").replace("x", "9" * 9)) == v
        return e.get("kind") == "IntegerLiteral" and int(e["value"]) == v

    # --------------------------------------------------------------------------------------------------------
    # sc_puff.c
    # --------------------------------------------------------------------------------------------------------
    def gen_puff(tmp):
        g = Group("PuffC07")
        f = os.path.join(REPO, "src", "sc_puff.c")
        inc_nz = os.path.join(tmp, "inc_nz7")
        os.makedirs(inc_nz, exist_ok=True)
        vlib.make_config_h(os.path.join(inc_nz, "sc_config.h"), "off", False, False)
        I = [inc_nz] + incs(tmp)[1:]
        ARRAYS.clear()
        ARRAYS.update(("inb", "out", "count", "symbol", "length", "offs", "lengths"))
        E = Emitter(g, f, I)
        # constants the slices mention only through macros are folded by clang; the static tables are lifted
        Fc = E.fn("codes")
        E.tables |= lift_tables(Fc, {"lens": "puff_lens", "lext": "puff_lext", "dists": "puff_dists", "dext": "puff_dext"}, g)
        Fd = E.fn("dynamic")
        E.tables |= lift_tables(Fd, {"order": "puff_order"}, g)
        TABLES.clear()
        TABLES.update(E.tables)

        # ---------------- bits
        B = stmts_of(E.body("bits"))
        lp = one(loops_of(E.body("bits")), "bits: loop")
        k = B.index(lp)
        E.emit(B[:k], "puff_bits_init", "bits", outputs=["val"], comment="val = s->bitbuf")
        E.step(lp, "puff_bits_step", "bits", comment="one iteration of `while (s->bitcnt < need)`")
        E.emit(B[k + 1:], "puff_bits_take", "bits", comment="the statements behind the loop")

        # ---------------- stored
        S = stmts_of(E.body("stored"))
        ifs = [s for s in S if s.get("kind") == "IfStmt"]
        if len(ifs) != 4:
            raise c2g.Unsupported("stored: %d if statements at the top level" % len(ifs))
        k0 = S.index(ifs[0])
        E.emit([s for s in S[:k0] if s.get("kind") != "DeclStmt"], "puff_stored_reset", "stored", comment="discard leftover bits")
        E.emit([ifs[0]], "puff_stored_short4", "stored", comment="not enough input for LEN/NLEN")
        E.emit(S[k0 + 1:S.index(ifs[1])], "puff_stored_len", "stored", comment="LEN, little endian")
        cnd = sl.strip(ifs[1]["inner"][0])
        if cnd.get("kind") != "BinaryOperator" or cnd.get("opcode") != "||" or not is_ret_const(ifs[1]["inner"][1], -2):
            raise c2g.Unsupported("stored: the complement test is not `a || b` returning -2")
        for part, nm in ((cnd["inner"][0], "puff_stored_nlen_lo"), (cnd["inner"][1], "puff_stored_nlen_hi")):
            # `if (a || b) return -2`  ==  `if (a) return -2; if (b) return -2;`
            E.emit([mk_if(part, ifs[1]["inner"][1])], nm, "stored", comment="one operand of the complement test, then return -2")
        E.emit([ifs[2]], "puff_stored_short_len", "stored", comment="not enough input for LEN bytes")
        wr = ifs[3]
        E.cond(wr["inner"][0], "puff_stored_writes", "stored", comment="s->out != NIL")
        th = stmts_of(wr["inner"][1])
        if len(th) != 2 or th[0].get("kind") != "IfStmt" or th[1].get("kind") != "WhileStmt":
            raise c2g.Unsupported("stored: the copy branch is not `if (..) return 1; while (len--) ..`")
        E.emit([th[0]], "puff_stored_full", "stored", comment="not enough output space")
        E.step(th[1], "puff_stored_copy_step", "stored", comment="one iteration of the copy loop")
        E.emit([wr["inner"][2]], "puff_stored_skip", "stored", comment="just scanning")
        E.emit(S[S.index(wr) + 1:], "puff_stored_done", "stored", comment="")

        # ---------------- decode (the fast version; SLOW is undefined)
        Dd = stmts_of(E.body("decode"))
        outer = one(loops_of(E.body("decode")), "decode: outer loop")
        k = Dd.index(outer)
        PR = {"next": "cnt_at"}
        E.emit([s for s in Dd[:k] if s.get("kind") != "DeclStmt"], "puff_decode_init", "decode", D=Desugar("decode", PR),
               comment="next counts in ELEMENTS of h->count")
        ob = stmts_of(outer["inner"][1])
        inner = one([s for s in ob if s.get("kind") == "WhileStmt"], "decode: inner loop")
        if ob.index(inner) != 0:
            raise c2g.Unsupported("decode: the inner loop is not the first statement of the outer loop")
        E.step(inner, "puff_decode_bit_step", "decode", ptr_reads=PR,
               comment="one iteration of `while (left--)`: one more bit of the code; cnt_at p = the short at element p of the count table")
        E.emit(ob[1:], "puff_decode_refill", "decode", D=Desugar("decode", PR), comment="behind the inner loop: next byte of input or end")
        E.emit(Dd[k + 1:], "puff_decode_fail", "decode", comment="ran out of codes")

        # ---------------- construct
        C = stmts_of(E.body("construct"))
        fl = [s for s in C if s.get("kind") == "ForStmt"]
        if len(fl) != 5:
            raise c2g.Unsupported("construct: %d loops" % len(fl))
        names = ["puff_construct_zero", "puff_construct_count", "puff_construct_left", "puff_construct_offs", "puff_construct_fill"]
        for lpn, nm in zip(fl, names):
            init = lpn["inner"][0]
            E.emit([init], nm + "_init", "construct")
            E.step(lpn, nm + "_step", "construct")
        i3 = [s for s in C if s.get("kind") == "IfStmt"]
        if len(i3) != 1:
            raise c2g.Unsupported("construct: %d top-level tests" % len(i3))
        E.emit([i3[0]], "puff_construct_nocodes", "construct", comment="no codes: complete, but decode () will fail")
        k = C.index(fl[2])
        E.emit(C[C.index(i3[0]) + 1:k], "puff_construct_left0", "construct", comment="left = 1")
        E.emit(C[k + 1:C.index(fl[3])], "puff_construct_offs1", "construct", comment="offs[1] = 0")
        E.emit(C[C.index(fl[4]) + 1:], "puff_construct_done", "construct", comment="return left")

        # ---------------- codes
        K = stmts_of(E.body("codes"))
        do = one([s for s in K if s.get("kind") == "DoStmt"], "codes: loop")
        db = stmts_of(do["inner"][0])
        kinds = [s.get("kind") for s in db]
        if kinds != ["BinaryOperator", "IfStmt", "IfStmt"]:
            raise c2g.Unsupported("codes: loop body %s" % kinds)
        E.emit(db[:2], "puff_codes_symbol", "codes", comment="symbol = decode (s, lencode); negative: return it")
        br = db[2]
        E.cond(br["inner"][0], "puff_codes_is_literal", "codes")
        E.emit([br["inner"][1]], "puff_codes_literal", "codes", comment="literal")
        ln = br["inner"][2]
        if ln.get("kind") != "IfStmt" or len(ln["inner"]) != 2:
            raise c2g.Unsupported("codes: no `else if (symbol > 256)` without else")
        E.cond(ln["inner"][0], "puff_codes_is_length", "codes")
        lb = stmts_of(ln["inner"][1])
        cp = [s for s in lb if s.get("kind") == "IfStmt" and "dist" in sl.refs(s) and sl.find_nodes(s, lambda n: n.get("kind") == "WhileStmt")]
        cp = one(cp, "codes: copy statement")
        kc = lb.index(cp)
        dcall = [k_ for k_, s in enumerate(lb) if s.get("kind") == "BinaryOperator" and sl.callee_name(sl.strip(s["inner"][1])) == "decode"]
        if len(dcall) != 1:
            raise c2g.Unsupported("codes: %d calls of decode in the length branch" % len(dcall))
        E.emit(lb[:dcall[0]], "puff_codes_length", "codes", comment="length symbol: base + extra bits")
        E.emit(lb[dcall[0]:kc], "puff_codes_dist", "codes", comment="distance symbol: base + extra bits, too far back")
        E.cond(cp["inner"][0], "puff_codes_writes", "codes")
        th = stmts_of(cp["inner"][1])
        if len(th) != 2 or th[0].get("kind") != "IfStmt" or th[1].get("kind") != "WhileStmt":
            raise c2g.Unsupported("codes: the copy branch is not `if (..) return 1; while (len--) ..`")
        E.emit([th[0]], "puff_codes_full", "codes")
        E.step(th[1], "puff_codes_copy_step", "codes")
        E.emit([cp["inner"][2]], "puff_codes_skip", "codes")
        E.cond(do["inner"][1], "puff_codes_again", "codes", comment="while (symbol != 256)")
        E.emit(K[K.index(do) + 1:], "puff_codes_done", "codes")

        # ---------------- dynamic
        Y = [s for s in stmts_of(E.body("dynamic")) if s.get("kind") != "DeclStmt"]
        fy = [s for s in Y if s.get("kind") == "ForStmt"]
        wy = [s for s in Y if s.get("kind") == "WhileStmt"]
        if len(fy) != 2 or len(wy) != 1:
            raise c2g.Unsupported("dynamic: %d for loops, %d while loops" % (len(fy), len(wy)))
        # the four pointer assignments lencode.count = lencnt .. carry no arithmetic
        hdr = [s for s in Y[:Y.index(fy[0])] if not (s.get("kind") == "BinaryOperator" and c2g.is_pointer(c2g.tystr(s)))]
        if len(Y[:Y.index(fy[0])]) - len(hdr) != 4:
            raise c2g.Unsupported("dynamic: expected four table pointer assignments")
        E.emit(hdr, "puff_dynamic_counts", "dynamic", comment="nlen, ndist, ncode and the test on them")
        E.emit([fy[0]["inner"][0]], "puff_dynamic_read_init", "dynamic")
        E.step(fy[0], "puff_dynamic_read_step", "dynamic")
        E.step(fy[1], "puff_dynamic_zero_step", "dynamic")
        E.emit(Y[Y.index(fy[1]) + 1:Y.index(wy[0])], "puff_dynamic_clcode", "dynamic", comment="code length code: construct, must be complete; index = 0")
        wb = stmts_of(wy[0]["inner"][1])
        E.step(wy[0], "puff_dynamic_lengths_step", "dynamic", comment="one iteration of the length loop; the repeat loop is cut out (loop1_entered)")
        rep = one(sl.find_nodes(wy[0]["inner"][1], lambda n: n.get("kind") == "WhileStmt"), "dynamic: repeat loop")
        E.step(rep, "puff_dynamic_repeat_step", "dynamic")
        rest = Y[Y.index(wy[0]) + 1:]
        kinds = [s.get("kind") for s in rest]
        if kinds != ["IfStmt", "BinaryOperator", "IfStmt", "BinaryOperator", "IfStmt", "ReturnStmt"]:
            raise c2g.Unsupported("dynamic: tail %s" % kinds)
        E.emit(rest[:1], "puff_dynamic_eob", "dynamic", comment="end-of-block code must be present")
        E.emit(rest[1:3], "puff_dynamic_lencode", "dynamic")
        E.emit(rest[3:5], "puff_dynamic_distcode", "dynamic")
        E.emit(rest[5:], "puff_dynamic_codes", "dynamic")

        # ---------------- sc_puff
        P = stmts_of(E.body("sc_puff"))
        sj = one([s for s in P if s.get("kind") == "IfStmt" and sl.find_nodes(s["inner"][0], lambda n: n.get("kind") == "CallExpr")], "sc_puff: setjmp test")
        E.emit([s for s in P[:P.index(sj)] if s.get("kind") != "DeclStmt"], "puff_init", "sc_puff", comment="initial state")
        E.cond(sj["inner"][0], "puff_came_back", "sc_puff", comment="setjmp (s.env) != 0")
        E.emit([sj["inner"][1]], "puff_jump_error", "sc_puff")
        do = one(sl.find_nodes(sj["inner"][2], lambda n: n.get("kind") == "DoStmt"), "sc_puff: block loop")
        E.step(do, "puff_block_step", "sc_puff", comment="one block: last, type, dispatch, error test, `while (!last)`")
        E.emit(P[P.index(sj) + 1:], "puff_finish", "sc_puff", comment="update the lengths and return")
        return g, [f]

    GROUPS["PuffC07"] = gen_puff

    # --------------------------------------------------------------------------------------------------------
    # libb64/cdecode.c, sc_io.c (configuration without zlib)
    # --------------------------------------------------------------------------------------------------------
    def gen_decode(tmp):
        g = Group("DecodeC07")
        fd = os.path.join(REPO, "libb64", "cdecode.c")
        fio = os.path.join(REPO, "src", "sc_io.c")
        inc_nz = os.path.join(tmp, "inc_nz7")
        os.makedirs(inc_nz, exist_ok=True)
        vlib.make_config_h(os.path.join(inc_nz, "sc_config.h"), "off", False, False)
        I = [inc_nz] + incs(tmp)[1:]
        ARRAYS.clear()
        ARRAYS.update(("src_at", "array", "dec"))
        TABLES.clear()

        # ---------------- base64_decode_block: the four steps
        E = Emitter(g, fd, I)
        E.kw = dict(enum_params=True)
        F = E.fn("base64_decode_block")

        def enum_type(x):
            # the enumeration base64_decodestep has no negative enumerator: its underlying type is unsigned int
            t_ = x.get("type")
            if isinstance(t_, dict) and t_.get("qualType") == "base64_decodestep":
                x["type"] = _ty("unsigned int")
        sl.walk(F, enum_type)
        B = stmts_of(E.body("base64_decode_block"))
        sw = one([s for s in B if s.get("kind") == "SwitchStmt"], "decode_block: switch")
        PR = {"plainchar": "pt_at", "codechar": "code_at"}
        E.emit([s for s in B[:B.index(sw)] if s.get("kind") != "DeclStmt"], "b64d_enter", "base64_decode_block", D=Desugar("base64_decode_block", PR),
               comment="*plainchar = state_in->plainchar")
        wl = one([s for s in stmts_of(sw["inner"][1]) if s.get("kind") == "WhileStmt"], "decode_block: while (1)")
        groups, cur = [], None
        for st in stmts_of(wl["inner"][1]):
            if st.get("kind") == "CaseStmt":
                lab = sl.refs(st["inner"][0])
                inner = st["inner"][-1]
                if inner.get("kind") != "DoStmt" or len(lab) != 1:
                    raise c2g.Unsupported("decode_block: a case label is not followed by a do loop")
                cur = [sorted(lab)[0], inner, []]
                groups.append(cur)
            elif cur is None:
                raise c2g.Unsupported("decode_block: statement before the first case label")
            else:
                cur[2].append(st)
        if [x[0] for x in groups] != ["step_a", "step_b", "step_c", "step_d"]:
            raise c2g.Unsupported("decode_block: case labels %s" % [x[0] for x in groups])
        for lab, do, tail in groups:
            E.step(do, "b64d_%s_fetch" % lab, "base64_decode_block", ptr_reads=PR,
                   comment="one iteration of the do loop of %s: end of input (state saved, return) or the next character and its value" % lab)
            E.emit(tail, "b64d_%s_store" % lab, "base64_decode_block", D=Desugar("base64_decode_block", PR),
                   comment="the statements of %s behind its do loop; pt_at p = the byte at plaintext pointer p" % lab)

        # ---------------- sc_io_nonuncompress
        E = Emitter(g, fio, I)
        def src_reads(x):
            # src[k] reads memory relative to the CURRENT value of the pointer src: the memory function is `src_at`
            if x.get("kind") == "ArraySubscriptExpr":
                b_ = sl.strip(x["inner"][0])
                if b_.get("kind") == "DeclRefExpr" and b_["referencedDecl"]["name"] == "src":
                    b_["referencedDecl"] = dict(b_["referencedDecl"], name="src_at")
        sl.walk(E.fn("sc_io_nonuncompress"), src_reads)
        N = [s for s in stmts_of(E.body("sc_io_nonuncompress")) if s.get("kind") != "DeclStmt"]
        do = one([s for s in N if s.get("kind") == "DoStmt"], "nonuncompress: loop")
        kd = N.index(do)
        ini = [k_ for k_, s in enumerate(N[:kd]) if s.get("kind") == "CallExpr" and sl.callee_name(s) == "sc_io_adler32_init"]
        if ini != [kd - 1]:
            raise c2g.Unsupported("nonuncompress: sc_io_adler32_init is not the statement in front of the loop")
        E.emit(N[:kd - 1], "nonu_header", "sc_io_nonuncompress", comment="zlib header: CM/CINFO, FCHECK, FDICT; src_at k = the char at src[k] for the current value of src")
        E.step(do, "nonu_block", "sc_io_nonuncompress", comment="the loop body: minimum size, sc_puff, length comparison, checksum update")
        E.emit(N[kd + 1:], "nonu_trailer", "sc_io_nonuncompress", comment="sizes behind the loop, the four adler bytes; src_at k = the char at src[k] for the current value of src")

        # ---------------- sc_io_decode_info
        J = [s for s in stmts_of(E.body("sc_io_decode_info")) if s.get("kind") != "DeclStmt"]
        ifs = [s for s in J if s.get("kind") == "IfStmt"]
        if len(ifs) != 4:
            raise c2g.Unsupported("decode_info: %d tests" % len(ifs))
        E.emit([ifs[0]], "info_short", "sc_io_decode_info")
        E.emit(J[J.index(ifs[0]) + 1:J.index(ifs[1]) + 1], "info_decode12", "sc_io_decode_info", comment="12 characters must give 9 bytes")
        lp = one(sl.find_nodes(ifs[2], lambda n: n.get("kind") == "ForStmt"), "decode_info: size loop")
        E.step(lp, "info_size_step", "sc_io_decode_info", comment="big-endian size; dec k = (char) dec[k]")
        E.emit([s for s in stmts_of(ifs[3]["inner"][1])], "info_format", "sc_io_decode_info", D=Desugar("sc_io_decode_info", {"format_char": "fmt"}))

        # ---------------- sc_io_decode: what Gen/Codec.v does not already hold
        Fdec = E.fn("sc_io_decode")
        body = E.body("sc_io_decode")
        top = stmts_of(body)

        def guard(must, gname, comment=""):
            c = [s for s in top if s.get("kind") == "IfStmt" and set(must) <= sl.refs(s["inner"][0])]
            c = one(c, "sc_io_decode: test on %s" % ",".join(must))
            if not E_has_jump(c["inner"][1]):
                raise c2g.Unsupported("sc_io_decode: the test on %s does not leave the function" % ",".join(must))
            return c

        def E_has_jump(st):
            return bool(sl.find_nodes(st, lambda n: n.get("kind") in ("GotoStmt", "ReturnStmt")))
        c = [s for s in top if s.get("kind") == "IfStmt" and sl.refs(s["inner"][0]) == {"ocnt"}]
        E.cond(one(c, "sc_io_decode: ocnt test")["inner"][0], "dec_payload_short", "sc_io_decode")
        c = [s for s in top if s.get("kind") == "IfStmt" and sl.refs(s["inner"][0]) == {"compressed"}]
        E.cond(one(c, "sc_io_decode: format test")["inner"][0], "dec_format_bad", "sc_io_decode", comment="array k = compressed.array[k]")
        lp = [s for s in top if s.get("kind") == "ForStmt" and "uc" in json.dumps(s)[:20000] and "compressed" in sl.refs(s)]
        E.step(one(lp, "sc_io_decode: size loop"), "dec_size_step", "sc_io_decode", comment="big-endian size; array k = compressed.array[k]")
        E.cond(guard(("encoded_size", "out"), "x")["inner"][0] if False else one([s for s in top if s.get("kind") == "IfStmt" and sl.refs(s["inner"][0]) == {"encoded_size", "out"} and
                    sl.find_nodes(s["inner"][0], lambda n: n.get("kind") == "BinaryOperator" and n.get("opcode") == "%")], "sc_io_decode: commensurable")["inner"][0],
               "dec_not_commensurable", "sc_io_decode")
        E.cond(guard(("max_original_size", "encoded_size"), "x")["inner"][0], "dec_over_maximum", "sc_io_decode")
        vw = guard(("current_size", "encoded_size", "out"), "x")
        vc = copy.deepcopy(vw["inner"][0])
        asg = sl.find_nodes(vc, lambda n: n.get("kind") == "BinaryOperator" and n.get("opcode") == "=")
        if len(asg) != 1 or sl.strip(asg[0]["inner"][0]).get("referencedDecl", {}).get("name") != "current_size":
            raise c2g.Unsupported("sc_io_decode: the view test does not assign current_size once")
        # `(current_size = e)` as a value is e (same type); current_size is used for the log message only
        rhs = asg[0]["inner"][1]
        keep = dict(asg[0])
        asg[0].clear()
        asg[0].update(rhs)
        if c2g.strip_quals(c2g.tystr(keep)) != c2g.strip_quals(c2g.tystr(rhs)):
            raise c2g.Unsupported("sc_io_decode: current_size assignment converts the value")
        E.cond(vc, "dec_over_view", "sc_io_decode", comment="view (byte_alloc < 0) too small")
        rz = one(sl.find_nodes(body, lambda n: n.get("kind") == "CallExpr" and sl.callee_name(n) == "sc_array_resize"), "sc_io_decode: resize")
        t, i = sl.emit_expr(rz["inner"][2], "dec_resize_count", "sc_io_decode")
        g.add(t, i)
        un = one(sl.find_nodes(body, lambda n: n.get("kind") == "CallExpr" and sl.callee_name(n) == "sc_io_nonuncompress"), "sc_io_decode: decompressor call")
        t, i = sl.emit_expr(un["inner"][2], "dec_unc_dest_size", "sc_io_decode")
        g.add(t, i)
        t, i = sl.emit_expr(un["inner"][3], "dec_unc_src", "sc_io_decode")
        g.add(t, i)
        t, i = sl.emit_expr(un["inner"][4], "dec_unc_src_size", "sc_io_decode")
        g.add(t, i)
        # the line loop
        ll = one([s for s in top if s.get("kind") == "ForStmt" and "zlin" in sl.refs(s["inner"][2])], "sc_io_decode: line loop")
        lb = [s for s in stmts_of(ll["inner"][4]) if s.get("kind") == "IfStmt"]
        if len(lb) != 2:
            raise c2g.Unsupported("sc_io_decode: %d tests in the line loop" % len(lb))
        E.cond(ll["inner"][2], "dec_more_lines", "sc_io_decode")
        E.cond(lb[0]["inner"][0], "dec_line_empty", "sc_io_decode")
        E.cond(lb[1]["inner"][0], "dec_line_not_last", "sc_io_decode")
        th = [s for s in stmts_of(lb[1]["inner"][1])]
        mm = [s for s in th if s.get("kind") == "IfStmt"]
        E.cond(one(mm, "sc_io_decode: full line test")["inner"][0], "dec_line_mismatch", "sc_io_decode")
        E.emit([s for s in th if s.get("kind") != "IfStmt"], "dec_line_full", "sc_io_decode", comment="a line that is not the last one: 57 bytes, 78 characters on")
        E.emit(stmts_of(lb[1]["inner"][2]), "dec_line_last", "sc_io_decode", comment="the last line: lout bytes")
        return g, [fd, fio]

    GROUPS["DecodeC07"] = gen_decode
