"""Parsing of the output of the simulated-MPI harnesses (tools/harness/*_harness.c on tools/simmpi).

Harness output per run:
    RUN <i> rc=<code> steps=<n>
    [REPORT <text with ~ for newlines>]
    OUT <rank> <text>          (any number, harness specific)
    TRACE-BEGIN ... json lines ... TRACE-END
    END <i> mem=<delta of sc_memory_status>
"""
import json

ANY = -1            # wildcard source in the models (MPI/Prog.v)
SIM_ANY_SOURCE = -2  # MPI_ANY_SOURCE of tools/simmpi/mpi.h


def _src(x):
    return ANY if x == SIM_ANY_SOURCE else x
COLLS = {"MPI_Barrier", "MPI_Ibarrier", "MPI_Bcast", "MPI_Gather", "MPI_Gatherv", "MPI_Allgather", "MPI_Allgatherv",
         "MPI_Alltoall", "MPI_Alltoallv", "MPI_Reduce", "MPI_Allreduce", "MPI_Reduce_scatter_block", "MPI_Scan",
         "MPI_Exscan", "MPI_Scatter"}


class Run:
    def __init__(self, idx):
        self.idx, self.rc, self.steps, self.report, self.outs, self.trace, self.mem = idx, None, 0, "", [], [], None
        self.extra = []


def parse_runs(lines):
    runs = []
    cur = None
    intrace = False
    for l in lines:
        if intrace:
            if l.startswith("TRACE-END"):
                intrace = False
            elif l.startswith("{"):
                try:
                    cur.trace.append(json.loads(l))
                except ValueError:
                    cur.extra.append("unparsable trace line: " + l[:200])
            continue
        if l.startswith("RUN "):
            w = l.split()
            cur = Run(int(w[1]))
            for t in w[2:]:
                if t.startswith("rc="):
                    cur.rc = int(t[3:])
                if t.startswith("steps="):
                    cur.steps = int(t[6:])
            runs.append(cur)
        elif cur is None:
            continue
        elif l.startswith("REPORT "):
            cur.report = l[7:].replace("~", "\n")
        elif l.startswith("OUT "):
            cur.outs.append(l[4:])
        elif l.startswith("TRACE-BEGIN"):
            intrace = True
        elif l.startswith("END "):
            for t in l.split()[2:]:
                if t.startswith("mem="):
                    cur.mem = int(t[4:])
        elif l.strip():
            cur.extra.append(l)
    return runs


def rank_events(trace, nranks, comm=None):
    """Per rank, the communication events in POSTING order:
       ('S', dest, tag, bytes, comm) | ['R', src, tag, msrc, bytes, comm] | ('C', name, root, inbytes, outbytes, comm)
       | ('P', src, tag, flag, msrc, comm)  probes.  Receives posted by Irecv get their data from the completing call."""
    per = [[] for _ in range(nranks)]
    byrank = [[] for _ in range(nranks)]
    for e in trace:
        if 0 <= e.get("r", -1) < nranks:
            byrank[e["r"]].append(e)
    for r in range(nranks):
        evs = sorted(byrank[r], key=lambda e: e.get("s", 0))
        pending = {}
        out = per[r]
        for e in evs:
            f = e.get("f", "")
            c = e.get("c", 0)
            if f in ("MPI_Send", "MPI_Ssend", "MPI_Isend", "MPI_Issend"):
                out.append(("S", e["dest"], e["tag"], bytes.fromhex(e.get("d", "")), c, e.get("trunc", False)))
            elif f == "MPI_Recv":
                out.append(["R", _src(e["src"]), e["tag"], e.get("msrc"), bytes.fromhex(e.get("d", "")), c])
            elif f == "MPI_Irecv":
                ev = ["R", _src(e["src"]), e["tag"], None, None, c]
                pending[e["req"]] = ev
                out.append(ev)
            elif f in ("MPI_Probe", "MPI_Iprobe"):
                out.append(("P", _src(e["src"]), e["tag"], e.get("flag", 1), e.get("msrc"), c))
            elif f.startswith("MPI_Wait") or f.startswith("MPI_Test"):
                out.append(("W", f))
                for d in e.get("done", []):
                    if d.get("k") == "recv" and d.get("req") in pending:
                        ev = pending.pop(d["req"])
                        ev[3] = d.get("msrc")
                        ev[4] = bytes.fromhex(d.get("d", ""))
            elif f in COLLS:
                out.append(("C", f, e.get("root", -1), bytes.fromhex(e.get("in", "")), bytes.fromhex(e.get("out", "")), c, e))
    return per


def merge_probe_recv(evs):
    """A wildcard probe that succeeded, followed (as next event) by a receive from the probed source, is one
    wildcard receive: the receive's requested source becomes ANY.  Unsuccessful probes are dropped."""
    out = []
    i = 0
    while i < len(evs):
        e = evs[i]
        if e[0] == "P":
            if e[3] and i + 1 < len(evs) and evs[i + 1][0] == "R" and evs[i + 1][1] == e[4] and e[1] == ANY:
                r = list(evs[i + 1])
                r[1] = ANY
                out.append(r)
                i += 2
                continue
            i += 1
            continue
        out.append(e)
        i += 1
    return out


def hexints(b, unit=1, signed=False):
    """payload bytes -> comma separated hex integers of `unit` bytes (little endian), '-' if empty"""
    if not b:
        return "-"
    vals = []
    for k in range(0, len(b) - len(b) % unit, unit):
        v = int.from_bytes(b[k:k + unit], "little", signed=signed)
        vals.append(("-%x" % -v) if v < 0 else ("%x" % v))
    return ",".join(vals) if vals else "-"


def canonical_windows(evs):
    """Events of one rank with the point-to-point operations of every completion window (the stretch between two
    Wait*/Test* calls) put into the canonical order of the models: sends first (posting order), then receives
    (posting order).  Blocking Send/Recv keep their place relative to the windows.  'W' markers are dropped."""
    out, win = [], []

    def flush():
        out.extend([e for e in win if e[0] == "S"])
        out.extend([e for e in win if e[0] != "S"])
        del win[:]
    for e in evs:
        if e[0] == "W":
            flush()
        elif e[0] in ("S", "R"):
            win.append(e)
        else:
            flush()
            out.append(e)
    flush()
    return out
