#!/usr/bin/env python3
"""Shared machinery of the /verif checks (see tools/lib/README.md).

A check is a Python module checks/Cnn.py with a function run(ctx).  It uses this
library to
  * build libsc variants from /repo's *working tree* into a scratch directory,
  * regenerate translator output (T1) and re-check the property theorems with coqc,
  * run C harness and extracted model on the same cases and diff them (T2/T3),
  * report violations / known findings and write evidence/Cnn.json.
Nothing is ever written into /repo; scratch lives under /var/tmp and is removed.
"""
import os, sys, json, subprocess, shutil, time, hashlib, random, tempfile, fcntl, re, glob

VERIF = os.path.dirname(os.path.dirname(os.path.dirname(os.path.abspath(__file__))))
REPO = os.environ.get("VERIF_REPO", "/repo")
COQ = os.path.join(VERIF, "coq")
TOOLS = os.path.join(VERIF, "tools")
NCPU = min(16, os.cpu_count() or 4)

TRUSTED_COMMON = [
    "Coq 8.16.1 kernel (coqc; vm_compute used, native_compute not used)",
    "no axioms declared by this development (grep + Print Assumptions enforce it)",
    "OCaml 4.13.1 and Coq extraction with ExtrOcamlBasic only (no Extract Constant/Inductive of our own)",
    "the correspondence harness (C driver + OCaml driver + canonicalisation) of this check",
]


def sh(cmd, cwd=None, timeout=None, env=None, check=False, stdin=None):
    """Run a command, return (rc, stdout+stderr text).  rc=124 on timeout."""
    try:
        p = subprocess.run(cmd, cwd=cwd, timeout=timeout, env=env, input=stdin,
                           stdout=subprocess.PIPE, stderr=subprocess.STDOUT,
                           shell=isinstance(cmd, str))
        out = p.stdout.decode("utf-8", "replace")
        rc = p.returncode
    except subprocess.TimeoutExpired as e:
        out = (e.stdout or b"").decode("utf-8", "replace") + "\n[timeout]"
        rc = 124
    if check and rc != 0:
        raise RuntimeError("command failed (%s): %s\n%s" % (rc, cmd, out[-4000:]))
    return rc, out


def sh2(cmd, cwd=None, timeout=None, env=None, stdin=None):
    """Run a command, return (rc, stdout bytes, stderr text) separately."""
    try:
        p = subprocess.run(cmd, cwd=cwd, timeout=timeout, env=env, input=stdin,
                           stdout=subprocess.PIPE, stderr=subprocess.PIPE,
                           shell=isinstance(cmd, str))
        return p.returncode, p.stdout, p.stderr.decode("utf-8", "replace")
    except subprocess.TimeoutExpired as e:
        return 124, (e.stdout or b""), (e.stderr or b"").decode("utf-8", "replace") + "\n[timeout]"


# ----------------------------------------------------------------------------
# libsc variant builds
# ----------------------------------------------------------------------------

def repo_sources():
    """Source list of the library taken from /repo's CMake files on every run."""
    srcs = []
    txt = open(os.path.join(REPO, "src", "CMakeLists.txt")).read()
    m = re.search(r"target_sources\(sc PRIVATE(.*?)\)", txt, re.S)
    if m:
        for w in m.group(1).split():
            if w.endswith(".c"):
                srcs.append(os.path.join("src", w))
    top = open(os.path.join(REPO, "CMakeLists.txt")).read()
    for m in re.finditer(r"add_library\((iniparser|libb64) OBJECT(.*?)\)", top, re.S):
        for w in m.group(2).split():
            if w.endswith(".c"):
                srcs.append(w)
    return srcs


SKIP_SOURCES = {"src/sc_v4l2.c"}          # needs kernel headers only; not in any property


class Variant:
    def __init__(self, d, cc, cflags, ldflags, lib, key):
        self.dir, self.cc, self.cflags, self.ldflags, self.lib, self.key = d, cc, cflags, ldflags, lib, key

    @property
    def inc(self):
        return [f for f in self.cflags if f.startswith("-I")]


def make_config_h(dst, mpi, zlib, debug, extra_defs=()):
    s = open(os.path.join(TOOLS, "build", "sc_config.h.in")).read()
    def on(name):
        nonlocal s
        if re.search(r"^#define %s\b" % name, s, re.M):
            return
        s2 = s.replace("/* #undef %s */" % name, "#define %s 1" % name)
        if s2 == s:
            s2 = s.replace("#endif /* !_SRC_SC_CONFIG_H */", "#define %s 1\n#endif /* !_SRC_SC_CONFIG_H */" % name)
            if s2 == s:
                s2 = s + "\n#define %s 1\n" % name
        s = s2
    def off(name):
        nonlocal s
        s = re.sub(r"^#define %s\b.*$" % name, "/* #undef %s */" % name, s, flags=re.M)
    if mpi != "off":
        on("SC_ENABLE_MPI")
    if not zlib:
        off("SC_HAVE_ZLIB")
    if debug:
        on("SC_ENABLE_DEBUG")
    off("SC_ENABLE_V4L2")
    for d in extra_defs:
        on(d)
    open(dst, "w").write(s)


def build_variant(scratch, mpi="off", zlib=True, debug=False, san=True, opt="-O1",
                  config_defs=(), cdefs=(), compiler=None, hooks=True, cflags_extra=()):
    """Compile /repo's working tree file by file.  mpi: off | sim | ompi."""
    key = "v_%s_%s_%s_%s_%s" % (mpi, "z" if zlib else "nz", "dbg" if debug else "rel",
                                "san" if san else "nosan",
                                hashlib.md5(repr((opt, tuple(config_defs), tuple(cdefs), compiler, hooks, tuple(cflags_extra))).encode()).hexdigest()[:6])
    d = os.path.join(scratch, key)
    lib = os.path.join(d, "libsc.a")
    cc = compiler or ("mpicc" if mpi == "ompi" else "gcc")
    cflags = [opt, "-g", "-fno-omit-frame-pointer", "-I" + os.path.join(d, "inc"),
              "-I" + os.path.join(REPO, "src"), "-I" + os.path.join(REPO, "libb64"),
              "-I" + os.path.join(REPO, "iniparser")]
    if hooks:
        cflags.append("-DSC_VERIF_HOOKS")
    ldflags = []
    if mpi == "sim":
        cflags.insert(4, "-I" + os.path.join(TOOLS, "simmpi"))
    if san:
        cflags += ["-fsanitize=address,undefined", "-fno-sanitize-recover=undefined"]
        ldflags += ["-fsanitize=address,undefined"]
    for c in cdefs:
        cflags.append("-D" + c)
    cflags += list(cflags_extra)
    ldflags += ["-lm", "-lpthread"]
    if zlib:
        ldflags.insert(0, "-lz")
    v = Variant(d, cc, cflags, ldflags, lib, key)
    if os.path.exists(lib):
        return v
    os.makedirs(os.path.join(d, "inc"), exist_ok=True)
    os.makedirs(os.path.join(d, "obj"), exist_ok=True)
    make_config_h(os.path.join(d, "inc", "sc_config.h"), mpi, zlib, debug, config_defs)
    srcs = [s for s in repo_sources() if s not in SKIP_SOURCES]
    procs = []
    objs = []
    errs = []
    pending = list(srcs)
    running = []
    while pending or running:
        while pending and len(running) < NCPU:
            s = pending.pop(0)
            o = os.path.join(d, "obj", s.replace("/", "_")[:-2] + ".o")
            objs.append(o)
            p = subprocess.Popen([cc] + cflags + ["-w", "-c", os.path.join(REPO, s), "-o", o],
                                 stdout=subprocess.PIPE, stderr=subprocess.STDOUT)
            running.append((p, s))
        p, s = running.pop(0)
        out = p.communicate()[0].decode("utf-8", "replace")
        if p.returncode != 0:
            errs.append((s, out))
    if errs:
        raise BuildError("libsc variant %s does not compile: %s\n%s" % (key, errs[0][0], errs[0][1][-3000:]))
    sh(["ar", "rcs", lib] + objs, check=True)
    return v


class BuildError(Exception):
    pass


# ----------------------------------------------------------------------------
# Coq side
# ----------------------------------------------------------------------------

class CoqLock:
    def __enter__(self):
        self.f = open(os.path.join(COQ, ".lock"), "w")
        fcntl.flock(self.f, fcntl.LOCK_EX)
        return self

    def __exit__(self, *a):
        fcntl.flock(self.f, fcntl.LOCK_UN)
        self.f.close()


FORBIDDEN = re.compile(r"\b(Admitted|admit|Axiom|Axioms|Parameter|Parameters|Conjecture|Conjectures|Abort All|Unset Guard Checking|"
                       r"Unset Positivity Checking|Unset Universe Checking|bypass_check|Admit Obligations|type-in-type|impredicative-set)\b")

ALLOWED_AXIOMS = {
    # standard-library axioms that may legitimately show up; each is named in DESIGN.md section 8
    "functional_extensionality_dep", "FunctionalExtensionality.functional_extensionality_dep",
    "Eqdep.Eq_rect_eq.eq_rect_eq", "eq_rect_eq", "JMeq_eq", "proof_irrelevance",
    "ProofIrrelevance.proof_irrelevance", "classic", "Classical_Prop.classic",
}


def strip_comments(src):
    out = []
    depth = 0
    i = 0
    while i < len(src):
        if src.startswith("(*", i):
            depth += 1
            i += 2
        elif src.startswith("*)", i) and depth > 0:
            depth -= 1
            i += 2
        else:
            if depth == 0:
                out.append(src[i])
            i += 1
    return "".join(out)


def scan_forbidden(files):
    bad = []
    for f in files:
        try:
            src = strip_comments(open(f).read())
        except OSError:
            continue
        src = re.sub(r'"[^"]*"', '""', src)
        sections = []
        for ln, line in enumerate(src.split("\n"), 1):
            m = FORBIDDEN.search(line)
            if m:
                bad.append("%s:%d: %s" % (os.path.relpath(f, VERIF), ln, m.group(0)))
            ms = re.match(r"\s*Section\s+([A-Za-z0-9_']+)\s*\.", line)
            if ms:
                sections.append(ms.group(1))
            me = re.match(r"\s*End\s+([A-Za-z0-9_']+)\s*\.", line)
            if me and sections and sections[-1] == me.group(1):
                sections.pop()
            if not sections and re.match(r"\s*(Variable|Variables|Hypothesis|Hypotheses|Context)\b", line):
                # outside a section these declare an axiom
                bad.append("%s:%d: %s outside a section" % (os.path.relpath(f, VERIF), ln, line.strip()[:60]))
    return bad


def theorem_names(props_file):
    src = strip_comments(open(props_file).read())
    return re.findall(r"^\s*(?:Theorem|Lemma|Corollary)\s+([A-Za-z0-9_']+)", src, re.M)


def coq_deps(vfile):
    """Transitive .v dependencies of a file inside the development (via coqdep)."""
    rc, out = sh(["coqdep", "-Q", ".", "ScV", os.path.relpath(vfile, COQ)], cwd=COQ)
    seen = set()
    todo = [os.path.relpath(vfile, COQ)]
    while todo:
        f = todo.pop()
        if f in seen:
            continue
        seen.add(f)
        rc, out = sh(["coqdep", "-Q", ".", "ScV", f], cwd=COQ)
        for tok in out.replace("\\\n", " ").split():
            if tok.endswith(".vo") and not tok.startswith("/"):
                v = tok[:-1]
                if os.path.exists(os.path.join(COQ, v)) and v not in seen:
                    todo.append(v)
    return sorted(seen)


def coq_make(targets, timeout=1800, jobs=NCPU):
    """Full .vo build of the given targets (never -vos).  Returns (ok, log)."""
    with CoqLock():
        if not os.path.exists(os.path.join(COQ, "Makefile.coq")):
            sh(["make", "-C", VERIF, "coq-makefile"], check=True)
        rc, out = sh(["make", "-f", "Makefile.coq", "-k", "-j%d" % jobs] + targets, cwd=COQ, timeout=timeout)
    return rc == 0, out


def check_props(pid, extra_targets=(), timeout=1800):
    """Re-check Props/Properties_<pid>.v and everything it depends on.
    Returns dict(obligations, discharged, names, failed:[(name, detail)], assumptions:{name:[axioms]},
                 log, forbidden:[...])."""
    props = os.path.join(COQ, "Props", "Properties_%s.v" % pid)
    names = theorem_names(props)
    res = dict(obligations=len(names), discharged=0, names=names, failed=[], assumptions={}, log="", forbidden=[])
    deps = coq_deps(props)
    res["deps"] = deps
    res["forbidden"] = scan_forbidden([os.path.join(COQ, d) for d in deps])
    deptargets = [d + "o" for d in deps if not d.startswith("Props/")] + list(extra_targets)
    ok, log = coq_make(deptargets, timeout=timeout) if deptargets else (True, "")
    res["log"] = log[-6000:]
    if not ok:
        m = re.search(r'File "\./?([^"]+)", line (\d+), characters [^\n]*\n(.*?)(?:\nmake|\Z)', log, re.S)
        detail = ("%s:%s %s" % (m.group(1), m.group(2), m.group(3)[:600])) if m else log[-800:]
        res["failed"] = [(n, "dependency does not check: " + detail) for n in names]
        return res
    # always recompile the properties file itself to obtain Print Assumptions output of this run
    with CoqLock():
        rc, out = sh(["coqc", "-Q", ".", "ScV", os.path.relpath(props, COQ)], cwd=COQ, timeout=timeout)
    res["log"] += out[-4000:]
    if rc != 0:
        m = re.search(r'line (\d+), characters', out)
        failline = int(m.group(1)) if m else 0
        # name of the theorem containing the failing line
        srclines = open(props).read().split("\n")
        failing = None
        order = []
        for i, l in enumerate(srclines, 1):
            mm = re.match(r"\s*(?:Theorem|Lemma|Corollary)\s+([A-Za-z0-9_']+)", l)
            if mm:
                order.append((i, mm.group(1)))
        for (i, n) in order:
            if i <= failline:
                failing = n
        done = [n for (i, n) in order if failing and n != failing and i < failline]
        res["discharged"] = len(done)
        for n in names:
            if n not in done:
                res["failed"].append((n, ("does not check: " if n == failing else "not reached after failure of %s: " % failing) + out[-600:]))
        return res
    # parse Print Assumptions blocks: they appear in order of the Print Assumptions commands
    blocks = re.split(r"(?=Closed under the global context|Axioms:)", out)
    pa_names = re.findall(r"Print Assumptions\s+([A-Za-z0-9_'.]+)\s*\.", strip_comments(open(props).read()))
    blocks = [b for b in blocks if b.startswith("Closed under") or b.startswith("Axioms:")]
    for n, b in zip(pa_names, blocks):
        if b.startswith("Closed under"):
            res["assumptions"][n] = []
        else:
            ax = [a for a in re.findall(r"^([A-Za-z0-9_'.]+)\s*:", b, re.M) if a != "Axioms"]
            res["assumptions"][n] = ax
    bad_ax = []
    for n in names:
        if n not in res["assumptions"]:
            bad_ax.append((n, "no Print Assumptions output for this theorem"))
        else:
            for a in res["assumptions"][n]:
                if a not in ALLOWED_AXIOMS and not a.startswith("PrimInt63") and not a.startswith("PrimFloat") \
                        and not a.startswith("Uint63") and not a.startswith("FloatAxioms") and not a.startswith("Float"):
                    bad_ax.append((n, "depends on axiom " + a))
    res["failed"] = bad_ax
    res["discharged"] = len(names) - len(set(n for n, _ in bad_ax))
    if res["forbidden"]:
        res["failed"] += [("forbidden-vernacular", "; ".join(res["forbidden"][:5]))]
    return res


# ----------------------------------------------------------------------------
# check context
# ----------------------------------------------------------------------------

def load_known():
    kn = []
    files = [os.path.join(VERIF, "known_findings.txt")] + sorted(glob.glob(os.path.join(VERIF, "known_findings.d", "*.txt")))
    for p in files:
        if not os.path.exists(p):
            continue
        for l in open(p):
            l = l.strip()
            m = re.match(r"finding:\s+property=(\S+)\s+key=(\S+)\s+--\s+(.*)", l)
            if m:
                kn.append((m.group(1), m.group(2), m.group(3)))
    return kn


class Ctx:
    def __init__(self, pid, tier="quick", seed=0, replay=None):
        self.pid, self.tier, self.seed, self.replay = pid, tier, seed, replay
        self.quick = tier == "quick"
        os.makedirs("/var/tmp", exist_ok=True)
        self.scratch = tempfile.mkdtemp(prefix="verif-%s-" % pid, dir="/var/tmp")
        self.t0 = time.time()
        self.rng = random.Random((seed + 1) * 7919 + sum(map(ord, pid)))
        self.violations = []      # (key, text, replay_path)
        self.known_hits = []      # (key, text)
        self.broken = []          # (name, detail): proof obligation / correspondence that no longer checks
        self.cov = dict(evaluations=0, distinct_nontrivial=0, rule="", samples=[], obligations=0, discharged=0,
                        checker_cmd="", trusted_base=[], disagreements_checked=0)
        self.assumptions = []
        self.notes = {}
        self._distinct = set()
        self.known = load_known()
        os.makedirs(os.path.join(VERIF, "evidence", "replay"), exist_ok=True)

    # -- helpers -----------------------------------------------------------
    def log(self, *a):
        print("[%s %6.1fs]" % (self.pid, time.time() - self.t0), *a, flush=True)

    def variant(self, **kw):
        return build_variant(self.scratch, **kw)

    def cc(self, sources, out, variant, extra=(), libs=()):
        """Compile and link harness sources against a libsc variant."""
        cmd = [variant.cc] + variant.cflags + ["-w"] + list(extra) + list(sources) + [variant.lib] + list(libs) + variant.ldflags + ["-o", out]
        rc, o = sh(cmd)
        if rc != 0:
            raise BuildError("harness does not compile: %s\n%s" % (" ".join(sources), o[-3000:]))
        return out

    def count_case(self, canon, nontrivial=True):
        """Count one evaluated case; canon is any hashable/printable canonical form."""
        self.cov["evaluations"] += 1
        if nontrivial:
            h = hashlib.md5(repr(canon).encode()).digest()[:8]
            if h not in self._distinct:
                self._distinct.add(h)
                self.cov["distinct_nontrivial"] += 1

    def sample(self, obj, limit=6):
        if len(self.cov["samples"]) < limit:
            self.cov["samples"].append(obj)

    def props(self, extra_targets=(), timeout=None):
        """Run the proof obligations of this property; broken ones are recorded."""
        timeout = timeout or (1500 if self.quick else 3600)
        r = check_props(self.pid, extra_targets, timeout)
        self.cov["obligations"] += r["obligations"]
        self.cov["discharged"] += r["discharged"]
        self.cov["checker_cmd"] = "make -f Makefile.coq <deps of Props/Properties_%s.vo> && coqc -Q . ScV Props/Properties_%s.v (full .vo, Print Assumptions parsed)" % (self.pid, self.pid)
        self.notes["theorems"] = r["names"]
        self.notes["axioms_reported"] = sorted(set(a for l in r["assumptions"].values() for a in l))
        # theorems that fail for one and the same reason (a dependency that no longer checks) are one entry, so that
        # the other broken ties (model/implementation disagreements with their cases) stay visible in the report
        by_reason = {}
        for n, d in r["failed"]:
            by_reason.setdefault(d, []).append(n)
        for d, ns in by_reason.items():
            if len(ns) == 1:
                self.broken.append(("theorem " + ns[0], d))
            else:
                self.broken.append(("%d theorems (%s%s)" % (len(ns), ", ".join(ns[:6]), ", ..." if len(ns) > 6 else ""), d))
        for n in r["names"][:4]:
            self.sample({"obligation": n})
        self.log("proof obligations: %d/%d discharged" % (r["discharged"], r["obligations"]))
        if not self.quick and not r["failed"]:
            self.coqchk()
        return r

    def coqchk(self, timeout=3000):
        """thorough tier: re-check the compiled properties file and everything it depends on with the independent
        checker; its context summary (axioms, type-in-type, unsafe fixpoints, assumed positivity) goes into the evidence"""
        with CoqLock():
            rc, out = sh(["coqchk", "-o", "-silent", "-Q", ".", "ScV", "ScV.Props.Properties_%s" % self.pid], cwd=COQ, timeout=timeout)
        summ = out[out.find("CONTEXT SUMMARY"):] if "CONTEXT SUMMARY" in out else out[-1500:]
        items = {}
        for m in re.finditer(r"\* ([^:\n]+):\s*(.*?)(?=\n\* |\Z)", summ, re.S):
            items[m.group(1).strip()] = " ".join(m.group(2).split())
        self.notes["coqchk"] = dict(exit=rc, summary=items)
        self.cov["checker_cmd"] += "; coqchk -o -silent -Q . ScV ScV.Props.Properties_%s" % self.pid
        bad = []
        if rc != 0:
            bad.append("coqchk exit %s: %s" % (rc, out[-600:]))
        for k in ("Constants/Inductives relying on type-in-type", "Constants/Inductives relying on unsafe (co)fixpoints",
                  "Inductives whose positivity is assumed"):
            if items.get(k, "<none>") != "<none>":
                bad.append("%s: %s" % (k, items[k][:300]))
        ax = items.get("Axioms", "<none>")
        if ax != "<none>":
            names = re.findall(r"([A-Za-z0-9_'.]+)\s*(?=\s|$)", ax)
            for a in names:
                short = a.split(".")[-1]
                if a not in ALLOWED_AXIOMS and short not in ALLOWED_AXIOMS and not re.search(r"(PrimInt63|PrimFloat|Uint63|Float|Sint63|PrimArray|PArray|Int63)", a):
                    bad.append("coqchk reports axiom " + a)
        for b in bad:
            self.broken.append(("coqchk", b))
        self.log("coqchk: exit %s, axioms: %s" % (rc, ax[:200]))

    def model(self, name):
        """Path of an extracted-model driver built by `make ocaml` (rebuilt if stale)."""
        with CoqLock():
            rc, out = sh(["make", "-C", os.path.join(TOOLS, "ocaml"), name], timeout=900)
        if rc != 0:
            raise BuildError("model driver %s does not build:\n%s" % (name, out[-3000:]))
        return os.path.join(TOOLS, "ocaml", "_build", name)

    def run_lines(self, cmd, stdin_text=None, timeout=600, env=None, cwd=None):
        rc, out, err = sh2(cmd, stdin=stdin_text.encode() if isinstance(stdin_text, str) else stdin_text,
                           timeout=timeout, env=env, cwd=cwd)
        return rc, out.decode("utf-8", "replace").split("\n"), err

    def tie_broken(self, name, detail):
        self.broken.append((name, detail))

    def violation(self, key, text, replay_obj):
        """A concrete failing input.  key identifies it for known_findings.txt."""
        for (p, k, what) in self.known:
            if p == self.pid and (k == key or (k.endswith("*") and key.startswith(k[:-1]))):
                if not any(kk == k for kk, _ in self.known_hits):
                    self.known_hits.append((k, what))
                return False
        if any(k == key for k, _, _ in self.violations):
            return True
        path = os.path.join(VERIF, "evidence", "replay", "%s-%s.json" % (self.pid, re.sub(r"[^A-Za-z0-9_.-]", "_", key)[:80]))
        json.dump(dict(property=self.pid, key=key, what=text, replay=replay_obj, seed=self.seed, tier=self.tier), open(path, "w"), indent=1, default=str)
        self.violations.append((key, text, path))
        return True

    def finish(self, level="proof", explanation=None):
        wall = time.time() - self.t0
        rc = 0
        for k, what in self.known_hits:
            print("KNOWN-FINDING: property=%s %s [key=%s]" % (self.pid, what, k))
        for key, text, path in self.violations:
            print("VIOLATION property=%s replay=%s  (%s)" % (self.pid, path, text[:300]))
            rc = 1
        if self.broken and not self.violations:
            # a tie or an obligation broke and the search found no failing input
            path = os.path.join(VERIF, "evidence", "replay", "%s-unproved.json" % self.pid)
            json.dump(dict(property=self.pid, no_longer_checks=[dict(name=n, detail=d) for n, d in self.broken],
                           seed=self.seed, tier=self.tier,
                           note="the property is no longer shown to hold; no concrete failing input was found by the search"),
                      open(path, "w"), indent=1)
            for n, d in self.broken[:5]:
                self.log("BROKEN:", n, "--", d[:400].replace("\n", " | "))
            print("VIOLATION property=%s replay=%s no-failing-input-found" % (self.pid, path))
            rc = 1
        elif self.broken:
            for n, d in self.broken[:5]:
                self.log("BROKEN (failing input found):", n, "--", d[:300].replace("\n", " | "))
        cov = dict(self.cov)
        cov["trusted_base"] = list(dict.fromkeys(TRUSTED_COMMON + cov.get("trusted_base", [])))
        if explanation:
            cov["explanation"] = explanation
        cov.update(self.notes)
        if not cov["samples"]:
            cov["samples"] = [{"note": "no case generated"}]
        ev = dict(property_id=self.pid, tier=self.tier, seed=self.seed, level=level, coverage=cov,
                  assumptions=self.assumptions, wall_s=round(wall, 2),
                  violations=len(self.violations) + (1 if (self.broken and not self.violations) else 0))
        ev["known_findings_reported"] = [k for k, _ in self.known_hits]
        json.dump(ev, open(os.path.join(VERIF, "evidence", "%s.json" % self.pid), "w"), indent=1, default=str)
        self.log("done in %.1fs: evaluations=%d distinct=%d obligations=%d/%d violations=%d known=%d" % (
            wall, cov["evaluations"], cov["distinct_nontrivial"], cov["discharged"], cov["obligations"],
            len(self.violations), len(self.known_hits)))
        self.cleanup()
        return rc

    def cleanup(self):
        shutil.rmtree(self.scratch, ignore_errors=True)


def diff_outputs(cases, impl_lines, model_lines):
    """Line-wise comparison; returns list of (index, case, impl, model)."""
    bad = []
    n = len(cases)
    il = [l for l in impl_lines if l != ""]
    ml = [l for l in model_lines if l != ""]
    for i in range(n):
        a = il[i] if i < len(il) else "<missing>"
        b = ml[i] if i < len(ml) else "<missing>"
        if a != b:
            bad.append((i, cases[i], a, b))
    return bad
