#!/usr/bin/env python3
"""Copy the `text` / `note` / `technique` suggestions of docs/Cnn.md ("Suggested MANIFEST entry") into the CLAIMED
table of tools/mkmanifest.py.  usage: docs2manifest.py Cnn [field ...]   (default: all three found)"""
import re, sys, os
here = os.path.dirname(os.path.dirname(os.path.abspath(__file__)))
pid = sys.argv[1]
want = sys.argv[2:] or ["text", "note", "technique"]
doc = open(os.path.join(here, "docs", pid + ".md")).read()
i = max(doc.rfind("Suggested MANIFEST"), doc.rfind("suggested MANIFEST"))
if i < 0:
    sys.exit("no suggestion section in docs/%s.md" % pid)
sec = doc[i:]
mk = os.path.join(here, "tools", "mkmanifest.py")
src = open(mk).read()
a = src.index('"%s": dict(' % pid)
b = src.index("\n \"C", a + 5) if src.find("\n \"C", a + 5) > 0 else len(src)
blk = src[a:b]
for f in want:
    m = re.search(r"\*\s*`%s`:\s*\"(.*?)\"\s*(?=\n\*|\n\n|\n#|\Z)" % f, sec, re.S)
    if not m:
        print("  %s: no suggestion" % f); continue
    val = re.sub(r"\s*\n\s*", " ", m.group(1)).strip().replace("\\", "\\\\").replace('"', "'")
    m2 = re.search(r'(\b%s=)"((?:[^"\\]|\\.)*)"' % f, blk)
    if not m2:
        print("  %s: field not in table" % f); continue
    blk = blk[:m2.start()] + m2.group(1) + '"' + val + '"' + blk[m2.end():]
    print("  %s: set (%d chars)" % (f, len(val)))
open(mk, "w").write(src[:a] + blk + src[b:])
