#!/bin/bash
# Independent confirmation of a seeded change: seeded/<id>/patch.diff compiles, the repository's 13 tests pass with
# it, and the demonstration fails with it and passes without it.  Usage: tools/seedverify.sh <dir under seeded/>
# Works in a scratch worktree under /tmp that is removed at the end.
set -u
ID=$1
SD=/verif/seeded/$ID
WT=/tmp/sv-$(echo $ID | tr '/' '-')-$$
git -C /repo worktree add -q $WT HEAD || exit 2
mkdir -p $WT/seed_out && cp -r $SD/* $WT/seed_out/
cd $WT
res() { echo "seedverify $ID: $*"; }
( cmake -G Ninja -B _build -S . >/dev/null 2>&1 && cmake --build _build >/dev/null 2>&1 ) || { res "BASE BUILD FAILED"; }
BASE_DEMO=$( (sh seed_out/demo_build.sh >/dev/null 2>&1; echo $?) )
git apply seed_out/patch.diff || { res "PATCH DOES NOT APPLY"; cd /; git -C /repo worktree remove --force $WT; exit 1; }
BUILD=$( (cmake --build _build >/dev/null 2>&1; echo $?) )
TESTS=$(ctest --test-dir _build -j8 --timeout 900 2>&1 | grep -E "tests passed|tests failed" | head -1)
rm -rf _buildmpi seed_out/_b* 2>/dev/null
MUT_DEMO=$( (sh seed_out/demo_build.sh >/dev/null 2>&1; echo $?) )
res "build_with_patch=$BUILD tests=[$TESTS] demo_without_patch_exit=$BASE_DEMO demo_with_patch_exit=$MUT_DEMO"
cd /
git -C /repo worktree remove --force $WT
