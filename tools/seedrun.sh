#!/bin/bash
# Runs the registered quick check(s) of a property against a seeded change without touching /repo or the
# working copy of /verif: a scratch copy of /repo's working tree gets seeded/<dir>/patch.diff applied, a scratch
# copy of /verif (with its compiled files) runs the check with VERIF_REPO pointing at the patched tree.
# Usage: tools/seedrun.sh <dir under seeded/> [property ids to run, default: the one in meta.json]
# Output: seeded/<dir>/check_<pid>.txt (verdict lines of the check's output).
set -u
ID=$1; shift
SD=/verif/seeded/$ID
PIDS="$*"
[ -n "$PIDS" ] || PIDS=$(python3 -c "import json;print(json.load(open('$SD/meta.json'))['property'])")
M=/var/tmp/mut-repo-$$
V=/var/tmp/mut-verif-$$
rsync -a --exclude _build --exclude .git /repo/ $M/ || exit 2
( cd $M && patch -p1 -s < $SD/patch.diff ) || { echo "patch does not apply"; rm -rf $M; exit 2; }
rsync -a --exclude .git --exclude evidence/replay --exclude seeded /verif/ $V/ || exit 2
cd $V
for p in $PIDS; do
  VERIF_REPO=$M timeout 3000 ./check $p --tier quick > /var/tmp/seedrun-$p-$$.log 2>&1
  rc=$?
  { echo "# ./check $p --tier quick with seeded/$ID/patch.diff applied: exit $rc"; grep -E "VIOLATION" /var/tmp/seedrun-$p-$$.log | sed "s|$V|/verif|g" | cut -c1-600 | head -8; grep -E "BROKEN|done in" /var/tmp/seedrun-$p-$$.log | cut -c1-600 | head -8; echo "# KNOWN-FINDING lines: $(grep -c KNOWN-FINDING /var/tmp/seedrun-$p-$$.log)"; } > $SD/check_$p.txt
  echo "seedrun $ID $p: exit $rc $(grep -c VIOLATION /var/tmp/seedrun-$p-$$.log) violation line(s)"
  rm -f /var/tmp/seedrun-$p-$$.log
done
cd /; rm -rf $M $V
