#!/bin/bash
# Runs the registered quick check(s) of a property against a seeded change without touching /repo:
# a scratch copy of /repo's working tree gets seeded/<dir>/patch.diff applied and the check is pointed at it
# with VERIF_REPO.  Usage: tools/seedrun.sh <dir under seeded/> [property ids to run, default: the one in meta.json]
# Output: seeded/<dir>/check_<pid>.txt (tail of the check's output).  Evidence files are restored afterwards and the
# translator output is regenerated from /repo.
set -u
ID=$1; shift
SD=/verif/seeded/$ID
PIDS="$*"
[ -n "$PIDS" ] || PIDS=$(python3 -c "import json;print(json.load(open('$SD/meta.json'))['property'])")
M=/var/tmp/mut-repo-$$
rsync -a --exclude _build --exclude .git /repo/ $M/ || exit 2
( cd $M && patch -p1 -s < $SD/patch.diff ) || { echo "patch does not apply"; rm -rf $M; exit 2; }
cd /verif
for p in $PIDS; do
  cp evidence/$p.json /var/tmp/ev-$p-$$.json 2>/dev/null
  VERIF_REPO=$M timeout 3000 ./check $p --tier quick > /var/tmp/seedrun-$p-$$.log 2>&1
  rc=$?
  { echo "# ./check $p --tier quick with seeded/$ID/patch.diff applied: exit $rc"; grep -E "VIOLATION" /var/tmp/seedrun-$p-$$.log | cut -c1-600 | head -8; grep -E "BROKEN|done in" /var/tmp/seedrun-$p-$$.log | cut -c1-600 | head -8; echo "# KNOWN-FINDING lines: $(grep -c KNOWN-FINDING /var/tmp/seedrun-$p-$$.log)"; } > $SD/check_$p.txt
  echo "seedrun $ID $p: exit $rc $(grep -c VIOLATION /var/tmp/seedrun-$p-$$.log) violation line(s)"
  [ -f /var/tmp/ev-$p-$$.json ] && mv /var/tmp/ev-$p-$$.json evidence/$p.json
  rm -f /var/tmp/seedrun-$p-$$.log
done
rm -rf $M
python3 tools/c2g/genall.py >/dev/null 2>&1
