(* C09 driver: runs the extracted container models on the case file (stdin).
   One case per line:  <container> <params...> | <op> <op> ...   (op fields separated by commas, numbers in hex)
   One result line per case: the results of the ops separated by " ; "; inside one result everything after " | "
   is information only (internal layout), everything before is judged by the check. *)
let h = hex_of_z
let hi i = Printf.sprintf "%x" i
let zi = z_of_int
let split_on c s = List.filter (fun x -> x <> "") (String.split_on_char c s)
let fields tok = match split_on ',' tok with [] -> ("", []) | o :: r -> (o, List.map z_of_hex r)
let rec firstn n l = if n <= 0 then [] else match l with [] -> [] | x :: t -> x :: firstn (n - 1) t
let bi b = if b then "1" else "0"
let nat_of_z x = nat_of_int (int_of_z x)

(* ---------------- hash table ---------------- *)
let run_hash params ops =
  let own, hm, ha, hb = match params with [a; b; c; d] -> (a <> Z0, b, c, d) | _ -> failwith "hash params" in
  let hf (k : z * z) : z =
    let id = fst k in
    let x = if int_of_z hm > 0 then Z.modulo id hm else id in
    Z.add (Z.mul x ha) hb in
  let eqb (a : z * z) (b : z * z) : bool = Z.eqb (fst a) (fst b) in
  let st = ref (hash_new own Z0) in
  let kv (k : z * z) = h (fst k) ^ "." ^ h (snd k) in
  let out = List.map (fun tok ->
    let (o, a) = fields tok in
    let arg i = List.nth a i in
    let stepop op = let (s', r) = step hf eqb !st op in st := s'; r in
    let cnt () = h (hcount !st) in
    match o with
    | "i" | "I" ->
      (match stepop (HInsert (arg 0, arg 1)) with
       | OIns (added, f) ->
         if o = "I" then Printf.sprintf "I %s %s" (bi added) (cnt ())
         else (match f with
             | Some k -> Printf.sprintf "i %s %s %s %s" (bi added) (h (fst k)) (h (snd k)) (cnt ())
             | None -> Printf.sprintf "i %s LOST %s" (bi added) (cnt ()))
       | _ -> "?")
    | "l" | "L" ->
      (match stepop (HLookup (arg 0, Z0)) with
       | OLook (Some k) -> if o = "L" then "L 1" else Printf.sprintf "l 1 %s %s" (h (fst k)) (h (snd k))
       | OLook None -> if o = "L" then "L 0" else "l 0"
       | _ -> "?")
    | "r" | "R" ->
      (match stepop (HRemove (arg 0, Z0)) with
       | ORem (Some k) -> if o = "R" then Printf.sprintf "R 1 %s" (cnt ()) else Printf.sprintf "r 1 %s %s %s" (h (fst k)) (h (snd k)) (cnt ())
       | ORem None -> if o = "R" then Printf.sprintf "R 0 %s" (cnt ()) else Printf.sprintf "r 0 %s" (cnt ())
       | _ -> "?")
    | "a" ->
      (match stepop (HAssign ((arg 0, Z0), (arg 0, arg 1))) with
       | OAsg b -> "a " ^ bi b
       | _ -> "?")
    | "f" ->
      (match stepop HForeach with
       | OList l -> String.concat " " ("f" :: hi (List.length l) :: List.map kv l)
       | _ -> "?")
    | "s" ->
      let m = max 1 (int_of_z (arg 0)) in
      let l = firstn m (elements !st) in
      String.concat " " ("s" :: hi (List.length l) :: List.map kv l)
    | "t" -> ignore (stepop HTruncate); "t " ^ cnt ()
    | "u" -> ignore (stepop HUnlink); "u " ^ cnt ()
    | "c" ->
      Printf.sprintf "c %s | %s %s %s %s" (cnt ()) (h (nslots !st)) (h (hchecks !st)) (h (hactions !st)) (h (hlinks !st))
    | _ -> "UNKNOWN_OP") ops in
  String.concat " ; " (out @ ["E 0"])

(* ---------------- memory stamps and pools ---------------- *)
let run_pool params ops =
  let kind, esz, unit_ = match params with [a; b; c] -> (int_of_z a, b, c) | _ -> failwith "pool params" in
  let st = ref (match kind with
      | 0 -> { ps_pool = { mp_esz = esz; mp_count = Z0; mp_zp = false; mp_ms = mstamp_init unit_ esz; mp_freed = [] };
               ps_live = []; ps_mem = [] }
      | 1 -> pstate_new esz false
      | _ -> pstate_new esz true) in
  let seen : ((z * z) * int) list ref = ref [] in
  let mcount = ref 0 in      (* a stamp container has no elem_count: harness and driver count successful allocations *)
  let out = List.map (fun tok ->
    let (o, a) = fields tok in
    let arg i = List.nth a i in
    let stepop op = let (s', r) = pstep !st op in st := s'; r in
    match o with
    | "a" ->
      (match stepop PAlloc with
       | OAlloc (None, _, _, _, _) -> "a null"
       | OAlloc (Some it, fresh, distinct, _, c0) ->
         incr mcount;
         let c = if kind = 0 then zi !mcount else c0 in
         let was = List.mem_assoc it !seen in
         let id = if was then List.assoc it !seen else (let n = List.length !seen in seen := (it, n) :: !seen; n) in
         let content = if kind = 2 then h (cget (ps_mem !st) it) else "-" in
         Printf.sprintf "a %s %s %s | %s %s" (bi distinct) (h c) content (bi was) (hi id)
       | _ -> "?")
    | "f" -> (match stepop (PFree (nat_of_z (arg 0))) with OFree c -> "f " ^ h c | _ -> "?")
    | "w" -> ignore (stepop (PWrite (nat_of_z (arg 0), arg 1))); "w"
    | "r" -> (match stepop (PRead (nat_of_z (arg 0))) with ORd v -> "r " ^ h v | _ -> "?")
    | "t" -> (match stepop PTruncate with OTr c -> seen := []; mcount := 0; "t " ^ h c | _ -> "?")
    | "c" -> (match stepop PCount with
        | OCn c -> let ms = (ps_pool !st).mp_ms in
          Printf.sprintf "c %s 1 | %s %s" (h (if kind = 0 then zi !mcount else c)) (h ms.ms_per) (h ms.ms_nst)
        | _ -> "?")
    | _ -> "UNKNOWN_OP") ops in
  String.concat " ; " (out @ ["E 0"])

(* ---------------- unique counter ---------------- *)
let run_uc params ops =
  let start = match params with [a] -> a | _ -> failwith "uc params" in
  let st = ref (uc_new start) in
  let out = List.map (fun tok ->
    let (o, a) = fields tok in
    let arg i = List.nth a i in
    match o with
    | "a" -> (match ustep !st UAdd with (s', Some v) -> st := s'; "a " ^ h v | (s', None) -> st := s'; "a ?")
    | "r" -> let (s', _) = ustep !st (URelease (nat_of_z (arg 0))) in st := s'; "r"
    | "v" -> String.concat " " ("v" :: List.map h (uc_values !st))
    | _ -> "UNKNOWN_OP") ops in
  String.concat " ; " (out @ ["E 0"])

(* ---------------- linked list ---------------- *)
let run_list params ops =
  let own, pre = match params with [a; b] -> (a <> Z0, int_of_z b) | _ -> failwith "list params" in
  (* the allocator: a pool of 16-byte links; `pre` items are already held by another user *)
  let pool = ref (mempool_new (zi 16) false) in
  if not own then for _ = 1 to pre do let ((p, _), _) = mempool_alloc !pool in pool := p done;
  let st = ref (list_new !pool) in
  let oz = function Some v -> h v | None -> "-" in
  let out = List.map (fun tok ->
    let (o, a) = fields tok in
    let arg i = List.nth a i in
    let stepop op = let (s', r) = lstep !st op in st := s'; r in
    let show c r = match r with
      | LO (ret, cnt, f, l) -> Printf.sprintf "%s %s %s %s %s | %s" c (h ret) (h cnt) (oz f) (oz l) (h (mp_count (l_pool !st)))
      | LList l -> String.concat " " (c :: hi (List.length l) :: List.map h l) in
    match o with
    | "p" -> show "p" (stepop (LPrepend (arg 0)))
    | "q" -> show "q" (stepop (LAppend (arg 0)))
    | "n" -> show "n" (stepop (LInsert (nat_of_z (arg 0), arg 1)))
    | "m" -> show "m" (stepop (LRemove (nat_of_z (arg 0))))
    | "o" -> show "o" (stepop LPop)
    | "x" -> show "x" (stepop LReset)
    | "u" -> show "u" (stepop LUnlink)
    | "d" -> show "d" (stepop LDump)
    | _ -> "UNKNOWN_OP") ops in
  String.concat " ; " (out @ ["E 0"])


(* ---------------- hash array ---------------- *)
let run_harr params ops =
  let rip, hm, ha, hb = match params with [a; b; c; d] -> (a <> Z0, b, c, d) | _ -> failwith "harr params" in
  let hf (k : z * z) : z =
    let id = fst k in
    let x = if int_of_z hm > 0 then Z.modulo id hm else id in
    Z.add (Z.mul x ha) hb in
  let eqb (a : z * z) (b : z * z) : bool = Z.eqb (fst a) (fst b) in
  let st = ref ha_new in
  let kv (k : z * z) = h (fst k) ^ "." ^ h (snd k) in
  let cnts () = h (zi (List.length (ha_arr !st))) ^ " " ^ h (hcount (ha_h !st)) in
  let out = List.map (fun tok ->
    let (o, a) = fields tok in
    let arg i = List.nth a i in
    let stepop op = let (s', r) = ha_step hf eqb !st op in st := s'; r in
    match o with
    | "i" | "I" ->
      (match stepop (AInsert (arg 0, arg 1)) with
       | AIns (added, pos) ->
         if o = "I" then Printf.sprintf "I %s %s" (bi added) (cnts ())
         else Printf.sprintf "i %s %s %s 1" (bi added) (h pos) (cnts ())
       | _ -> "?")
    | "l" | "L" ->
      (match stepop (ALookup (arg 0, Z0)) with
       | ALook (Some p) -> if o = "L" then "L 1" else "l 1 " ^ h p
       | ALook None -> if o = "L" then "L 0" else "l 0"
       | _ -> "?")
    | "f" -> (match stepop AForeach with AList l -> String.concat " " ("f" :: hi (List.length l) :: List.map h l) | _ -> "?")
    | "v" -> "v 1"
    | "d" -> let l = ha_arr !st in String.concat " " ("d" :: hi (List.length l) :: List.map kv l)
    | "t" -> ignore (stepop ATruncate); "t " ^ cnts ()
    | "c" -> let hh = ha_h !st in Printf.sprintf "c %s | %s %s %s" (cnts ()) (h (nslots hh)) (h (hchecks hh)) (h (hactions hh))
    | _ -> "UNKNOWN_OP") ops in
  let tail = if rip then (let l = ha_arr !st in [String.concat " " ("R" :: hi (List.length l) :: List.map kv l)]) else [] in
  String.concat " ; " (out @ tail @ ["E 0"])

(* ---------------- recycle array ---------------- *)
let run_rec params ops =
  let st = ref ra_init in
  let live : z list ref = ref [] in            (* live positions in insertion order *)
  let rec remove_nth k l = match l with [] -> [] | x :: t -> if k = 0 then t else x :: remove_nth (k - 1) t in
  let out = List.map (fun tok ->
    let (o, a) = fields tok in
    let arg i = List.nth a i in
    let stepop op = let (s', r) = rstep !st op in st := s'; r in
    let lens () = h (zi (List.length (ra_a !st))) ^ " " ^ h (zi (List.length (ra_f !st))) in
    match o with
    | "i" ->
      (match stepop (RInsert (Z0, arg 0)) with
       | RoIns (pos, c) ->
         let distinct = not (List.exists (fun q -> Z.eqb q pos) !live) in
         live := !live @ [pos];
         Printf.sprintf "i %s 1 %s | %s %s" (bi distinct) (h c) (h pos) (lens ())
       | _ -> "?")
    | "r" ->
      let k = int_of_z (arg 0) in
      let pos = List.nth !live k in
      live := remove_nth k !live;
      (match stepop (RRemove pos) with RoRem (v, c) -> Printf.sprintf "r %s 1 %s | %s" (h v) (h c) (h pos) | _ -> "?")
    | "w" -> ignore (stepop (RWrite (List.nth !live (int_of_z (arg 0)), arg 1))); "w"
    | "g" -> (match stepop (RRead (List.nth !live (int_of_z (arg 0)))) with RoRd v -> "g " ^ h v | _ -> "?")
    | "c" -> (match stepop RCount with RoCnt (c, sl, f) -> Printf.sprintf "c %s %s %s 1" (h c) (h sl) (h f) | _ -> "?")
    | "x" -> ignore (stepop RReset); live := []; "x " ^ h (ra_count !st)
    | _ -> "UNKNOWN_OP") ops in
  String.concat " ; " (out @ ["E 0"])

(* ---------------- key-value store ---------------- *)
let run_kv params ops =
  (* the theorems hold for every hash function on keys; iteration order and slot layout are not judged *)
  let hfk (k : z) : z = Z.modulo (Z.mul k (zi 40503)) (zi 65536) in
  let keq (a : z) (b : z) : bool = Z.eqb a b in
  let st = ref kv_new in
  let out = List.map (fun tok ->
    let (o, a) = fields tok in
    let arg i = List.nth a i in
    let stepop op = let (s', r) = kstep hfk keq !st op in st := s'; r in
    match o with
    | "P" -> ignore (stepop (KPut (arg 0, arg 1, arg 2))); "P"
    | "S" -> ignore (stepop (KSet (arg 0, arg 1, arg 2))); "S"
    | "G" -> (match stepop (KGet (arg 0, arg 1, arg 2)) with KoVal v -> "G " ^ h v | _ -> "?")
    | "K" -> (match stepop (KGetIntCheck (arg 0, arg 1)) with KoChk (v, e) -> Printf.sprintf "K %s %s" (h v) (h e) | _ -> "?")
    | "E" -> (match stepop (KExists (arg 0)) with KoType t -> "E " ^ h t | _ -> "?")
    | "U" -> (match stepop (KUnset (arg 0)) with KoType t -> "U " ^ h t | _ -> "?")
    | "F" -> (match stepop KForeach with
        | KoList l -> String.concat " " ("F" :: hi (List.length l) :: List.map (fun e -> Printf.sprintf "%s:%s:%s" (h e.e_key) (h e.e_type) (h e.e_val)) l)
        | _ -> "?")
    | "C" -> (match stepop KCount with
        | KoCnt (c, p) -> let hh = kv_hash !st in Printf.sprintf "C %s %s | %s %s %s" (h c) (h p) (h (nslots hh)) (h (hchecks hh)) (h (hactions hh))
        | _ -> "?")
    | _ -> "UNKNOWN_OP") ops in
  String.concat " ; " (out @ ["E 0"])

(* ---------------- AVL tree ---------------- *)
let run_avl params ops =
  let mode, withfree = match params with [a; b] -> (int_of_z a, b <> Z0) | _ -> failwith "avl params" in
  let sgn x = match x with Z0 -> Z0 | Zpos _ -> zi 1 | Zneg _ -> zi (-1) in
  let cmp (a : z * z) (b : z * z) : z =
    let x = fst a and y = fst b in
    match mode with
    | 1 -> Z.sub y x
    | 2 -> Z.sub (Z.div x (zi 4)) (Z.div y (zi 4))
    | 3 -> sgn (Z.sub x y)
    | _ -> Z.sub x y in
  let st = ref avl_new in
  let det : (z * z) nobj list ref = ref [] in
  let freed = ref 0 in
  let kt (k : z * z) = h (fst k) ^ "." ^ h (snd k) in
  let ok = function Some k -> kt k | None -> "-" in
  let rec height t = match t with E -> 0 | N (l, _, _, r) -> 1 + max (height l) (height r) in
  let size () = List.length (inorder (a_top !st)) in
  let out = List.map (fun tok ->
    let (o, a) = fields tok in
    let arg i = if i < List.length a then List.nth a i else Z0 in
    let xop op = let ((s', d'), r) = xstep cmp (!st, !det) op in st := s'; det := d'; r in
    let stepop op = xop (XBase op) in
    let count () = h (cnt (a_top !st)) in
    let lst c r = match r with VoList l -> String.concat " " (c :: hi (List.length l) :: List.map kt l) | _ -> "?" in
    match o with
    | "i" -> (match stepop (VInsert (arg 0, arg 1)) with VoBool b -> Printf.sprintf "i %s %s" (bi b) (count ()) | _ -> "?")
    | "d" -> (match stepop (VDelete (arg 0, Z0)) with
        | VoItem (Some k) -> incr freed; Printf.sprintf "d 1 %s %s" (kt k) (count ())
        | VoItem None -> "d 0 " ^ count ()
        | _ -> "?")
    | "s" -> (match stepop (VSearch (arg 0, Z0)) with VoItem (Some k) -> "s 1 " ^ kt k | VoItem None -> "s 0" | _ -> "?")
    | "n" -> (match stepop (VClosest (arg 0, Z0)) with
        | VoClosest (Some (k, sg)) -> Printf.sprintf "n | %s %s" (h sg) (kt k)
        | VoClosest None -> "n | none"
        | _ -> "?")
    | "a" -> (match stepop (VAt (arg 0)) with VoItem o -> "a " ^ ok o | _ -> "?")
    | "x" -> (match stepop (VIndex (arg 0, Z0)) with VoIdx (Some i) -> "x " ^ h i | VoIdx None -> "x -" | _ -> "?")
    | "c" -> (match stepop VCount with
        | VoCnt c -> let t = a_top !st in
          Printf.sprintf "c %s 1 | %s %s" (h c) (match t with N (_, k, _, _) -> h (fst k) | E -> "0") (hi (height t))
        | _ -> "?")
    | "f" -> lst "f" (stepop VForeach)
    | "A" -> lst "A" (stepop VForeach)
    | "t" -> lst "t" (stepop VThread)
    | "b" -> lst "b" (stepop VThreadRev)
    | "e" -> (match stepop VEnds with VoEnds (f, l) -> Printf.sprintf "e %s %s" (ok f) (ok l) | _ -> "?")
    | "z" -> freed := !freed + size (); ignore (stepop VClear); "z " ^ count ()
    | "y" -> ignore (stepop VClear); "y " ^ count ()                  (* avl_clear_tree: freeitem is not called *)
    | "U" -> (match xop (XUnlink (arg 0, Z0)) with
        | VoItem (Some k) -> Printf.sprintf "U 1 %s %s" (kt k) (count ())
        | VoItem None -> "U 0 " ^ count ()
        | _ -> "?")
    | "R" -> (match xop (XRelink (nat_of_z (arg 0), (arg 1, arg 2))) with
        | VoBool b -> Printf.sprintf "R %s %s" (bi b) (count ())
        | VoUnit -> "R -"
        | _ -> "?")
    | _ -> "UNKNOWN_OP") ops in
  freed := !freed + size ();
  String.concat " ; " (out @ [Printf.sprintf "Z %s" (hi (if withfree then !freed else 0)); "E 0"])

(* ---------------- AVL tree as a sequence (positions chosen by the caller) ---------------- *)
let run_aseq params ops =
  let withfree = match params with [b] -> b <> Z0 | _ -> failwith "aseq params" in
  let st = ref avl_new in
  let det : (z * z) nobj list ref = ref [] in
  let freed = ref 0 in
  let kt (k : z * z) = h (fst k) ^ "." ^ h (snd k) in
  let ok = function Some k -> kt k | None -> "-" in
  let rec height t = match t with E -> 0 | N (l, _, _, r) -> 1 + max (height l) (height r) in
  let size () = List.length (inorder (a_top !st)) in
  let out = List.map (fun tok ->
    let (o, a) = fields tok in
    let arg i = if i < List.length a then List.nth a i else Z0 in
    let eop op = let ((s', d'), r) = estep (!st, !det) op in st := s'; det := d'; r in
    let stepop op = eop (EBase op) in
    let count () = h (cnt (a_top !st)) in
    let lst c r = match r with QoList l -> String.concat " " (c :: hi (List.length l) :: List.map kt l) | _ -> "?" in
    match o with
    | "P" -> (match stepop (QInsBefore (arg 0, (arg 1, arg 2))) with QoCnt c -> "P " ^ h c | _ -> "?")
    | "N" -> (match stepop (QInsAfter (arg 0, (arg 1, arg 2))) with QoCnt c -> "N " ^ h c | _ -> "?")
    | "D" -> (match stepop (QDeleteAt (arg 0)) with
        | QoItem (Some k) -> incr freed; Printf.sprintf "D 1 %s %s" (kt k) (count ())
        | QoItem None -> "D 0 " ^ count ()
        | _ -> "?")
    | "a" -> (match stepop (QAt (arg 0)) with QoItem o -> "a " ^ ok o | _ -> "?")
    | "x" -> (match stepop (QIndexAt (arg 0)) with QoIdx (Some i) -> "x " ^ h i | QoIdx None -> "x -" | _ -> "?")
    | "c" -> (match stepop QCount with
        | QoCnt c -> let t = a_top !st in
          Printf.sprintf "c %s 1 | %s %s" (h c) (match t with N (_, k, _, _) -> h (fst k) | E -> "0") (hi (height t))
        | _ -> "?")
    | "f" -> lst "f" (stepop QForeach)
    | "t" -> lst "t" (stepop QThread)
    | "b" -> lst "b" (stepop QThreadRev)
    | "e" -> (match stepop QEnds with QoEnds (f, l) -> Printf.sprintf "e %s %s" (ok f) (ok l) | _ -> "?")
    | "z" -> freed := !freed + size (); ignore (stepop QClear); "z " ^ count ()
    | "y" -> ignore (stepop QClear); "y " ^ count ()
    | "K" -> (match eop (EUnlinkAt (arg 0)) with
        | QoItem (Some k) -> Printf.sprintf "K 1 %s %s" (kt k) (count ())
        | QoItem None -> "K 0 " ^ count ()
        | _ -> "?")
    | "Q" -> (match eop (ERelinkBefore (arg 0, nat_of_z (arg 1), (arg 2, arg 3))) with QoCnt c -> "Q " ^ h c | QoUnit -> "Q -" | _ -> "?")
    | "W" -> (match eop (ERelinkAfter (arg 0, nat_of_z (arg 1), (arg 2, arg 3))) with QoCnt c -> "W " ^ h c | QoUnit -> "W -" | _ -> "?")
    | _ -> "UNKNOWN_OP") ops in
  freed := !freed + size ();
  String.concat " ; " (out @ [Printf.sprintf "Z %s" (hi (if withfree then !freed else 0)); "E 0"])

(* ---------------- two lists sharing one allocator ---------------- *)
let run_mlist params ops =
  let pre = match params with [b] -> int_of_z b | _ -> failwith "mlist params" in
  let pool = ref (mempool_new (zi 16) false) in
  for _ = 1 to pre do let ((p, _), _) = mempool_alloc !pool in pool := p done;
  let st = ref (sh_new !pool) in
  let oz = function Some v -> h v | None -> "-" in
  let out = List.map (fun tok ->
    let (o, a) = fields tok in
    let arg i = List.nth a i in
    let w = arg 0 <> Z0 in
    let stepop op = let (s', r) = sh_step !st w op in st := s'; r in
    let show c r = match r with
      | LO (ret, cnt, f, l) -> Printf.sprintf "%s %s %s %s %s | %s" c (h ret) (h cnt) (oz f) (oz l) (h (mp_count (sh_pool !st)))
      | LList l -> String.concat " " (c :: hi (List.length l) :: List.map h l) in
    match o with
    | "p" -> show "p" (stepop (LPrepend (arg 1)))
    | "q" -> show "q" (stepop (LAppend (arg 1)))
    | "n" -> show "n" (stepop (LInsert (nat_of_z (arg 1), arg 2)))
    | "m" -> show "m" (stepop (LRemove (nat_of_z (arg 1))))
    | "o" -> show "o" (stepop LPop)
    | "x" -> show "x" (stepop LReset)
    | "u" -> show "u" (stepop LUnlink)
    | "d" -> show "d" (stepop LDump)
    | _ -> "UNKNOWN_OP") ops in
  String.concat " ; " (out @ ["E 0"])

let () = iter_lines (fun line ->
  match String.index_opt line '|' with
  | None -> if String.trim line <> "" then print_endline "BAD_CASE"
  | Some i ->
    let head = words (String.sub line 0 i) in
    let ops = words (String.sub line (i + 1) (String.length line - i - 1)) in
    (match head with
     | [] -> print_endline "BAD_CASE"
     | c :: ps ->
       let params = List.map z_of_hex ps in
       let out = try (match c with
           | "hash" -> run_hash params ops
           | "pool" -> run_pool params ops
           | "uc" -> run_uc params ops
           | "list" -> run_list params ops
           | "harr" -> run_harr params ops
           | "rec" -> run_rec params ops
           | "kv" -> run_kv params ops
           | "avl" -> run_avl params ops
           | "aseq" -> run_aseq params ops
           | "mlist" -> run_mlist params ops
           | _ -> "UNKNOWN_CONTAINER")
         with Failure m -> "MODEL_FAILURE " ^ m | Not_found -> "MODEL_FAILURE not_found" | Invalid_argument m -> "MODEL_FAILURE " ^ m in
       print_endline out))
