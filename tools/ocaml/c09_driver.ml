(* C09 driver: runs the extracted container models on the case file (stdin).
   One case per line:  <container> <params...> | <op> <op> ...   (op fields separated by commas, numbers in hex)
   One result line per case: the results of the ops separated by " ; "; inside one result everything after " | "
   is information only (internal layout), everything before is judged by the check. *)
let h = hex_of_z
let hi i = Printf.sprintf "%x" i
let zi = z_of_int
let split_on c s = List.filter (fun x -> x <> "") (String.split_on_char c s)
let fields tok = match split_on ',' tok with [] -> ("", []) | o :: r -> (o, List.map z_of_hex r)
let rec firstn n l = if n <= 0 then [] else match l with [] -> [] | x :: t -> x :: firstn (n - 1) t
let bi b = if b then "1" else "0"
let nat_of_z x = nat_of_int (int_of_z x)

(* ---------------- hash table ---------------- *)
let run_hash params ops =
  let own, hm, ha, hb = match params with [a; b; c; d] -> (a <> Z0, b, c, d) | _ -> failwith "hash params" in
  let hf (k : z * z) : z =
    let id = fst k in
    let x = if int_of_z hm > 0 then Z.modulo id hm else id in
    Z.add (Z.mul x ha) hb in
  let eqb (a : z * z) (b : z * z) : bool = Z.eqb (fst a) (fst b) in
  let st = ref (hash_new own Z0) in
  let kv (k : z * z) = h (fst k) ^ "." ^ h (snd k) in
  let out = List.map (fun tok ->
    let (o, a) = fields tok in
    let arg i = List.nth a i in
    let stepop op = let (s', r) = step hf eqb !st op in st := s'; r in
    let cnt () = h (hcount !st) in
    match o with
    | "i" | "I" ->
      (match stepop (HInsert (arg 0, arg 1)) with
       | OIns (added, f) ->
         if o = "I" then Printf.sprintf "I %s %s" (bi added) (cnt ())
         else (match f with
             | Some k -> Printf.sprintf "i %s %s %s %s" (bi added) (h (fst k)) (h (snd k)) (cnt ())
             | None -> Printf.sprintf "i %s LOST %s" (bi added) (cnt ()))
       | _ -> "?")
    | "l" | "L" ->
      (match stepop (HLookup (arg 0, Z0)) with
       | OLook (Some k) -> if o = "L" then "L 1" else Printf.sprintf "l 1 %s %s" (h (fst k)) (h (snd k))
       | OLook None -> if o = "L" then "L 0" else "l 0"
       | _ -> "?")
    | "r" | "R" ->
      (match stepop (HRemove (arg 0, Z0)) with
       | ORem (Some k) -> if o = "R" then Printf.sprintf "R 1 %s" (cnt ()) else Printf.sprintf "r 1 %s %s %s" (h (fst k)) (h (snd k)) (cnt ())
       | ORem None -> if o = "R" then Printf.sprintf "R 0 %s" (cnt ()) else Printf.sprintf "r 0 %s" (cnt ())
       | _ -> "?")
    | "a" ->
      (match stepop (HAssign ((arg 0, Z0), (arg 0, arg 1))) with
       | OAsg b -> "a " ^ bi b
       | _ -> "?")
    | "f" ->
      (match stepop HForeach with
       | OList l -> String.concat " " ("f" :: hi (List.length l) :: List.map kv l)
       | _ -> "?")
    | "s" ->
      let m = max 1 (int_of_z (arg 0)) in
      let l = firstn m (elements !st) in
      String.concat " " ("s" :: hi (List.length l) :: List.map kv l)
    | "t" -> ignore (stepop HTruncate); "t " ^ cnt ()
    | "u" -> ignore (stepop HUnlink); "u " ^ cnt ()
    | "c" ->
      Printf.sprintf "c %s | %s %s %s %s" (cnt ()) (h (nslots !st)) (h (hchecks !st)) (h (hactions !st)) (h (hlinks !st))
    | _ -> "UNKNOWN_OP") ops in
  String.concat " ; " (out @ ["E 0"])

(* ---------------- memory stamps and pools ---------------- *)
let run_pool params ops =
  let kind, esz, unit_ = match params with [a; b; c] -> (int_of_z a, b, c) | _ -> failwith "pool params" in
  let st = ref (match kind with
      | 0 -> { ps_pool = { mp_esz = esz; mp_count = Z0; mp_zp = false; mp_ms = mstamp_init unit_ esz; mp_freed = [] };
               ps_live = []; ps_mem = [] }
      | 1 -> pstate_new esz false
      | _ -> pstate_new esz true) in
  let seen : ((z * z) * int) list ref = ref [] in
  let mcount = ref 0 in      (* a stamp container has no elem_count: harness and driver count successful allocations *)
  let out = List.map (fun tok ->
    let (o, a) = fields tok in
    let arg i = List.nth a i in
    let stepop op = let (s', r) = pstep !st op in st := s'; r in
    match o with
    | "a" ->
      (match stepop PAlloc with
       | OAlloc (None, _, _, _, _) -> "a null"
       | OAlloc (Some it, fresh, distinct, _, c0) ->
         incr mcount;
         let c = if kind = 0 then zi !mcount else c0 in
         let was = List.mem_assoc it !seen in
         let id = if was then List.assoc it !seen else (let n = List.length !seen in seen := (it, n) :: !seen; n) in
         let content = if kind = 2 then h (cget (ps_mem !st) it) else "-" in
         Printf.sprintf "a %s %s %s | %s %s" (bi distinct) (h c) content (bi was) (hi id)
       | _ -> "?")
    | "f" -> (match stepop (PFree (nat_of_z (arg 0))) with OFree c -> "f " ^ h c | _ -> "?")
    | "w" -> ignore (stepop (PWrite (nat_of_z (arg 0), arg 1))); "w"
    | "r" -> (match stepop (PRead (nat_of_z (arg 0))) with ORd v -> "r " ^ h v | _ -> "?")
    | "t" -> (match stepop PTruncate with OTr c -> seen := []; mcount := 0; "t " ^ h c | _ -> "?")
    | "c" -> (match stepop PCount with
        | OCn c -> let ms = (ps_pool !st).mp_ms in
          Printf.sprintf "c %s 1 | %s %s" (h (if kind = 0 then zi !mcount else c)) (h ms.ms_per) (h ms.ms_nst)
        | _ -> "?")
    | _ -> "UNKNOWN_OP") ops in
  String.concat " ; " (out @ ["E 0"])

(* ---------------- unique counter ---------------- *)
let run_uc params ops =
  let start = match params with [a] -> a | _ -> failwith "uc params" in
  let st = ref (uc_new start) in
  let out = List.map (fun tok ->
    let (o, a) = fields tok in
    let arg i = List.nth a i in
    match o with
    | "a" -> (match ustep !st UAdd with (s', Some v) -> st := s'; "a " ^ h v | (s', None) -> st := s'; "a ?")
    | "r" -> let (s', _) = ustep !st (URelease (nat_of_z (arg 0))) in st := s'; "r"
    | "v" -> String.concat " " ("v" :: List.map h (uc_values !st))
    | _ -> "UNKNOWN_OP") ops in
  String.concat " ; " (out @ ["E 0"])

(* ---------------- linked list ---------------- *)
let run_list params ops =
  let own, pre = match params with [a; b] -> (a <> Z0, int_of_z b) | _ -> failwith "list params" in
  (* the allocator: a pool of 16-byte links; `pre` items are already held by another user *)
  let pool = ref (mempool_new (zi 16) false) in
  if not own then for _ = 1 to pre do let ((p, _), _) = mempool_alloc !pool in pool := p done;
  let st = ref (list_new !pool) in
  let oz = function Some v -> h v | None -> "-" in
  let out = List.map (fun tok ->
    let (o, a) = fields tok in
    let arg i = List.nth a i in
    let stepop op = let (s', r) = lstep !st op in st := s'; r in
    let show c r = match r with
      | LO (ret, cnt, f, l) -> Printf.sprintf "%s %s %s %s %s | %s" c (h ret) (h cnt) (oz f) (oz l) (h (mp_count (l_pool !st)))
      | LList l -> String.concat " " (c :: hi (List.length l) :: List.map h l) in
    match o with
    | "p" -> show "p" (stepop (LPrepend (arg 0)))
    | "q" -> show "q" (stepop (LAppend (arg 0)))
    | "n" -> show "n" (stepop (LInsert (nat_of_z (arg 0), arg 1)))
    | "m" -> show "m" (stepop (LRemove (nat_of_z (arg 0))))
    | "o" -> show "o" (stepop LPop)
    | "x" -> show "x" (stepop LReset)
    | "u" -> show "u" (stepop LUnlink)
    | "d" -> show "d" (stepop LDump)
    | _ -> "UNKNOWN_OP") ops in
  String.concat " ; " (out @ ["E 0"])

let () = iter_lines (fun line ->
  match String.index_opt line '|' with
  | None -> if String.trim line <> "" then print_endline "BAD_CASE"
  | Some i ->
    let head = words (String.sub line 0 i) in
    let ops = words (String.sub line (i + 1) (String.length line - i - 1)) in
    (match head with
     | [] -> print_endline "BAD_CASE"
     | c :: ps ->
       let params = List.map z_of_hex ps in
       let out = try (match c with
           | "hash" -> run_hash params ops
           | "pool" -> run_pool params ops
           | "uc" -> run_uc params ops
           | "list" -> run_list params ops
           | _ -> "UNKNOWN_CONTAINER")
         with Failure m -> "MODEL_FAILURE " ^ m | Not_found -> "MODEL_FAILURE not_found" | Invalid_argument m -> "MODEL_FAILURE " ^ m in
       print_endline out))
