(* C16 model driver: evaluates the extracted stubs of the serial MPI emulation on the case file (argv.(1) or
   stdin) and prints what tools/harness/c16_driver.c prints when linked to the serial libsc. *)
let rec int_of_pos p = match p with XH -> 1 | XO q -> 2 * int_of_pos q | XI q -> 2 * int_of_pos q + 1
let iz = function Z0 -> 0 | Zpos p -> int_of_pos p | Zneg p -> - (int_of_pos p)
let ztab = Array.init 256 z_of_int
let zi i = if i >= 0 && i < 256 then ztab.(i) else z_of_int i
let sent = 0xEE

let dt = function
  | "BYTE" -> h_MPI_BYTE | "CHAR" -> h_MPI_CHAR | "UNSIGNED_CHAR" -> h_MPI_UNSIGNED_CHAR | "SHORT" -> h_MPI_SHORT
  | "UNSIGNED_SHORT" -> h_MPI_UNSIGNED_SHORT | "INT" -> h_MPI_INT | "UNSIGNED" -> h_MPI_UNSIGNED | "LONG" -> h_MPI_LONG
  | "UNSIGNED_LONG" -> h_MPI_UNSIGNED_LONG | "LONG_LONG_INT" -> h_MPI_LONG_LONG_INT | "FLOAT" -> h_MPI_FLOAT
  | "DOUBLE" -> h_MPI_DOUBLE | "LONG_DOUBLE" -> h_MPI_LONG_DOUBLE | "2INT" -> h_MPI_2INT | "DOUBLE_INT" -> h_MPI_DOUBLE_INT
  | s -> failwith ("bad datatype " ^ s)

let parse_hex s = if s = "-" then [] else List.init (String.length s / 2) (fun i -> zi (int_of_string ("0x" ^ String.sub s (2 * i) 2)))
let sentbuf n = List.init n (fun _ -> zi sent)
let dump l = if l = [] then "." else String.concat "" (List.map (fun x -> Printf.sprintf "%02x" (iz x)) l)
let prc rc = if iz rc = iz h_MPI_SUCCESS then "0" else "E"
let pbuf = function Some l -> dump l | None -> "OOB"
let pint = function Some v -> if iz v = iz h_MPI_UNDEFINED then "UNDEF" else string_of_int (iz v) | None -> "UNSET"
let ior a b = if iz a = 0 && iz b = 0 then a else (if iz a = 0 then b else a)
let geti = function Some v -> v | None -> zi 0

let run toks =
  let i k = int_of_string (List.nth toks k) and s k = List.nth toks k in
  match List.hd toks with
  | "gather" | "allgather" | "alltoall" ->
    let f = (match s 0 with "gather" -> sc_gather | "allgather" -> sc_allgather | _ -> sc_alltoall) in
    let (rc, r) = f (parse_hex (s 3)) (zi (i 2)) (dt (s 1)) (sentbuf (i 4)) (zi (i 2)) (dt (s 1)) in
    prc rc ^ " " ^ pbuf r
  | "gatherv" | "allgatherv" ->
    let f = (if s 0 = "gatherv" then sc_gatherv else sc_allgatherv) in
    let (rc, r) = f (parse_hex (s 4)) (zi (i 2)) (dt (s 1)) (sentbuf (i 5)) (zi (i 2)) (zi (i 3)) (dt (s 1)) in
    prc rc ^ " " ^ pbuf r
  | "gathervx" | "allgathervx" ->
    let f = (if s 0 = "gathervx" then sc_gatherv else sc_allgatherv) in
    let (rc, r) = f (parse_hex (s 6)) (zi (i 2)) (dt (s 1)) (sentbuf (i 7)) (zi (i 4)) (zi (i 5)) (dt (s 3)) in
    prc rc ^ " " ^ pbuf r
  | "gatherx" | "allgatherx" | "alltoallx" ->
    let f = (match s 0 with "gatherx" -> sc_gather | "allgatherx" -> sc_allgather | _ -> sc_alltoall) in
    let (rc, r) = f (parse_hex (s 5)) (zi (i 2)) (dt (s 1)) (sentbuf (i 6)) (zi (i 4)) (dt (s 3)) in
    prc rc ^ " " ^ pbuf r
  | "reduce" | "allreduce" | "reduce_scatter_block" | "scan" | "exscan" ->
    let f = (match s 0 with "reduce" -> sc_reduce | "allreduce" -> sc_allreduce | "reduce_scatter_block" -> sc_reduce_scatter_block
                          | "scan" -> sc_scan | _ -> sc_exscan) in
    let (rc, r) = f (parse_hex (s 4)) (sentbuf (i 5)) (zi (i 3)) (dt (s 2)) (zi 0) in
    prc rc ^ " " ^ pbuf r
  | "bcast" -> let (rc, r) = sc_bcast (parse_hex (s 3)) (zi (i 2)) (dt (s 1)) in prc rc ^ " " ^ pbuf r
  | "barrier" -> prc sc_barrier
  | "pack" ->
    let ((rc, o), pos) = sc_pack (parse_hex (s 5)) (zi (i 2)) (dt (s 1)) (sentbuf (i 3)) (zi (i 3)) (zi (i 4)) in
    Printf.sprintf "%s %d %s" (prc rc) (iz pos) (pbuf o)
  | "unpack" ->
    let inb = parse_hex (s 4) in
    let ((rc, o), pos) = sc_unpack inb (zi (List.length inb)) (zi (i 3)) (sentbuf (i 5)) (zi (i 2)) (dt (s 1)) in
    Printf.sprintf "%s %d %s" (prc rc) (iz pos) (pbuf o)
  | "packbig" | "unpackbig" ->
    (* T count limit position: buffers too large for lists; code and position only (Pack and Unpack share the arithmetic) *)
    let ((rc, pos), _) = sc_pack_codes (zi (i 2)) (dt (s 1)) (z_of_int (i 3)) (z_of_int (i 4)) in
    Printf.sprintf "%s %d" (prc rc) (iz pos)
  | "packsize" -> let (rc, v) = sc_pack_size (zi (i 2)) (dt (s 1)) in prc rc ^ " " ^ pint v
  | "typesize" -> let (rc, v) = sc_type_size (dt (s 1)) in prc rc ^ " " ^ pint v
  | "sizeof" -> string_of_int (iz (sc_mpi_sizeof (dt (s 1))))
  | "comm" ->
    let w = h_MPI_COMM_WORLD in
    let (r1, size) = sc_comm_size w and (r2, rank) = sc_comm_rank w in
    let (r3, dup) = sc_comm_dup w in
    let (r4, dsize) = sc_comm_size (geti dup) and (r5, drank) = sc_comm_rank (geti dup) in
    let (r6, spl) = sc_comm_split w (zi (i 1)) (zi (i 2)) in
    let (r7, ssize) = sc_comm_size (geti spl) and (r8, srank) = sc_comm_rank (geti spl) in
    let valid = iz (geti dup) <> iz h_MPI_COMM_NULL && iz (geti spl) <> iz h_MPI_COMM_NULL in
    let (r9, spl') = sc_comm_free (geti spl) and (r10, dup') = sc_comm_free (geti dup) in
    let rc = List.fold_left ior (zi 0) [r1; r2; r3; r4; r5; r6; r7; r8; r9; r10] in
    Printf.sprintf "%s %s %s %s %s %s %s %s %s" (if valid then "valid" else "NULLCOMM") (prc rc) (pint size) (pint rank) (pint dsize) (pint drank)
      (pint ssize) (pint srank) (if iz (geti spl') = iz h_MPI_COMM_NULL && iz (geti dup') = iz h_MPI_COMM_NULL then "freed" else "NOTNULL")
  | "group" ->
    let (r1, g) = sc_comm_group h_MPI_COMM_WORLD in
    let (r2, size) = sc_group_size (geti g) and (r3, rank) = sc_group_rank (geti g) in
    let (r4, g') = sc_group_free (geti g) in
    Printf.sprintf "%s %s %s %s" (prc (List.fold_left ior (zi 0) [r1; r2; r3; r4])) (pint size) (pint rank)
      (if iz (geti g') = iz h_MPI_GROUP_NULL then "freed" else "NOTNULL")
  | "wait" | "waitall" | "testall" | "waitsome" ->
    let n = i 1 and ws = i 2 in
    let reqs = List.init n (fun _ -> h_MPI_REQUEST_NULL) in
    let st = " st=" ^ (if ws <> 0 then "untouched" else "ignored") in
    (match s 0 with
     | "wait" -> (match sc_wait h_MPI_REQUEST_NULL with Some rc -> prc rc ^ st | None -> "ABORT")
     | "waitall" -> (match sc_waitall reqs with Some rc -> prc rc ^ st | None -> "ABORT")
     | "testall" -> (match sc_testall reqs with Some (rc, f) -> prc rc ^ " " ^ pint f ^ st | None -> "ABORT")
     | _ -> (match sc_waitsome reqs with Some (rc, c) -> prc rc ^ " " ^ pint c ^ st | None -> "ABORT"))
  | "wtime" -> "monotone"
  | "errclass" ->
    (* the named codes are exactly `known_codes`, in the order of the list in checks/C16.py *)
    let code = List.nth known_codes (i 2) in
    let (rc, cls) = sc_error_class code in
    prc rc ^ " " ^ (match cls with Some c -> if iz c = iz code then "same" else "OTHER" | None -> "UNSET")
  | "errstring" -> "0 text"
  | "errtext" ->
    let code = List.nth known_codes (i 2) in
    let ((rc, txt), n) = sc_error_string code in
    prc rc ^ " " ^ (match n with Some v -> string_of_int (iz v) | None -> "UNSET") ^ " " ^ (match txt with Some l -> dump l | None -> ".")
  | "errclassx" ->
    let (rc, cls) = sc_error_class (zi (i 1)) in
    prc rc ^ " " ^ (match cls with Some c -> if iz c = iz h_MPI_ERR_UNKNOWN then "-1" else string_of_int (iz c) | None -> "UNSET")
  | "errtextx" ->
    let ((rc, txt), n) = sc_error_string (zi (i 1)) in
    prc rc ^ " " ^ (match n with Some v -> string_of_int (iz v) | None -> "UNSET") ^ " " ^ (match txt with Some l -> dump l | None -> ".")
  | _ -> "UNKNOWN_CASE"

let () =
  let ic = if Array.length Sys.argv > 1 then open_in Sys.argv.(1) else stdin in
  let (rc, prov) = sc_init_thread in
  print_endline ("init " ^ prc rc ^ " " ^ (match prov with Some _ -> "set" | None -> "UNSET"));
  (try while true do
       let line = input_line ic in
       match words line with [] -> () | toks -> print_endline (run toks)
     done with End_of_file -> ());
  print_endline "finalize 0"
