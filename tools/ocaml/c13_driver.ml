(* C13 driver.  Three kinds of lines.
   (1) records of the ranks 0..P-1 as 7 hex integers each (what sc_stats_compute packed, taken from the trace of the real
       code), separated by ';'.  Output: the left fold in rank order (inout = record of the next rank ... any tree gives
       the same by theorem C13_all_trees_agree) and the fold in reverse order, as 7 integers each.
   (2) `H <P> <rounds> r0q0 ; r0q1 ; .. ; r1q0 ; ..` - the history of ONE variable: for every round and rank (rank fastest)
       the calls of that rank as tokens I (init) R (reset) S<hex> (set1) A<hex> (accumulate) P (loop body of compute1), each round
       ending with the collective compute.  Output: for every round and rank
       `dirty count sum sumsq min max min_at max_at avg_num avg_den`, separated by ';' (state machine hist_exec of VarModel.v,
       starting from zeroed structures).
   (3) `N tok tok ..` - the naming part of one variable on one rank: i<copy>,<group>,<prio> (init_ext / set1_ext) or r<vgp> (reset);
       `.` marks the end of a round.  Output per round: `owned hasname group prio frees` (frees = number of sc_free calls so far). *)
let rec_of ws = match List.map z_of_hex ws with
  | [a; b; c; d; e; f; g] -> { cnt = a; sm = b; sq = c; mn = d; mx = e; mnr = f; mxr = g }
  | _ -> failwith "record needs 7 fields"
let show r = String.concat " " (List.map hex_of_z [r.cnt; r.sm; r.sq; r.mn; r.mx; r.mnr; r.mxr])
let op_of t = match t.[0] with
  | 'I' -> OInit | 'R' -> OReset | 'P' -> OPrep1
  | 'S' -> OSet1 (z_of_hex (String.sub t 1 (String.length t - 1)))
  | 'A' -> OAcc (z_of_hex (String.sub t 1 (String.length t - 1)))
  | _ -> failwith ("bad call token " ^ t)
let rec take n l = if n = 0 then [] else (match l with x :: r -> x :: take (n - 1) r | [] -> failwith "short history")
let rec drop n l = if n = 0 then l else (match l with _ :: r -> drop (n - 1) r | [] -> failwith "short history")
let rec chunks n l = if l = [] then [] else take n l :: chunks n (drop n l)
let show_v s = String.concat " " (List.map hex_of_z [s.v_dirty; s.v_count; s.v_sum; s.v_sq; s.v_min; s.v_max; s.v_minr; s.v_maxr; s.v_avg.qnum; Zpos s.v_avg.qden])
let history line =
  match String.split_on_char ';' line with
  | [] -> "EMPTY"
  | hd :: cells ->
    (match words hd with
     | "H" :: p :: _ :: first ->
       let p = int_of_string p in
       let cells = List.map (fun c -> List.map op_of (words c)) (String.concat " " first :: cells) in
       let rounds = chunks p cells in
       let init = List.init p (fun _ -> vzero) in
       String.concat " ; " (List.concat (List.map (fun sts -> List.map show_v sts) (hist_exec init rounds)))
     | _ -> failwith "bad history header")
let b2i b = if b then 1 else 0
let zero_z = z_of_int 0
let naming toks =
  let n = ref { n_var = zero_z; n_owned = zero_z; n_group = zero_z; n_prio = zero_z } in
  let frees = ref 0 in
  let out = ref [] in
  List.iter (fun t ->
    if t = "." then
      out := Printf.sprintf "%d %d %s %s %d" (b2i (!n.n_owned <> zero_z)) (b2i (!n.n_var <> zero_z)) (hex_of_z !n.n_group) (hex_of_z !n.n_prio) !frees :: !out
    else if t.[0] = 'r' then begin
      let vgp = z_of_hex (String.sub t 1 (String.length t - 1)) in
      if name_reset_frees vgp !n then incr frees;
      n := name_reset vgp !n end
    else begin
      match String.split_on_char ',' (String.sub t 1 (String.length t - 1)) with
      | [c; g; p] -> n := name_set (z_of_int 5) (z_of_hex c) (z_of_hex g) (z_of_hex p) (z_of_int 7) !n
      | _ -> failwith ("bad naming token " ^ t) end) toks;
  String.concat " ; " (List.rev !out)
let () = iter_lines (fun line ->
  if String.trim line = "" then () else
  if String.length line > 1 && line.[0] = 'H' && line.[1] = ' ' then print_endline (history line) else
  if String.length line > 1 && line.[0] = 'N' && line.[1] = ' ' then print_endline (naming (List.tl (words line))) else
  let recs = List.map (fun s -> rec_of (words s)) (List.filter (fun s -> String.trim s <> "") (String.split_on_char ';' line)) in
  match recs with
  | [] -> print_endline "EMPTY"
  | x :: rest ->
    let fwd = List.fold_left (fun acc r -> combine r acc) x rest in          (* acc is inout *)
    let rv = List.rev recs in
    let bwd = List.fold_left (fun acc r -> combine acc r) (List.hd rv) (List.tl rv) in   (* acc is in *)
    print_endline (show fwd ^ " | " ^ show bwd))
