(* C13 driver.  Each line: records of the ranks 0..P-1 as 7 hex integers each (what sc_stats_compute packed,
   taken from the trace of the real code), separated by ';'.  Output: the left fold in rank order
   (inout = record of the next rank ... any tree gives the same by theorem C13_all_trees_agree) and the fold
   in reverse order, as 7 integers each. *)
let rec_of ws = match List.map z_of_hex ws with
  | [a; b; c; d; e; f; g] -> { cnt = a; sm = b; sq = c; mn = d; mx = e; mnr = f; mxr = g }
  | _ -> failwith "record needs 7 fields"
let show r = String.concat " " (List.map hex_of_z [r.cnt; r.sm; r.sq; r.mn; r.mx; r.mnr; r.mxr])
let () = iter_lines (fun line ->
  if String.trim line = "" then () else
  let recs = List.map (fun s -> rec_of (words s)) (List.filter (fun s -> String.trim s <> "") (String.split_on_char ';' line)) in
  match recs with
  | [] -> print_endline "EMPTY"
  | x :: rest ->
    let fwd = List.fold_left (fun acc r -> combine r acc) x rest in          (* acc is inout *)
    let rv = List.rev recs in
    let bwd = List.fold_left (fun acc r -> combine acc r) (List.hd rv) (List.tl rv) in   (* acc is in *)
    print_endline (show fwd ^ " | " ^ show bwd))
