(* C07 driver: evaluates the extracted INSTRUMENTED decoder models (sc_io_decode, sc_io_decode_info,
   sc_io_nonuncompress, sc_puff, base64_decode_block) on the case file (stdin), one result line per case, in
   the textual format of tools/harness/c06_harness.c.  Bytes travel as hexadecimal text ("-" = empty).
   An access outside a buffer in the model prints OOB, an exhausted iteration bound NOFUEL (the theorems of
   Props/Properties_C07.v say: never). *)
let zb = Array.init 256 (fun i -> z_of_int i)
let bytes_of_hex (s : string) : z list =
  if s = "-" then [] else begin
    let n = String.length s / 2 in
    let r = ref [] in
    for i = n - 1 downto 0 do
      r := zb.(hexval s.[2 * i] * 16 + hexval s.[2 * i + 1]) :: !r
    done; !r end
let small_int_of_z (x : z) : int =
  let rec p = function XH -> 1 | XO q -> 2 * p q | XI q -> 2 * p q + 1 in
  match x with Z0 -> 0 | Zpos q -> p q | Zneg q -> - (p q)
let hex_of_bytes (l : z list) : string =
  if l = [] then "-" else begin
    let b = Buffer.create 1024 in
    List.iter (fun x -> Buffer.add_string b (Printf.sprintf "%02x" ((small_int_of_z x) land 255))) l;
    Buffer.contents b end
let h = hex_of_z
let zh = z_of_hex
let bool_of s = s <> "0"
let show_res f r = match r with Ok a -> f a | Err _ -> "err" | Oob -> "OOB" | NoFuel -> "NOFUEL"

let () = iter_lines (fun line ->
  match words line with
  | [] -> ()
  | op :: a ->
    let a = Array.of_list a in
    let out =
      match op with
      | "dec" ->
        (* dec <inplace> <owner> <esz> <cnt> <max> <hextext> *)
        let t = bytes_of_hex a.(5) in
        let inplace = bool_of a.(0) in
        let esz = if inplace then z_of_int 1 else zh a.(2) in
        let cnt = if inplace then z_of_int (List.length t) else zh a.(3) in
        let o = { o_owner = bool_of a.(1); o_esz = esz; o_cnt = cnt } in
        show_res (fun (c, b) -> "ok " ^ h esz ^ " " ^ h c ^ " " ^ hex_of_bytes b) (sc_decode t o (zh a.(4)))
      | "info" ->
        show_res (fun (sz, fc) -> "ok " ^ h sz ^ " " ^ h fc) (sc_decode_info (bytes_of_hex a.(0)))
      | "b64d" ->
        (* the plaintext buffer has exactly the size the proof obligation names: floor(3 n / 4) + 1 *)
        let st = ref d_init in
        let bad = ref "" in
        let outs = List.map (fun c ->
          let code = bytes_of_hex c in
          let pt = List.init (3 * List.length code / 4 + 1) (fun _ -> Z0) in
          match decode_block code pt !st with
          | Ok ((l, pt1), s1) -> st := s1;
            let n = small_int_of_z l in
            h l ^ " " ^ hex_of_bytes (List.filteri (fun i _ -> i < n) pt1)
          | _ -> bad := "OOB"; "OOB") (Array.to_list a) in
        String.concat " " (outs @ [match !st.d_step with Sa -> "0" | Sb -> "1" | Sc -> "2" | Sd -> "3"]) ^ !bad
      | "puff" ->
        (* puff <nil> <destlen> <hexsrc> <sourcelen>: the memory behind the source holds exactly sourcelen bytes *)
        let src = bytes_of_hex a.(2) in
        let sl = zh a.(3) in
        let n = small_int_of_z sl in
        let src = List.filteri (fun i _ -> i < n) src in
        (match puff (bool_of a.(0)) (zh a.(1)) (zh a.(1)) src sl with
         | Ok (((rc, dl), sl'), ob) ->
           if rc = Z0 then "0 " ^ h dl ^ " " ^ h sl' ^ " " ^ (if bool_of a.(0) then "-" else hex_of_bytes ob) else h rc
         | Err _ -> "err" | Oob -> "OOB" | NoFuel -> "NOFUEL")
      | "nonu" ->
        let dsz = zh a.(0) in
        show_res (fun b -> "ok " ^ hex_of_bytes b) (nonuncompress (bytes_of_hex a.(1)) dsz dsz (dsz = Z0))
      | "zlib" -> "0"
      | _ -> "UNKNOWN_OP"
    in print_endline out)
