(* C17 driver: runs the extracted options model on the case file (stdin) and prints one canonical
   result line per operation, in the format of tools/harness/c17_harness.c.
   Differences of the input: a `parse` line carries the getopt record of the implementation
   ("parse o EV ev.. | optind argc argv.."), and the file starts with the libc oracle tables
   "T text bits erange" (strtod) and "F bits text" ("%.16g"). *)
exception Miss of string

let zbyte = Array.init 256 (fun i -> z_of_int i)
let hexdig c = match c with
  | '0'..'9' -> Char.code c - 48 | 'a'..'f' -> Char.code c - 87 | 'A'..'F' -> Char.code c - 55
  | _ -> failwith "hex"
(* "x6162" -> [97; 98] *)
let bytes_of_tok (t : string) : z list =
  let n = (String.length t - 1) / 2 in
  List.init n (fun i -> zbyte.(hexdig t.[1 + 2 * i] * 16 + hexdig t.[2 + 2 * i]))
let ostr_of_tok (t : string) : z list option = if t = "-" then None else Some (bytes_of_tok t)
let tok_of_bytes (l : z list) : string =
  let b = Buffer.create 64 in
  Buffer.add_char b 'x';
  List.iter (fun c -> Buffer.add_string b (Printf.sprintf "%02x" (int_of_z c))) l;
  Buffer.contents b
let tok_of_ostr o = match o with None -> "-" | Some l -> tok_of_bytes l

let ttab : (string, z * bool) Hashtbl.t = Hashtbl.create 1000
let ftab : (string, z list) Hashtbl.t = Hashtbl.create 1000
let strtod_o (s : z list) : z * bool =
  let k = tok_of_bytes s in
  match Hashtbl.find_opt ttab k with Some r -> r | None -> raise (Miss ("T " ^ k))
let fmt16_o (b : z) : z list =
  let k = hex_of_z b in
  match Hashtbl.find_opt ftab k with Some r -> r | None -> raise (Miss ("F " ^ k))

let nv = 2048
let kind = Array.make nv ' '
let quiet = ref false      (* `quiet 1`: no variable dump on the lines of declaration operations *)
let world = ref empty_world
let hid = ref "?"
let gst = ref g_start
let pending_argv : z list list option ref = ref None
let dic = ref (adict_new Z0)       (* iniparser's dictionary: the array model of C17/DictModel.v *)
let saveok = Array.make 8 false   (* sc_options_save is legal only after a successful parse / load_args *)

let dump () =
  let b = Buffer.create 256 in
  for v = 0 to nv - 1 do
    if kind.(v) <> ' ' then begin
      let x = st_get !world.w_store (nat_of_int v) in
      Buffer.add_string b (Printf.sprintf " v%d=%c" v kind.(v));
      (match x with
       | VI z -> Buffer.add_string b (hex_of_z z)
       | VD z -> Buffer.add_string b (hex_of_z z)
       | VS s -> Buffer.add_string b (tok_of_ostr s))
    end
  done;
  Buffer.contents b

let otype_of s = match s with
  | "sw" -> TSwitch | "bool" -> TBool | "int" -> TInt | "size" -> TSize | "dbl" -> TDouble | "str" -> TString
  | "ini" -> TIni | "json" -> TJson | "cb" -> TCallback | "kvo" -> TKeyvalue | _ -> failwith "type"
let kind_of s = match s with
  | "size" -> 'z' | "dbl" -> 'd' | "str" -> 's' | "ini" | "json" -> ' ' | _ -> 'i'

let event_of (t : string) : gevent =
  if t = "e" then GEnd
  else if t.[0] = 'q' then GErr (z_of_int (int_of_string (String.sub t 1 (String.length t - 1))))
  else begin
    let i = String.index t ':' in
    let num = int_of_string (String.sub t 1 (i - 1)) in
    let arg = ostr_of_tok (String.sub t (i + 1) (String.length t - i - 1)) in
    if t.[0] = 's' then GShort (z_of_int num, arg) else GLong (z_of_int num, arg)
  end

let rec split_bar l acc = match l with
  | [] -> (List.rev acc, [])
  | "|" :: r -> (List.rev acc, r)
  | x :: r -> split_bar r (x :: acc)

let run_op (name : string) (o : op) : string =
  let ((rc, w), left) = step strtod_o fmt16_o !world o in
  world := w;
  let extra = if int_of_z left <> 0 then Printf.sprintf " EVENTS_LEFT %d" (int_of_z left) else "" in
  let r = int_of_z rc in
  let d = if !quiet && (name = "new" || name = "kv" || name = "add" || name = "sub") then "" else dump () in
  Printf.sprintf "%s r=%d |%s%s" name r d (if name = "parse" && r = -98 then " EVENTS_SHORT" else extra)

let () = iter_lines (fun line ->
  match words line with
  | [] -> ()
  | op :: a ->
    let a = Array.of_list a in
    let out =
      try
        match op with
        | "T" -> Hashtbl.replace ttab a.(0) (z_of_hex a.(1), a.(2) = "1"); ""
        | "F" -> Hashtbl.replace ftab a.(0) (bytes_of_tok a.(1)); ""
        | "H" -> world := empty_world; Array.fill kind 0 nv ' '; quiet := false; hid := a.(0); "H " ^ a.(0)
        | "E" -> "E " ^ !hid ^ " mem=ok"
        | "new" -> saveok.(int_of_string a.(0)) <- false; run_op op (ONew (nat_of_int (int_of_string a.(0))))
        | "kv" ->
          let n = int_of_string a.(1) in
          let t = List.init n (fun i ->
            (bytes_of_tok a.(2 + 3 * i), if a.(3 + 3 * i) = "i" then Some (z_of_hex a.(4 + 3 * i)) else None)) in
          run_op op (OKv (nat_of_int (int_of_string a.(0)), t))
        | "add" ->
          let ty = a.(1) in
          let var = int_of_string a.(4) in
          let init = a.(7) in
          let iv = match init.[0] with
            | 'n' -> INone
            | 'i' -> IInt (z_of_hex (String.sub init 1 (String.length init - 1)))
            | 'd' -> IDbl (z_of_hex (String.sub init 1 (String.length init - 1)))
            | 's' -> IStr (ostr_of_tok (String.sub init 1 (String.length init - 1)))
            | _ -> failwith "init" in
          if kind_of ty <> ' ' then kind.(var) <- kind_of ty;
          run_op op (OAdd (nat_of_int (int_of_string a.(0)), otype_of ty, z_of_int (int_of_string a.(2)),
                           ostr_of_tok a.(3), nat_of_int var, z_of_int (int_of_string a.(5)),
                           nat_of_int (int_of_string a.(6)), iv))
        | "sub" -> run_op op (OSub (nat_of_int (int_of_string a.(0)), nat_of_int (int_of_string a.(1)), bytes_of_tok a.(2)))
        | "parse" ->
          (* parse o EV ev.. | optind argc argv.. *)
          let l = Array.to_list a in
          let o = int_of_string (List.hd l) in
          let l = List.tl l in
          let l = (match l with "EV" :: r -> r | _ -> failwith "parse line without EV record") in
          let (evs, rest) = split_bar l [] in
          let (rest, orig) = split_bar rest [] in
          pending_argv := (if orig = [] then None else Some (List.map bytes_of_tok orig));
          (match rest with
           | oi :: _ :: av ->
             (* validation of GetoptModel.v: the same number of calls from the reset state must give the recorded
                events, the recorded final optind and the recorded final order of argv *)
             let its = (get_opts !world (nat_of_int o)).o_items in
             let evl = List.map event_of evs in
             let avl = List.map bytes_of_tok av in
             let gm =
               (match !pending_argv with
                | None -> ""
                | Some argv0 ->
                  let ((mev, g'), argv') = getopt_calls (nat_of_int (List.length evl)) (shorts_of its) (longs_of its Z0) argv0 (g_reset !gst) in
                  gst := g';
                  let ended = (match List.rev evl with GEnd :: _ -> true | _ -> false) in
                  if mev <> evl then " GETOPT_MODEL_EVENTS"
                  else if ended && (int_of_z g'.g_optind <> int_of_string oi || argv' <> avl) then " GETOPT_MODEL_FINAL"
                  else "") in
             let s = run_op op (OParse (nat_of_int o, evl, z_of_int (int_of_string oi), avl)) ^ gm in
             saveok.(o) <- (int_of_z (get_opts !world (nat_of_int o)).o_first >= 0); s
           | _ -> failwith "parse record")
        | "load" -> run_op op (OLoad (nat_of_int (int_of_string a.(0)), bytes_of_tok a.(1)))
        | "loadargs" ->
          let s = run_op op (OLoadArgs (nat_of_int (int_of_string a.(0)), bytes_of_tok a.(1))) in
          saveok.(int_of_string a.(0)) <- (String.length s > 12 && String.sub s 0 12 = "loadargs r=0"); s
        | "save" ->
          let f = bytes_of_tok a.(1) in
          if not saveok.(int_of_string a.(0)) then Printf.sprintf "save r=-77 |%s | f=x" (dump ()) else
          (* the guard of theorem C17_save_load_roundtrip, evaluated on the state that is saved *)
          let guard = roundtrip_ok_b strtod_o fmt16_o !world (get_opts !world (nat_of_int (int_of_string a.(0)))) in
          print_endline (if guard then "G 1" else "G 0");
          let s = run_op op (OSave (nat_of_int (int_of_string a.(0)), f)) in
          let ok = String.length s > 9 && String.sub s 0 9 = "save r=0 " in
          let content = (match !world.w_fs with (k, b) :: _ when ok && k = f -> tok_of_bytes b | _ -> "x") in
          s ^ " | f=" ^ content
        | "file" -> run_op op (OFile (bytes_of_tok a.(0), bytes_of_tok a.(1)))
        | "errno" -> run_op op (OErrno (z_of_int (int_of_string a.(0))))
        | "seti" -> run_op op (OSetVar (nat_of_int (int_of_string a.(0)), VI (z_of_hex a.(1))))
        | "setd" -> run_op op (OSetVar (nat_of_int (int_of_string a.(0)), VD (z_of_hex a.(1))))
        | "sets" -> run_op op (OSetVar (nat_of_int (int_of_string a.(0)), VS (ostr_of_tok a.(1))))
        | "assign" ->
          (* the application assigns its own variable: assign v i<int> | z<size> | d<bits> | s<text> *)
          let t = a.(1) in
          let body = String.sub t 1 (String.length t - 1) in
          run_op op (OSetVar (nat_of_int (int_of_string a.(0)),
                              (match t.[0] with 's' -> VS (ostr_of_tok body) | 'd' -> VD (z_of_hex body) | _ -> VI (z_of_hex body))))
        | "destroy" -> run_op op (ODestroy (nat_of_int (int_of_string a.(0))))
        | "summary" -> Printf.sprintf "summary r=0 |%s" (dump ())
        | "dnew" | "dset" | "dget" | "dunset" | "dall" ->
          (match op with
           | "dnew" -> dic := adict_new (z_of_int (int_of_string a.(0)))
           | "dset" -> dic := adict_set dictionary_hash !dic (bytes_of_tok a.(0)) (ostr_of_tok a.(1))
           | "dunset" -> dic := adict_unset dictionary_hash !dic (bytes_of_tok a.(0))
           | _ -> ());
          let b = Buffer.create 256 in
          Buffer.add_string b (Printf.sprintf "%s r=0 | n=%d size=%d" op (int_of_z !dic.ad_n) (List.length !dic.ad_cells));
          if op = "dget" then
            Buffer.add_string b (match adict_get dictionary_hash !dic (bytes_of_tok a.(0)) with None -> " v=!" | Some v -> " v=" ^ tok_of_ostr v);
          if op = "dall" then
            List.iteri (fun i c -> match c with
              | ((Some k, v), _) -> Buffer.add_string b (Printf.sprintf " %d:%s:%s" i (tok_of_bytes k) (tok_of_ostr v))
              | _ -> ()) !dic.ad_cells;
          Buffer.contents b
        | "quiet" -> quiet := (a.(0) <> "0"); Printf.sprintf "quiet r=0 |%s" (dump ())
        | "dirty" -> Printf.sprintf "dirty r=0 |%s" (dump ())        (* stack content: not part of the model's world *)
        | "strtol" ->
          let (v, e) = strtol (bytes_of_tok a.(0)) in
          Printf.sprintf "strtol r=%s %d" (hex_of_z v) (if e then 1 else 0)
        | _ -> "UNKNOWN_OP " ^ op
      with Miss k -> "ORACLE_MISS " ^ k
    in
    if out <> "" then print_endline out)
