(* C15 driver: evaluates the extracted ranges model on the case file (stdin); same format as
   tools/harness/c15_harness.c.  argv[1] = rank: print only that rank's line of an A case (MPI comparison). *)
let only = if Array.length Sys.argv > 1 then int_of_string Sys.argv.(1) else -1
let h = hex_of_z
let rec take n l = if n <= 0 then [] else match l with [] -> [] | x :: r -> x :: take (n - 1) r
let rec drop n l = if n <= 0 then l else match l with [] -> [] | _ :: r -> drop (n - 1) r
let flat rs = String.concat " " (List.concat_map (fun (a, b) -> [h a; h b]) rs)
let lst name l = ":" ^ name ^ String.concat "" (List.map (fun x -> " " ^ h x) l)
let rec rows p vs = if vs = [] then [] else take p vs :: rows p (drop p vs)
let rec pairs l = match l with a :: b :: r -> (a, b) :: pairs r | _ -> []

let () = iter_lines (fun line ->
  match words line with
  | [] -> ()
  | op :: args ->
    let a = List.map z_of_hex args in
    (match op with
     | "C" ->
       (match a with
        | rank :: first :: last :: nr :: p :: v ->
          let v = take (int_of_z p) v in
          let (n, rs) = ranges_compute v rank first last nr in
          print_endline (h n ^ " " ^ flat rs ^ " E " ^ h (empties v rank rs))
        | _ -> print_endline "BAD")
     | "T" | "A" ->
       (match a with
        | nr :: p :: vs ->
          let p = int_of_z p in
          let vecs = rows p (take (p * p) vs) in
          let (((locals, maxpeers), maxwin), table) = adaptive_all vecs nr in
          let head = h maxpeers ^ " " ^ h maxwin in
          let part r (n, rs) =
            h n ^ " " ^ flat rs ^ lst "R" (receivers table (z_of_int r)) ^ lst "S" (senders table (z_of_int r)) in
          if op = "T" then
            print_endline (head ^ String.concat "" (List.mapi (fun r l -> ";" ^ part r l) locals))
          else
            List.iteri (fun r l ->
              if only < 0 || only = r then
                print_endline (head ^ ";" ^ part r l ^ ":G" ^ String.concat "" (List.map (fun (x, y) -> " " ^ h x ^ " " ^ h y) (List.concat table))))
              locals
        | _ -> print_endline "BAD")
     | "D" ->
       (match a with
        | p :: m :: t ->
          let p = int_of_z p and m = int_of_z m in
          let table = rows m (pairs (take (2 * m * p) t)) in
          print_endline (String.concat "" (List.init p (fun r ->
            ";" ^ lst "R" (receivers table (z_of_int r)) ^ lst "S" (senders table (z_of_int r)))))
        | _ -> print_endline "BAD")
     | _ -> print_endline "UNKNOWN"))
