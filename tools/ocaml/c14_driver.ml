(* C14 driver.  One case per line:
     <P> <ppn_attach> <ppn_sim> <noncontig> <flavour> <dtype> <count> <contributions: P*count hex integers, comma separated or -> [<dup>
       [<sendcount> <size of sendtype> <recvcount> <size of recvtype> <the contributions as bytes: P * L hex integers or ->]]
   with the last five fields `agb=` is what shmem_allgather_sig gives for these signatures (the array has P * L bytes, L = the bytes one
   rank contributes = length of the byte list / P), `undef` when the model says that an MPI call is erroneous
   dup = 1: everything is evaluated on the attachment a duplicate of the communicator inherits (comms_dup); `dup=` are the
   MPI calls of that MPI_Comm_dup, life = live node communicators after attach(+dup) / after freeing the duplicate / after detach
   prints one line:  for every rank  `g=<ir>/<is>/<er>/<es>|none w=<0|1> ag=<ints> pre=<ints> calls=<m>;<ag>;<pre>;<cp>;<f> life=<live after attach>/<after detach>`
   joined by " | ".  Node map of MPI_Comm_split_type as in tools/simmpi: rank / ppn, or rank mod ceil (P/ppn). *)
let pl_of_string s = if s = "-" || s = "" then [] else List.map z_of_hex (String.split_on_char ',' s)
let string_of_pl l = if l = [] then "-" else String.concat "," (List.map hex_of_z l)
let rec int_of_nat = function O -> 0 | S n -> 1 + int_of_nat n
let nats l = String.concat "," (List.map (fun n -> string_of_int (int_of_nat n)) l)
let rec take n l = if n = 0 then [] else match l with [] -> [] | x :: t -> x :: take (n - 1) t
let rec drop n l = if n = 0 then l else match l with [] -> [] | _ :: t -> drop (n - 1) t
(* HISTORY line:  H <P> <ppn_sim> <noncontig> <nops> {<kind> <c> <ppn>}*   (kinds as in tools/harness/c14_harness.c)
   prints, joined by " | ", for every operation k:  live=<node communicators alive (h_live)> c0=<...> c1=<...> spec0=<..> spec1=<..>
   where c<i> = `-` (no such communicator) or, for every rank joined by ",", <grid|none>:<grants of flavours 0..3> from the division the
   life cycle hstep has attached to communicator i, and spec<i> = the division the id-free specification in_force gives (ppn, `none`).
   An attach with ppn 0 attaches iff the node classes of the simulator have equal sizes (attach_split_type). *)
let history ws =
  match ws with
  | p :: ppn :: nonc :: nops :: rest ->
    let p = int_of_string p and ppn = int_of_string ppn and nonc = int_of_string nonc and nops = int_of_string nops in
    let np = nat_of_int p in
    let nd (r : nat) : nat =
      let r = int_of_nat r in
      nat_of_int (if ppn <= 0 then 0 else if nonc <> 0 then r mod ((p + ppn - 1) / ppn) else r / ppn) in
    let comms_of (d : int option) (r : nat) : node_comms option =
      match d with None -> None | Some pa -> if pa > 0 then Some (attach_explicit np (nat_of_int pa) r) else attach_split_type np nd r in
    let rec ops n l = if n = 0 then [] else match l with
      | k :: c :: pa :: t ->
        let c = nat_of_int (int_of_string c) and pa = int_of_string pa in
        (match int_of_string k with
         | 0 -> HAttach (c, (if pa > 0 || attach_split_type np nd O <> None then Some pa else None))
         | 1 -> HDetach c | 2 -> HDup | _ -> HFreeDup) :: ops (n - 1) t
      | _ -> failwith "history" in
    let h = ops nops rest in
    let show st (c : nat) exists_ =
      if not exists_ then "-" else
      let d = h_division st c in
      String.concat "," (List.init p (fun r ->
        let nr = nat_of_int r in
        let cm = comms_of d in
        let g = (match cm nr with
                 | None -> "none"
                 | Some nc -> let (((a, b), c), e) = grid_position nc nr in
                   Printf.sprintf "%d/%d/%d/%d" (int_of_nat a) (int_of_nat b) (int_of_nat c) (int_of_nat e)) in
        let w f = if write_start cm f nr then "1" else "0" in
        g ^ ":" ^ w Basic ^ w Prescan ^ w Window ^ w WindowPrescan)) in
    let spec pre c = (match in_force pre c with Some pa -> string_of_int pa | None -> "none") in
    let rec go st pre = function
      | [] -> []
      | o :: t ->
        (match hstep st o with
         | None -> ["REJECTED"]
         | Some st' ->
           let pre' = pre @ [o] in
           Printf.sprintf "live=%d c0=%s c1=%s spec0=%s spec1=%s" (List.length st'.h_live) (show st' O true) (show st' (S O) st'.h_dup)
             (spec pre' O) (spec pre' (S O)) :: go st' pre' t) in
    print_endline (String.concat " | " (go hinit [] h))
  | _ -> print_endline "BAD_PARAMS"

let () = iter_lines (fun line ->
  if String.length line > 0 && line.[0] = 'H' then history (List.tl (words line)) else
  match (match words line with [a; b; c; d; e; f; g; h] -> [a; b; c; d; e; f; g; h; "0"; "0"; "1"; "0"; "1"; "-"]
         | [a; b; c; d; e; f; g; h; i] -> [a; b; c; d; e; f; g; h; i; "0"; "1"; "0"; "1"; "-"] | w -> w) with
  | [p; pa; ppn; nonc; fl; d; cnt; contribs; dup; scount; ssize; rcount; rsize; bytes] ->
    let dup = (dup = "1") in
    let p = int_of_string p and pa = int_of_string pa and ppn = int_of_string ppn and nonc = int_of_string nonc
    and fl = int_of_string fl and d = int_of_string d and cnt = int_of_string cnt in
    let all = pl_of_string contribs in
    let contrib (r : nat) = take cnt (drop (int_of_nat r * cnt) all) in
    let allb = pl_of_string bytes in
    let lb = if p > 0 then List.length allb / p else 0 in
    let contribb (r : nat) = take lb (drop (int_of_nat r * lb) allb) in
    let snd = { sg_count = nat_of_int (int_of_string scount); sg_size = nat_of_int (int_of_string ssize) }
    and rcv = { sg_count = nat_of_int (int_of_string rcount); sg_size = nat_of_int (int_of_string rsize) } in
    let nd (r : nat) : nat =
      let r = int_of_nat r in
      nat_of_int (if ppn <= 0 then 0 else if nonc <> 0 then r mod ((p + ppn - 1) / ppn) else r / ppn) in
    let np = nat_of_int p in
    let comms0 (r : nat) : node_comms option =
      if pa < 0 then None
      else if pa > 0 then Some (attach_explicit np (nat_of_int pa) r)
      else attach_split_type np nd r in
    let comms = if dup then comms_dup comms0 else comms0 in
    let f = (match fl with 0 -> Basic | 1 -> Prescan | 2 -> Window | _ -> WindowPrescan) in
    let one r =
      let nr = nat_of_int r in
      let g = (match comms nr with
               | None -> "none"
               | Some nc -> let (((a, b), c), e) = grid_position nc nr in
                 Printf.sprintf "%d/%d/%d/%d" (int_of_nat a) (int_of_nat b) (int_of_nat c) (int_of_nat e)) in
      let (((ag, pre), w), ((((cm, ca), cp), cc), cf)) = rank_report (nat_of_int d) np comms (nat_of_int cnt) f contrib nr in
      (* life cycle of the attached communicators on this rank: alive after attach / after detach *)
      let equal = (comms nr <> None) in
      let s0 = { live = []; next_id = O; attr = None } in
      let s1 = if pa < 0 then s0 else l_attach (pa > 0) equal s0 in
      let (s2, dv) = if dup then l_dup s1 else (s1, None) in
      let s3 = l_free_dup dv s2 in
      let s4 = l_detach s3 in
      let life = Printf.sprintf "%d/%d/%d" (List.length s2.live) (List.length s3.live) (List.length s4.live) in
      let dupcalls = if dup then nats (calls_dup (s1.attr <> None)) else "-" in
      let agb = (match shmem_allgather_sig np comms contribb snd rcv (nat_of_int (p * lb)) f nr with Some l -> string_of_pl l | None -> "undef") in
      Printf.sprintf "g=%s w=%d ag=%s pre=%s calls=%s;%s;%s;%s;%s life=%s dup=%s agb=%s" g (if w then 1 else 0) (string_of_pl ag) (string_of_pl pre)
        (nats cm) (nats ca) (nats cp) (nats cc) (nats cf) life dupcalls agb in
    print_endline (String.concat " | " (List.init p one))
  | [] -> ()
  | _ -> print_endline "BAD_PARAMS")
