(* C08 driver: runs the extracted concrete machine (and, for legality, the reference machine) on the
   history file (stdin); prints the same lines as tools/harness/c08_harness.c. *)
let h = hex_of_z
let nat_of_hex s = nat_of_int (int_of_string ("0x" ^ s))
let hexv c = match c with '0'..'9' -> Char.code c - 48 | 'a'..'f' -> Char.code c - 87 | _ -> Char.code c - 55
let ztab = Array.init 256 z_of_int
let bytes_of s : z list =
  if s = "-" then [] else List.init (String.length s / 2) (fun i -> ztab.(hexv s.[2*i] * 16 + hexv s.[2*i+1]))
let rec int_of_pos p = match p with XH -> 1 | XO q -> 2 * int_of_pos q | XI q -> 2 * int_of_pos q + 1
let iz z = match z with Z0 -> 0 | Zpos p -> int_of_pos p | Zneg p -> - (int_of_pos p)
let hexdig = "0123456789abcdef"
let add_hexb buf (l : z list) =
  if l = [] then Buffer.add_char buf '-'
  else List.iter (fun b -> let v = iz b land 255 in Buffer.add_char buf hexdig.[v lsr 4]; Buffer.add_char buf hexdig.[v land 15]) l
let hexb (l : z list) = let b = Buffer.create 64 in add_hexb b l; Buffer.contents b
let bool_of s = s <> "0"
let parse (w : string list) : op option =
  let a = Array.of_list w in
  let z i = z_of_hex a.(i) and n i = nat_of_hex a.(i) and b i = bytes_of a.(i) in
  match a.(0) with
  | "init" -> Some (OInit (bool_of a.(1), n 2, z 3))
  | "initc" -> Some (OInitCount ((a.(1) = "1" || a.(1) = "2"), n 2, z 3, z 4, b 5))
  | "view" -> Some (OInitView (bool_of a.(1), n 2, n 3, z 4, z 5))
  | "reshape" -> Some (OInitReshape (n 1, n 2, z 3, z 4))
  | "data" -> Some (OInitData (bool_of a.(1), n 2, n 3, z 4, z 5, z 6))
  | "reset" -> Some (OReset (n 1))
  | "destroy" -> Some (ODestroy (n 1))
  | "drop" -> Some (ODrop (n 1))
  | "abandon" -> Some (ODrop (n 1))   (* forgetting a released static struct: for the machine a reset that frees nothing + forget *)
  | "trunc" -> Some (OTruncate (n 1))
  | "rewind" -> Some (ORewind (n 1, z 2))
  | "resize" -> Some (OResize (n 1, z 2, b 3))
  | "pushc" -> Some (OPushCount (n 1, z 2, b 3))
  | "push" -> Some (OPush (n 1, b 2))
  | "pop" -> Some (OPop (n 1))
  | "copy" -> Some (OCopy (n 1, n 2))
  | "copyinto" -> Some (OCopyInto (n 1, z 2, n 3))
  | "move" -> Some (OMovePart (n 1, z 2, n 3, z 4, z 5))
  | "memset" -> Some (OMemset (n 1, z 2))
  | "set" -> Some (OSet (n 1, z 2, b 3))
  | "index" -> Some (OIndex (n 1, z 2))
  | "sort" -> Some (OSort (n 1))
  | "uniq" -> Some (OUniq (n 1))
  | "issorted" -> Some (OIsSorted (n 1))
  | "isequal" -> Some (OIsEqual (n 1, n 2))
  | "bsearch" -> Some (OBsearch (n 1, b 2))
  | "checksum" -> Some (OChecksum (n 1))
  | "isperm" -> Some (OIsPerm (n 1))
  | "split" -> Some (OSplit (n 1, n 2, z 3))
  | "permute" -> Some (OPermute (n 1, n 2, bool_of a.(3)))
  | _ -> None
let nh = 24
let () =
  let c = ref c_init and s = ref s_init in
  iter_lines (fun line ->
    match words line with
    | [] -> ()
    | ["H"] -> c := c_init; s := s_init; print_endline "H"
    | ["E"] -> print_endline ("status " ^ h (Z.sub !c.c_mallocs !c.c_frees))
    | w ->
      (* regrow h n: a view is resized to a larger count and nothing is written; for the machines this is OResize with the bytes
         the reference holds at that place (writing them changes nothing) *)
      let w = match w with
        | ["regrow"; hs; ns] ->
          let hh = nat_of_hex hs and n = z_of_hex ns in
          (match sget !s hh with
           | Some a -> let cnt = s_cnt a and e = s_esz a in
             ["resize"; hs; ns; hexb (s_rd !s hh a (Z.mul cnt e) (Z.mul (Z.sub n cnt) e))]
           | None -> ["resize"; hs; ns; "-"])
        | _ -> w in
      (match parse w with
       | None -> print_endline "UNKNOWN_OP"
       | Some o ->
         let legal = legal_step0 !s o in
         s := s_step0 !s o;
         c := c_step0 !c o;
         let out = match !c.c_outs with x :: _ -> x | [] -> [] in
         let res = match o with
           | OPop _ | OIndex (_, _) -> hexb out
           | OBsearch (_, _) -> (match out with [Zneg _ as v] -> h v | [_] -> "hit" | _ -> "?")
           | _ -> (match out with [] -> "-" | l -> String.concat " " (List.map h l)) in
         let buf = Buffer.create 256 in
         if not legal then Buffer.add_string buf "ILLEGAL ";
         if !c.c_bad then Buffer.add_string buf "BAD ";
         Buffer.add_string buf res;
         Buffer.add_string buf " ;";
         for k = 0 to nh - 1 do
           match lget !c.c_arrs (nat_of_int k) with
           | None -> ()
           | Some a ->
             (* the bytes of all elements: concatenation of the observable cobs (element i = bytes [i*esz, (i+1)*esz)) *)
             Buffer.add_string buf (Printf.sprintf " %x:%s:%s:" k (h a.a_esz) (h a.a_cnt));
             add_hexb buf (c_content !c a)
         done;
         print_endline (Buffer.contents buf)))
