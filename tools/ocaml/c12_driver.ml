(* C12 driver.  All numbers are hexadecimal (negative with a leading '-'); payloads are comma separated, `-` = empty.
   Line kinds:
     T <cfg> <P> <me> <ops> | <ev> ; <ev> ; ...     co-simulation of the program of rank <me> (cfg A: the one process)
     G <cfg> <P> <node> <plan> <ops>                prediction of the global model
   <cfg>  A | C | B (MPI I/O: programs and global model of C12/MpiioModel.v with the simulated MPI's MPI_Error_class)
   <ops>  OPS <n> then per operation   o <amode> | c | W <size> <k> {<off> <count> <data>}*k | R <size> <k> {<off> <count> -}*k
                                        | w <size> <off> <count> <data> | r <size> <off> <count> -
   <node> A (absent) | N (missing directory) | D (is a directory) | F <payload>
   <plan> F <n> {<rank> <fn> <k> <errno> <short>}*n
   events: S <dest> <tag> <payload> | R <src> <tag> <msrc> <payload> | C <kind> <root> <in> <out> | O <payload> | X (trace cut: run aborted)
   Output T: OK | MISMATCH ...    Output G: ABORT | per operation `|`-separated per-rank results, then file, fail, open, ledger *)
let pl_of_string s = if s = "-" || s = "" then [] else List.map z_of_hex (String.split_on_char ',' s)
let string_of_pl l = if l = [] then "-" else String.concat "," (List.map hex_of_z l)
let zeq (a : z) (b : z) = hex_of_z a = hex_of_z b
let pleq a b = List.length a = List.length b && List.for_all2 zeq a b

type ev = ES of z * z * z list | ER of z * z * z * z list | EC of z * z * z list * z list | EO of z list | EX

let parse_ev (s : string) : ev =
  match words s with
  | ["S"; d; t; p] -> ES (z_of_hex d, z_of_hex t, pl_of_string p)
  | ["R"; s; t; m; p] -> ER (z_of_hex s, z_of_hex t, z_of_hex m, pl_of_string p)
  | ["C"; k; r; i; o] -> EC (z_of_hex k, z_of_hex r, pl_of_string i, pl_of_string o)
  | ["O"; p] -> EO (pl_of_string p)
  | ["X"] -> EX
  | _ -> failwith ("bad event: " ^ s)

(* consume the operation list from a token list *)
let rec take_ops (n : int) (toks : string list) : op list * string list =
  if n = 0 then ([], toks) else
  match toks with
  | "o" :: a :: rest -> let (l, r) = take_ops (n - 1) rest in (OOpen (z_of_hex a) :: l, r)
  | "c" :: rest -> let (l, r) = take_ops (n - 1) rest in (OClose :: l, r)
  | (("W" | "R") as kd) :: size :: k :: rest ->
    let rec args k toks = if k = 0 then ([], toks) else
      (match toks with
       | off :: cnt :: data :: r -> let (l, r') = args (k - 1) r in ({ a_off = z_of_hex off; a_count = z_of_hex cnt; a_data = pl_of_string data } :: l, r')
       | _ -> failwith "bad collective arguments") in
    let (al, rest') = args (int_of_z (z_of_hex k)) rest in
    let (l, r) = take_ops (n - 1) rest' in (OColl ((kd = "W"), z_of_hex size, al) :: l, r)
  | (("w" | "r") as kd) :: size :: off :: cnt :: data :: rest ->
    let (l, r) = take_ops (n - 1) rest in
    (OAt ((kd = "w"), z_of_hex size, { a_off = z_of_hex off; a_count = z_of_hex cnt; a_data = pl_of_string data }) :: l, r)
  | _ -> failwith "bad operation"

let parse_ops (toks : string list) : op list * string list =
  match toks with
  | "OPS" :: n :: rest -> take_ops (int_of_z (z_of_hex n)) rest
  | _ -> failwith "OPS expected"

let act_name a = match a with
  | Send (d, t, _) -> "Send to " ^ hex_of_z d ^ " tag " ^ hex_of_z t
  | Recv (s, t) -> "Recv from " ^ hex_of_z s ^ " tag " ^ hex_of_z t
  | Coll (kd, r, _) -> "Coll kind " ^ hex_of_z kd ^ " root " ^ hex_of_z r
let ev_name e = match e with
  | ES (d, t, _) -> "Send to " ^ hex_of_z d ^ " tag " ^ hex_of_z t
  | ER (s, t, _, _) -> "Recv from " ^ hex_of_z s ^ " tag " ^ hex_of_z t
  | EC (kd, r, _, _) -> "Coll kind " ^ hex_of_z kd ^ " root " ^ hex_of_z r
  | EO _ -> "return" | EX -> "cut"

let rec walk (p : prog) (evs : ev list) (idx : int) : string =
  match p, evs with
  | _, EX :: _ -> "OK cut"
  | Ret out, EO o :: rest ->
    if pleq out o then (if rest = [] then "OK" else Printf.sprintf "MISMATCH at %d: events after the end of the model program" idx)
    else Printf.sprintf "MISMATCH at %d: output model %s impl %s" idx (string_of_pl out) (string_of_pl o)
  | Ret _, [] -> "MISMATCH: no output event"
  | Ret out, e :: _ -> Printf.sprintf "MISMATCH at %d: model program ended (output %s), implementation continues with %s" idx (string_of_pl out) (ev_name e)
  | Do (Send (d, t, m), k), ES (d', t', m') :: rest ->
    if not (zeq d d' && zeq t t') then Printf.sprintf "MISMATCH at %d: model %s, impl %s" idx (act_name (Send (d, t, m))) (ev_name (ES (d', t', m')))
    else if not (pleq m m') then Printf.sprintf "MISMATCH at %d: send to %s payload model %s impl %s" idx (hex_of_z d) (string_of_pl m) (string_of_pl m')
    else walk (k []) rest (idx + 1)
  | Do (Recv (s, t), k), ER (s', t', ms, m') :: rest ->
    if not (zeq t t' && zeq s s') then Printf.sprintf "MISMATCH at %d: model %s, impl %s" idx (act_name (Recv (s, t))) (ev_name (ER (s', t', ms, m')))
    else walk (k (ms :: m')) rest (idx + 1)
  | Do (Coll (kd, r, c), k), EC (kd', r', c', o') :: rest ->
    if not (zeq kd kd' && zeq r r') then Printf.sprintf "MISMATCH at %d: model %s, impl %s" idx (act_name (Coll (kd, r, c))) (ev_name (EC (kd', r', c', o')))
    else if not (pleq c c') then Printf.sprintf "MISMATCH at %d: kind %s arguments model %s impl %s" idx (hex_of_z kd) (string_of_pl c) (string_of_pl c')
    else walk (k o') rest (idx + 1)
  | Do (a, _), e :: _ -> Printf.sprintf "MISMATCH at %d: model does %s, impl does %s" idx (act_name a) (ev_name e)
  | Do (a, _), [] -> Printf.sprintf "MISMATCH at %d: implementation ended, model continues with %s" idx (act_name a)

let cfg_of s = if s = "A" then CfgA else CfgC

let () = iter_lines (fun line ->
  if String.trim line = "" then () else
  try
    let (head, evtext) = match String.index_opt line '|' with
      | None -> (line, "")
      | Some i -> (String.sub line 0 i, String.sub line (i + 1) (String.length line - i - 1)) in
    match words head with
    | "T" :: cfg :: p :: me :: rest ->
      let (ops, _) = parse_ops rest in
      let evs = List.filter_map (fun e -> if String.trim e = "" then None else Some (parse_ev e)) (String.split_on_char ';' evtext) in
      let prog = if cfg = "B" then scen_prog_B errclassB (z_of_hex me) ops hB_none [] else
                 (match cfg_of cfg with
                  | CfgA -> scen_prog_A ops h_none []
                  | CfgC -> scen_prog_C (z_of_hex p) (z_of_hex me) ops h_none []) in
      print_endline (walk prog evs 0)
    | "G" :: cfg :: p :: rest ->
      let c = cfg_of cfg in
      let (node, rest) = (match rest with
        | "A" :: r -> (Absent, r) | "N" :: r -> (NoDir, r) | "D" :: r -> (IsDir, r)
        | "F" :: d :: r -> (File (pl_of_string d), r)
        | _ -> failwith "bad node") in
      let (faults, rest) = (match rest with
        | "F" :: n :: r ->
          let rec go k toks = if k = 0 then ([], toks) else
            (match toks with
             | rk :: fn :: kk :: e :: sh :: r' -> let (l, r'') = go (k - 1) r' in ((z_of_hex rk, z_of_hex fn, z_of_hex kk, z_of_hex e, z_of_hex sh) :: l, r'')
             | _ -> failwith "bad fault") in
          go (int_of_z (z_of_hex n)) r
        | _ -> failwith "F expected") in
      let plan (q : z) (f : z) (k : z) =
        (match List.find_opt (fun (rk, fn, kk, _, _) -> zeq rk q && zeq fn f && zeq kk k) faults with
         | Some (_, _, _, e, sh) -> Some (e, sh) | None -> None) in
      let (ops, _) = parse_ops rest in
      let show w outs =
         let file = (match w_node w with Absent -> "missing" | NoDir -> "missing" | IsDir -> "dir" | File d -> if d = [] then "=" else string_of_pl d) in
         print_endline (String.concat " | " (List.map (fun per -> String.concat " " (List.map string_of_pl per)) outs)
                        ^ " # " ^ file ^ " " ^ hex_of_z (w_fail w) ^ " " ^ hex_of_z (w_open w) ^ " " ^ hex_of_z (w_ledger w)) in
      if cfg = "B" then (let (g, outs) = gB_scen errclassB (z_of_hex p) (gstB0 node plan) ops in show (b_w g) outs) else
      (match g_scen c (z_of_hex p) (gstate0 node plan) ops with
       | None -> print_endline "ABORT"
       | Some (g, outs) ->
         let w = g_w g in
         let file = (match w_node w with Absent -> "missing" | NoDir -> "missing" | IsDir -> "dir" | File d -> if d = [] then "=" else string_of_pl d) in
         print_endline (String.concat " | " (List.map (fun per -> String.concat " " (List.map string_of_pl per)) outs)
                        ^ " # " ^ file ^ " " ^ hex_of_z (w_fail w) ^ " " ^ hex_of_z (w_open w) ^ " " ^ hex_of_z (w_ledger w)))
    | _ -> print_endline "BAD_LINE"
  with Failure m -> print_endline ("BAD_LINE " ^ m))
