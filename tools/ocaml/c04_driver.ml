(* USES cosim *)
(* C04 driver: params = P me blocksize mode base g <own block as payload>; events in canonical window order *)
let () = iter_lines (fun line ->
  if String.trim line = "" then () else
  let (ps, evs) = split_line line in
  match ps with
  | [p; me; bs; mode; base; g; mine] ->
    let p = z_of_hex p and me = z_of_hex me and bs = int_of_z (z_of_hex bs) and base = z_of_hex base and g = z_of_hex g in
    let mine = pl_of_string mine in
    let amax = c_SC_ALLGATHER_ALLTOALL_MAX in
    let tags = [| c_SC_TAG_AG_ALLTOALL; c_SC_TAG_AG_RECURSIVE_A; c_SC_TAG_AG_RECURSIVE_B; c_SC_TAG_AG_RECURSIVE_C |] in
    let tagmap t = let i = int_of_z t in if i >= 0 && i < 4 then tags.(i) else t in
    let prog =
      if mode = "0" then allgather_prog amax (nat_of_int bs) p me mine
      else
        ag_prog amax (nat_of_int bs) (nat_of_int (int_of_z g + 1)) g base me (upd (fun _ -> []) me mine)
          (fun buf -> Ret (slots buf base (nat_of_int (int_of_z g)))) in
    print_endline (cosim ~tagmap prog evs)
  | _ -> print_endline "BAD_PARAMS")
