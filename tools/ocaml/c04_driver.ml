(* USES cosim *)
(* C04 driver: params = P me blocksize mode base g <own block as payload>; events in canonical window order.
   A HISTORY (several calls back to back on one communicator, C04/AllgatherHist.v: hist_prog) has the params
   P me H <entry> <blocksize> <base> <g> <own block> ... (five per call; entry 0 sc_allgather, 1 sc_allgather_recursive,
   2 sc_allgather_alltoall); the expected output is the concatenation of the outputs of the calls this rank takes part in. *)
let amax = c_SC_ALLGATHER_ALLTOALL_MAX
let tags = [| c_SC_TAG_AG_ALLTOALL; c_SC_TAG_AG_RECURSIVE_A; c_SC_TAG_AG_RECURSIVE_B; c_SC_TAG_AG_RECURSIVE_C |]
let tagmap t = let i = int_of_z t in if i >= 0 && i < 4 then tags.(i) else t
let rec calls_of (l : string list) : call list =
  match l with
  | [] -> []
  | e :: bs :: base :: g :: mine :: rest ->
    let mine = pl_of_string mine in
    { c_entry = (match e with "0" -> E_top | "1" -> E_rec | "2" -> E_a2a | _ -> failwith "bad entry");
      c_g = z_of_hex g; c_base = z_of_hex base; c_sz = nat_of_int (int_of_z (z_of_hex bs)); c_blk = (fun _ -> mine) } :: calls_of rest
  | _ -> failwith "bad history"
let () = iter_lines (fun line ->
  if String.trim line = "" then () else
  let (ps, evs) = split_line line in
  match ps with
  | p :: me :: "H" :: rest ->
    (match (try Some (calls_of rest) with Failure _ -> None) with
     | Some cs -> print_endline (cosim ~tagmap (hist_prog amax (z_of_hex p) (z_of_hex me) cs []) evs)
     | None -> print_endline "BAD_PARAMS")
  | [p; me; bs; mode; base; g; mine] ->
    let p = z_of_hex p and me = z_of_hex me and bs = int_of_z (z_of_hex bs) and base = z_of_hex base and g = z_of_hex g in
    let mine = pl_of_string mine in
    let prog =
      if mode = "0" then allgather_prog amax (nat_of_int bs) p me mine
      else
        ag_prog amax (nat_of_int bs) (nat_of_int (int_of_z g + 1)) g base me (upd (fun _ -> []) me mine)
          (fun buf -> Ret (slots buf base (nat_of_int (int_of_z g)))) in
    print_endline (cosim ~tagmap prog evs)
  | _ -> print_endline "BAD_PARAMS")
