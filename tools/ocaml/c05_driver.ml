(* USES cosim *)
(* C05 driver.  Line kinds (first word):
     rank <me> <counts> <own keys> | <events>     co-simulate the per-rank program of sc_psort against a trace
     seq <counts> <keys of the concatenated input> run the extracted comparator network sequentially, print the keys
     ops <counts>                                  number of operations of the network (information)
     wait <m> <recv answers> <send answers>        the two Waitsome loops of one merge step with m peer records; answers
                                                   are index sets separated by '/', indices by ','; prints the order of
                                                   the calls (R/S) and whether every record was applied and freed once
   counts / keys: comma separated hex, `-` when empty. *)
let nats_of_string s = List.map (fun z -> nat_of_int (int_of_z z)) (pl_of_string s)
let answers s = if s = "-" || s = "" then [] else List.map nats_of_string (String.split_on_char '/' s)
let rec len = function [] -> 0 | _ :: t -> 1 + len t
let () = iter_lines (fun line ->
  if String.trim line = "" then () else
  let (ps, evs) = split_line line in
  match ps with
  | ["rank"; me; counts; mine] ->
    let prog = psort_prog c_SC_TAG_PSORT_LO c_SC_TAG_PSORT_HI (nats_of_string counts) (nat_of_int (int_of_string me)) (pl_of_string mine) in
    print_endline (cosim prog evs)
  | ["seq"; counts; keys] -> print_endline (string_of_pl (psort_seq (nats_of_string counts) (pl_of_string keys)))
  | ["ops"; counts] -> print_endline (string_of_int (len (psort_ops (nats_of_string counts))))
  | ["wait"; m; ra; sa] ->
    (match wait_loop_z (nat_of_int (int_of_string m)) (answers ra) (answers sa) with
     | None -> print_endline "STUCK"
     | Some (((st, unused), calls)) ->
       let (_, fl) = st in
       let one n = (match n with S O -> true | _ -> false) in
       let ok = List.for_all (fun f -> f_received f && f_sent f && one (f_applied f) && one (f_freed f) && not (f_early f)) fl in
       print_endline ((String.concat "" (List.map (fun b -> if b then "R" else "S") calls)) ^ " unused=" ^ (match unused with O -> "0" | _ -> "some") ^ (if ok then " ok" else " BAD")))
  | _ -> print_endline "BAD_PARAMS")
