(* C18 driver: evaluates the extracted GENERATED functions on the case file (stdin), one result per line. *)
let h = hex_of_z
let pair (a, b) = h a ^ " " ^ h b
let opt f o = match o with Some v -> f v | None -> "OUT_OF_FUEL"
let z0 = Z0
let () = iter_lines (fun line ->
  match words line with
  | [] -> ()
  | op :: args ->
    let a = Array.of_list (List.map z_of_hex args) in
    let out =
      match op with
      | "add" -> pair (sc_uint128_add a.(0) a.(1) a.(2) a.(3) z0 z0)
      | "sub" -> pair (sc_uint128_sub a.(0) a.(1) a.(2) a.(3) z0 z0)
      | "addi" -> pair (sc_uint128_add_inplace a.(0) a.(1) a.(2) a.(3))
      | "subi" -> pair (sc_uint128_sub_inplace a.(0) a.(1) a.(2) a.(3))
      | "or" -> pair (sc_uint128_bitwise_or a.(0) a.(1) a.(2) a.(3) z0 z0)
      | "and" -> pair (sc_uint128_bitwise_and a.(0) a.(1) a.(2) a.(3) z0 z0)
      | "ori" -> pair (sc_uint128_bitwise_or_inplace a.(0) a.(1) a.(2) a.(3))
      | "andi" -> pair (sc_uint128_bitwise_and_inplace a.(0) a.(1) a.(2) a.(3))
      | "addia" -> pair (sc_uint128_add_inplace_aliased a.(0) a.(1))
      | "subia" -> pair (sc_uint128_sub_inplace_aliased a.(0) a.(1))
      | "oria" -> pair (sc_uint128_bitwise_or_inplace_aliased a.(0) a.(1))
      | "andia" -> pair (sc_uint128_bitwise_and_inplace_aliased a.(0) a.(1))
      | "shrio" -> pair (sc_uint128_shift_right_inres a.(0) a.(1) a.(2))
      | "shlio" -> pair (sc_uint128_shift_left_inres a.(0) a.(1) a.(2))
      | "negio" -> pair (sc_uint128_bitwise_neg_ares a.(0) a.(1))
      | "orra" -> pair (sc_uint128_bitwise_or_ares a.(0) a.(1) a.(2) a.(3))
      | "orrb" -> pair (sc_uint128_bitwise_or_bres a.(0) a.(1) a.(2) a.(3))
      | "orrab" -> pair (sc_uint128_bitwise_or_abres a.(0) a.(1))
      | "andra" -> pair (sc_uint128_bitwise_and_ares a.(0) a.(1) a.(2) a.(3))
      | "andrb" -> pair (sc_uint128_bitwise_and_bres a.(0) a.(1) a.(2) a.(3))
      | "andrab" -> pair (sc_uint128_bitwise_and_abres a.(0) a.(1))
      | "addab" -> pair (sc_uint128_add_ab a.(0) a.(1) z0 z0)
      | "subab" -> pair (sc_uint128_sub_ab a.(0) a.(1) z0 z0)
      | "neg" -> pair (sc_uint128_bitwise_neg a.(0) a.(1) z0 z0)
      | "shr" -> pair (sc_uint128_shift_right a.(0) a.(1) a.(2) z0 z0)
      | "shl" -> pair (sc_uint128_shift_left a.(0) a.(1) a.(2) z0 z0)
      | "chk" -> h (sc_uint128_chk_bit a.(0) a.(1) a.(2))
      | "set" -> pair (sc_uint128_set_bit a.(0) a.(1) a.(2))
      | "cmp" -> h (sc_uint128_compare a.(0) a.(1) a.(2) a.(3))
      | "eq" -> h (sc_uint128_is_equal a.(0) a.(1) a.(2) a.(3))
      | "init" -> pair (sc_uint128_init z0 z0 a.(0) a.(1))
      | "copy" -> pair (sc_uint128_copy a.(0) a.(1) z0 z0)
      | "bias" -> h (sc_search_bias a.(0) a.(1) a.(2) a.(3))
      | "lb" ->
        let t = a.(0) and g = a.(1) and n = a.(2) in
        let arr = Array.sub a 3 (Array.length a - 3) in
        let f i = let k = int_of_z i in if k >= 0 && k < Array.length arr then arr.(k) else z0 in
        opt h (sc_search_lower_bound64 (nat_of_int (Array.length arr + 2)) t f n g)
      | "br" ->
        let key = int_of_z a.(0) and n = a.(1) in
        let arr = Array.map int_of_z (Array.sub a 2 (Array.length a - 2)) in
        let get i = let k = int_of_z i in if k >= 0 && k < Array.length arr then arr.(k) else 0 in
        let cmp x y = z_of_int (compare x y) in
        opt h (sc_bsearch_range (nat_of_int (Array.length arr + 2)) (fun i -> cmp key (get i)) (fun i -> cmp (get i) key) n)
      | "pow" -> opt h (sc_intpow (nat_of_int 40) a.(0) a.(1))
      | "pow64" -> opt h (sc_intpow64 (nat_of_int 40) a.(0) a.(1))
      | "pow64u" -> opt h (sc_intpow64u (nat_of_int 40) a.(0) a.(1))
      | "log2_8" -> h (w_sc_log2_8 a.(0))
      | "log2_16" -> h (w_sc_log2_16 a.(0))
      | "log2_32" -> h (w_sc_log2_32 a.(0))
      | "log2_32u" -> h (w_sc_log2_32u a.(0))
      | "log2_64" -> h (w_sc_log2_64 a.(0))
      | "log2_64u" -> h (w_sc_log2_64u a.(0))
      | "ru32" -> h (w_sc_roundup2_32 a.(0))
      | "ru64" -> h (w_sc_roundup2_64 a.(0))
      | "min" -> h (w_sc_min a.(0) a.(1))
      | "max" -> h (w_sc_max a.(0) a.(1))
      | _ -> "UNKNOWN_OP"
    in print_endline out)
