(* C11 driver: runs the extracted sink/source model on the case file (stdin), one result line per case,
   in the same textual format as tools/harness/c11_harness.c (format described in checks/C11.py). *)
let rec int_of_pos p = match p with XH -> 1 | XO q -> 2 * int_of_pos q | XI q -> 2 * int_of_pos q + 1
let iz = function Z0 -> 0 | Zpos p -> int_of_pos p | Zneg p -> - (int_of_pos p)
let ztab = Array.init 256 z_of_int
let zi i = if i >= 0 && i < 256 then ztab.(i) else z_of_int i
let zi_big i = z_of_int i
let zl l = List.map zi l
let il l = List.map iz l
let junk = fun _ -> zi 0xCD
let sent = 0xEE

let lcg len seed =
  let x = ref seed in
  List.init len (fun _ -> x := (!x * 1103515245 + 12345) land 0x7fffffff; (!x lsr 16) land 0xff)

let split c s = String.split_on_char c s

let parse_bytes s : int list =
  if s = "-" || s = "" then []
  else if s.[0] = '#' then
    (match split ',' (String.sub s 1 (String.length s - 1)) with
     | [l; sd] -> lcg (int_of_string l) (int_of_string sd)
     | _ -> failwith "bad # spec")
  else List.init (String.length s / 2) (fun i -> int_of_string ("0x" ^ String.sub s (2 * i) 2))

let dump (l : int list) : string =
  let n = List.length l in
  if n = 0 then "."
  else if n > 1024 then begin
    let h = ref 0xcbf29ce484222325L in
    List.iter (fun b -> h := Int64.mul (Int64.logxor !h (Int64.of_int b)) 0x100000001b3L) l;
    Printf.sprintf "H%d:%Lx" n !h
  end else begin
    let b = Buffer.create (2 * n) in
    List.iter (fun x -> Buffer.add_string b (Printf.sprintf "%02x" x)) l;
    Buffer.contents b
  end

let d i = string_of_int i
let dz x = string_of_int (iz x)
let rec repeat_int x n = if n <= 0 then [] else x :: repeat_int x (n - 1)

(* ---- sinks ---- *)
let sink_state s =
  let cnt = match s.k_dev with DBuf a -> dz a.a_cnt | DFile (_, _) -> "-" in
  Printf.sprintf "%s,%s,%s,%s" (dz s.k_bb) (dz s.k_in) (dz s.k_out) cnt

let opt_fault parts idx = if List.length parts > idx then Some (zi (int_of_string (List.nth parts idx))) else None

let run_sink toks =
  match toks with
  | dev :: mode :: esz :: old :: cap :: ops ->
    let esz = int_of_string esz and cap = int_of_string cap in
    let old = parse_bytes old in
    let append = (mode = "a" || mode = "A") in
    let s0 = match dev with
      | "b" -> sink_new_buffer junk append { a_esz = zi esz; a_cnt = zi (List.length old / esz); a_view = false; a_mem = zl old }
      | "v" -> let mem = old @ repeat_int sent (cap * esz - List.length old) in
        sink_new_buffer junk append { a_esz = zi esz; a_cnt = zi (List.length old / esz); a_view = true; a_mem = zl mem }
      | "n" -> (match sink_new_filename true append (zl old) with Some s -> s | None -> failwith "open")
      | "f" -> sink_new_filefile (if mode = "a" || mode = "A" then zl old else [])
      | _ -> failwith "bad dev" in
    let out = Buffer.create 256 in
    let s = ref s0 in
    let final = ref "" in
    List.iter (fun op ->
      let parts = split ':' op in
      let tok = match List.hd parts with
        | "w" ->
          let data = zl (parse_bytes (List.nth parts 1)) in
          let (s', (rc, _)) = sink_step junk !s (SWrite (data, opt_fault parts 2)) in
          s := s'; Printf.sprintf "%s,%s" (dz rc) (sink_state s')
        | "a" ->
          let al = zi (int_of_string (List.nth parts 1)) in
          let (s', (rc, _)) = sink_step junk !s (SAlign (al, opt_fault parts 2)) in
          s := s'; Printf.sprintf "%s,%s" (dz rc) (sink_state s')
        | "c" ->
          let ff = List.length parts > 1 in
          let (s', (rc, rep)) = sink_step junk !s (SComplete ff) in
          s := s';
          let r = match rep with Some (a, b) -> dz a ^ "," ^ dz b | None -> "-,-" in
          Printf.sprintf "%s,%s,%s" (dz rc) (sink_state s') r
        | "C" ->
          (* complete with NULL counter pointers (mask bit 0: bytes_in wanted, bit 1: bytes_out wanted): the model's
             report is what WOULD be stored; the state change does not depend on the pointers *)
          let mask = int_of_string (List.nth parts 1) in
          let (s', (rc, rep)) = sink_step junk !s (SComplete false) in
          s := s';
          let r = match rep with
            | Some (a, b) -> (if mask land 1 <> 0 then dz a else "-") ^ "," ^ (if mask land 2 <> 0 then dz b else "-")
            | None -> "-,-" in
          Printf.sprintf "%s,%s,%s" (dz rc) (sink_state s') r
        | "d" ->
          let fl = if List.length parts > 1 then List.nth parts 1 else "" in
          let (rc, dv) = sink_destroy !s (String.contains fl 'F') (String.contains fl 'C') in
          final := (match dv with
              | DBuf a -> if a.a_view then dz a.a_cnt ^ ":" ^ dump (il a.a_mem)
                else (let keep = if append then List.length old else 0 in
                      let show = min (List.length a.a_mem) (max (iz !s.k_bb) keep) in
                      dz a.a_cnt ^ ":" ^ dump (il (take (zi_big show) a.a_mem)))
              | DFile (_, f) -> dump (il f));
          dz rc
        | _ -> "UNKNOWN_OP" in
      Buffer.add_string out tok; Buffer.add_char out ' ') ops;
    Buffer.contents out ^ "| " ^ !final
  | _ -> "BAD_CASE"

(* ---- sources ---- *)
let src_state s =
  let pb = match s.r_dev with RBuf _ -> dz s.r_bb | RFile (_, _, pos) -> dz pos in
  Printf.sprintf "%s,%s,%s,%d" pb (dz s.r_in) (dz s.r_out) (if s.r_eof then 1 else 0)

let read_fault parts idx =
  if List.length parts > idx then
    (let f = List.nth parts idx in
     if f = "!" then SeekFail
     else match split ',' f with
       | [k; e; r] -> ShortRead (zi (int_of_string k), e = "1", r = "1")
       | _ -> failwith "bad fault")
  else NoFault

let res_fmt r st =
  let cnt = match r.o_cnt with Some c -> dz c | None -> "-" in
  let data = match r.o_data with Some u -> dump (il u) | None -> "-" in
  Printf.sprintf "%s,%s,%s,%s" (dz r.o_rc) cnt st data

let run_source toks =
  match toks with
  | dev :: p :: content :: ops ->
    let p = int_of_string p in
    let content = parse_bytes content in
    let s0 = match dev with
      | "b" | "v" -> source_new_buffer { a_esz = zi p; a_cnt = zi (List.length content / p); a_view = (dev = "v"); a_mem = zl content }
      | "n" -> (match source_new_filename true (zl content) with Some s -> s | None -> failwith "open")
      | "f" -> source_new_filefile (zl content) (zi p)
      | _ -> failwith "bad dev" in
    let out = Buffer.create 256 in
    let s = ref s0 in
    let step op = let (s', r) = source_step junk (zi sent) !s op in s := s'; r in
    List.iter (fun op ->
      let parts = split ':' op in
      let n () = zi (int_of_string (List.nth parts 1)) in
      let tok = match List.hd parts with
        | "r" -> let r = step (RRead (n (), true, true, read_fault parts 2)) in res_fmt r (src_state !s)
        | "x" -> let r = step (RRead (n (), true, false, read_fault parts 2)) in res_fmt r (src_state !s)
        | "s" -> let r = step (RRead (n (), false, true, read_fault parts 2)) in res_fmt r (src_state !s)
        | "t" -> let r = step (RRead (n (), false, false, read_fault parts 2)) in res_fmt r (src_state !s)
        | "M" -> let r = step (RMirrorRead (n (), true, true)) in res_fmt r (src_state !s)
        | "X" -> let r = step (RMirrorRead (n (), true, false)) in res_fmt r (src_state !s)
        | "N" -> let r = step (RMirrorRead (n (), false, true)) in res_fmt r (src_state !s)
        | "a" -> let r = step (RAlign (n (), read_fault parts 2)) in Printf.sprintf "%s,%s" (dz r.o_rc) (src_state !s)
        | "c" -> let r = step RComplete in
          let rep = match r.o_rep with Some (a, b) -> dz a ^ "," ^ dz b | None -> "-,-" in
          Printf.sprintf "%s,%s,%s" (dz r.o_rc) (src_state !s) rep
        | "C" -> let mask = int_of_string (List.nth parts 1) in
          let r = step RComplete in
          let rep = match r.o_rep with
            | Some (a, b) -> (if mask land 1 <> 0 then dz a else "-") ^ "," ^ (if mask land 2 <> 0 then dz b else "-")
            | None -> "-,-" in
          Printf.sprintf "%s,%s,%s" (dz r.o_rc) (src_state !s) rep
        | "m" -> let r = step RMirrorOn in dz r.o_rc
        | "z" -> let _ = step (RResize (n ())) in "0"
        | "d" -> dz (source_destroy !s (List.length parts > 1))
        | _ -> "UNKNOWN_OP" in
      Buffer.add_string out tok; Buffer.add_char out ' ') ops;
    String.trim (Buffer.contents out)
  | _ -> "BAD_CASE"

(* ---- save / load ---- *)
let run_saveload toks =
  match toks with
  | content :: prebuf :: faults ->
    let content = parse_bytes content and prebuf = parse_bytes prebuf in
    let open_ok = ref true and wflt = ref None and ff = ref false and cf = ref false in
    let lopen = ref true and lcf = ref false and rflt = ref [] in
    List.iter (fun f ->
      let parts = split ':' f in
      match List.hd parts with
      | "O" -> open_ok := false
      | "W" -> wflt := Some (zi (int_of_string (List.nth parts 1)))
      | "F" -> ff := true
      | "C" -> cf := true
      | "o" -> lopen := false
      | "c" -> lcf := true
      | "R" -> let i = int_of_string (List.nth parts 1) in
        rflt := List.init i (fun _ -> NoFault) @ [read_fault parts 2]
      | _ -> failwith "bad fault") faults;
    let a = { a_esz = zi 1; a_cnt = zi (List.length content); a_view = false; a_mem = zl content } in
    let (src, file) = file_save junk a !open_ok !wflt !ff !cf in
    let b = { a_esz = zi 1; a_cnt = zi (List.length prebuf); a_view = false; a_mem = zl prebuf } in
    let fuel = nat_of_int (List.length content / 16384 + 3) in
    let lres = file_load junk fuel (if !lopen then file else None) b !rflt !lcf in
    let fdump = match file with Some f -> dump (il f) | None -> "~" in
    let l = match lres with
      | None -> "OUT_OF_FUEL"
      | Some (rc, b') -> if iz rc = 0 then Printf.sprintf "0 %s:%s" (dz b'.a_cnt) (dump (il (take b'.a_cnt b'.a_mem)))
        else Printf.sprintf "%s ?" (dz rc) in
    Printf.sprintf "%s %s %s" (dz src) fdump l
  | _ -> "BAD_CASE"

let () = iter_lines (fun line ->
  match words line with
  | [] -> ()
  | "K" :: r -> print_endline (run_sink r)
  | "R" :: r -> print_endline (run_source r)
  | "L" :: r -> print_endline (run_saveload r)
  | _ -> print_endline "UNKNOWN_CASE")
