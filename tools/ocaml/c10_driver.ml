(* C10 driver: runs the extracted allocation/package machine on the history file (stdin); prints the same lines as
   tools/harness/c10_harness.c.  The address malloc returns for the n-th call is 2^24 * n + k (k = requested misalignment);
   only ptr mod 8 and differences to the raw address are printed. *)
let h = hex_of_z
let nat_of_hex s = nat_of_int (int_of_string ("0x" ^ s))
let hexv c = match c with '0'..'9' -> Char.code c - 48 | 'a'..'f' -> Char.code c - 87 | _ -> Char.code c - 55
let ztab = Array.init 256 z_of_int
let bytes_of s : z list =
  if s = "-" then [] else List.init (String.length s / 2) (fun i -> ztab.(hexv s.[2*i] * 16 + hexv s.[2*i+1]))
let rec int_of_pos p = match p with XH -> 1 | XO q -> 2 * int_of_pos q | XI q -> 2 * int_of_pos q + 1
let iz z = match z with Z0 -> 0 | Zpos p -> int_of_pos p | Zneg p -> - (int_of_pos p)
let hexdig = "0123456789abcdef"
let hexb (l : z list) =
  if l = [] then "-" else begin
    let buf = Buffer.create 64 in
    List.iter (fun b -> let v = iz b land 255 in Buffer.add_char buf hexdig.[v lsr 4]; Buffer.add_char buf hexdig.[v land 15]) l;
    Buffer.contents buf end
let counter = ref 0
let raw_of k = incr counter; z_of_int (!counter * 16777216 + int_of_string ("0x" ^ k))
let parse (w : string list) : op option =
  let a = Array.of_list w in
  let z i = z_of_hex a.(i) and n i = nat_of_hex a.(i) in
  match a.(0) with
  | "malloc" -> Some (OMalloc (z 1, z 2, raw_of a.(3)))
  | "calloc" -> Some (OCalloc (z 1, z 2, z 3, raw_of a.(4)))
  | "realloc" -> Some (ORealloc (z 1, n 2, z 3, raw_of a.(4)))
  | "strdup" -> Some (OStrdup (z 1, (if a.(2) = "NULL" then None else Some (bytes_of a.(2))), raw_of a.(3)))
  | "free" -> Some (OFree (z 1, n 2))
  | "write" -> Some (OWrite (n 1, z 2, bytes_of a.(3)))
  | "read" -> Some (ORead (n 1, z 2, z 3))
  | "register" -> Some (ORegister (z 1))
  | "unregister" -> Some (OUnregister (z 1))
  | "isreg" -> Some (OIsReg (z 1))
  | "check" -> Some (OCheck (z 1))
  | "rc" -> Some (ORc (z 1, z 2))
  | "finalize" -> Some OFinalize
  | _ -> None
let () =
  let st = ref init in
  iter_lines (fun line ->
    match words line with
    | [] -> ()
    | ["H"] -> st := init; counter := 0; print_endline "H 0"
    | ["E"] -> print_endline "E 0"
    | w ->
      (match parse w with
       | None -> print_endline "UNKNOWN_OP"
       | Some o ->
         let legal = legal_step0 !st o in
         st := step0 !st o;
         let out = match !st.s_outs with x :: _ -> x | [] -> [] in
         let res = match o with
           | ORead (_, _, _) -> hexb out
           | _ -> (match out with [] -> "-" | l -> String.concat " " (List.map h l)) in
         let buf = Buffer.create 128 in
         if not legal then Buffer.add_string buf "ILLEGAL ";
         if !st.s_bad then Buffer.add_string buf "BAD ";
         Buffer.add_string buf res;
         Buffer.add_string buf " ; -1:";
         Buffer.add_string buf (h (status !st (z_of_int (-1))));
         for k = 0 to 31 do
           let zk = z_of_int k in
           if is_reg !st zk then Buffer.add_string buf (Printf.sprintf " %x:%s" k (h (status !st zk)))
         done;
         print_endline (Buffer.contents buf)))
