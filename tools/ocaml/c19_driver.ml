(* C19 driver: runs the extracted log model on the scenario file (stdin), same format as
   tools/harness/c19_harness.c.  argv[1] = rank of the process (identifier after sc_init with a
   communicator), argv[2] = "dbg" for the SC_ENABLE_DEBUG configuration. *)
let rank = if Array.length Sys.argv > 1 then int_of_string Sys.argv.(1) else 0
let dbg = Array.length Sys.argv > 2 && Sys.argv.(2) = "dbg"
let zi = z_of_int
let show_ev (((((((k, h), s), p), c), q), m)) =
  String.concat "," (List.map (fun z -> string_of_int (int_of_z z)) [k; h; s; p; c; q; m])

let ops_of_token (tok : string) : op list =
  match words tok with
  | [] -> []
  | name :: args ->
    let a = Array.of_list (List.map int_of_string args) in
    let z i = zi a.(i) in
    (match name with
     | "D" -> [OSetDefaults (z 0, z 1, z 2)]
     | "R" -> [ORegister (z 0, z 1)]
     | "U" -> [OUnregister (z 0)]
     | "V" -> [OSetVerbosity (z 0, z 1)]
     | "I" -> [OInit ((if a.(0) <> 0 then zi rank else zi (-1)), z 1, z 2)]
     | "F" -> [OFinalize]
     | "T" -> [OTrace ((if a.(0) <> 0 then zi 3 else zi 0), z 1)]
     | "L" -> [OLog (z 0, z 1, z 2, z 3)]
     | "Lv" -> [OLogv (z 0, z 1, z 2, z 3)]
     | "G" -> [OGenLog (z 0, z 1, z 2, z 3)]
     | "Gf" -> [OGenLogf (z 0, z 1, z 2, z 3)]
     | "W" | "Wv" ->
       let l = ref [] and m = ref a.(1) in
       for c = -1 to 3 do for q = -2 to 11 do
         l := (if name = "W" then OLog (z 0, zi c, zi q, zi !m) else OLogv (z 0, zi c, zi q, zi !m)) :: !l; incr m done done;
       List.rev !l
     | _ -> failwith ("unknown operation " ^ name))

let () = iter_lines (fun line ->
  if String.trim line <> "" then begin
    let st = ref (init_state dbg) in
    let groups = ref [] in
    let aborted = ref false in
    List.iter (fun tok ->
      if not !aborted && String.trim tok <> "" then begin
        let evs = ref [] in
        List.iter (fun o ->
          if not !aborted then
            match step dbg !st o with
            | None -> aborted := true
            | Some (st', e) ->
              st := st';
              evs := !evs @ List.map (fun x -> show_ev (observe st' x)) (List.filter visible e))
          (ops_of_token tok);
        groups := (if !aborted then "ABORT" else String.concat " " !evs) :: !groups
      end) (String.split_on_char ';' line);
    print_endline (String.concat "|" (List.rev !groups))
  end)
