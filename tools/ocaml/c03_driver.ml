(* USES cosim *)
(* C03 driver.
   "prog <P> <me> <doall 0|1> <target> | events"  -> token-mode co-simulation of the per-rank program
   "tree <P>"                                     -> the symbolic result of the global model
   "hist <P> <me> <doall> <target> <doall> <target> ... | events"
                                                  -> token-mode co-simulation of the whole rank trace of a SEQUENCE of calls
                                                     against the history program hist_prog (C03/ReduceHist.v); the buffer of
                                                     rank r in call j is the leaf 65536 * j + r *)
let one = z_of_int 1
let () = iter_lines (fun line ->
  if String.trim line = "" then () else
  let (ps, evs) = split_line line in
  match ps with
  | ["prog"; p; me; doall; target] ->
    let p = z_of_hex p and me = z_of_hex me and target = z_of_hex target in
    let m = Z.add (w_sc_log2_32 (Z.sub p one)) one in
    let prog = reduce_prog p m (doall = "1") target me in
    print_endline (cosim ~token:true prog evs)
  | "hist" :: p :: me :: rest ->
    let p = z_of_hex p and me = z_of_hex me in
    let rec pairs l = (match l with da :: t :: r -> (da = "1", z_of_hex t) :: pairs r | _ -> []) in
    let prog = hist_prog p me (hist_calls Z0 (pairs rest)) [] in
    print_endline (cosim ~token:true prog evs)
  | ["tree"; p] -> print_endline (string_of_pl (sym_reduce_result (z_of_hex p)))
  | _ -> print_endline "BAD_PARAMS")
