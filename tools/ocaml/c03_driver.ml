(* USES cosim *)
(* C03 driver.
   "prog <P> <me> <doall 0|1> <target> | events"  -> token-mode co-simulation of the per-rank program
   "tree <P>"                                     -> the symbolic result of the global model *)
let one = z_of_int 1
let () = iter_lines (fun line ->
  if String.trim line = "" then () else
  let (ps, evs) = split_line line in
  match ps with
  | ["prog"; p; me; doall; target] ->
    let p = z_of_hex p and me = z_of_hex me and target = z_of_hex target in
    let m = Z.add (w_sc_log2_32 (Z.sub p one)) one in
    let prog = reduce_prog p m (doall = "1") target me in
    print_endline (cosim ~token:true prog evs)
  | ["tree"; p] -> print_endline (string_of_pl (sym_reduce_result (z_of_hex p)))
  | _ -> print_endline "BAD_PARAMS")
