(* USES cosim *)
(* C01/C02 driver.  Lines:
     merge <npay> | <ints of input> | <ints of second>     -> the ints of the merged array (model of sc_notify_merge)
     prog <typ> <P> <me> <ntop> <nint> <nbot> <sorted> <haspay> <sz> <eager> <receivers> <items> | <events>
                                                           -> OK / MISMATCH ... (co-simulation of notify_prog)
       receivers: comma separated, "-" when empty; items: one per receiver, separated by '/', bytes comma separated
     progv ... (sc_notify_payloadv for pcx / rsx), see below
     cfg <thr0> <P> <me> | <ops>                           -> what the state model of the notify object (C01/Reconfig.v) shows after
                                                              the history <ops> on a fresh object: type thr x y z ctx
       ops: T t | W a b c | R n | E n | S k | N  (set_type, set_widths, set_num_ranges, set_eager_threshold, set_callback, new)
     hprog <thr0> <P> <me> <sorted> <haspay> <sz> <receivers> <items> <extra> <supers> OPS <ops> | <events>
                                                           -> co-simulation of the round the model executes after the history
   Integers are hexadecimal, negative with a leading '-'. *)
let ints s = List.map z_of_hex (words s)
let show l = if l = [] then "-" else String.concat " " (List.map hex_of_z l)
let items s = if s = "-" || s = "" then [] else List.map pl_of_string (String.split_on_char '/' s)
let rec parse_ops (w : string list) : nop list =
  let z = z_of_hex in
  match w with
  | [] -> []
  | "T" :: t :: r -> OpType (z t) :: parse_ops r
  | "W" :: a :: b :: c :: r -> OpWidths (z a, z b, z c) :: parse_ops r
  | "R" :: n :: r -> OpRanges (z n) :: parse_ops r
  | "E" :: n :: r -> OpThresh (z n) :: parse_ops r
  | "S" :: k :: r -> OpCallback (z k, z k) :: parse_ops r
  | "N" :: r -> OpNew :: parse_ops r
  | x :: _ -> failwith ("bad op " ^ x)
(* the globals of the harness process: default type pex, default widths 2 2 2, 25 ranges; thr0 = default eager threshold *)
let env thr0 p me = { e_P = z_of_hex p; e_me = z_of_hex me; e_type_default = z_of_int 3; e_thresh_default = z_of_hex thr0;
                      e_ntop_default = z_of_int 2; e_nint_default = z_of_int 2; e_nbot_default = z_of_int 2; e_nranges_default = z_of_int 25 }
let rec split_at_ops (w : string list) (acc : string list) = match w with
  | [] -> (List.rev acc, [])
  | "OPS" :: r -> (List.rev acc, r)
  | x :: r -> split_at_ops r (x :: acc)
let () = iter_lines (fun line ->
  if String.trim line = "" then () else
  match words line with
  | "merge" :: _ ->
    (match String.split_on_char '|' line with
     | [hd; a; b] ->
       (match words hd with
        | ["merge"; np] -> print_endline (show (notify_merge (z_of_hex np) (ints a) (ints b)))
        | _ -> print_endline "BAD")
     | _ -> print_endline "BAD")
  | "prog" :: _ ->
    let (ps, evs) = split_line line in
    (match ps with
     | _ :: typ :: p :: me :: ntop :: nint :: nbot :: sorted :: haspay :: sz :: eager :: r :: its :: more ->
       let (extra, supers) = (match more with [a; b] -> (pl_of_string a, pl_of_string b) | _ -> ([], [])) in
       let z = z_of_hex in
       let pays = if haspay = "1" then Some (items its) else None in
       let prog = notify_prog (nat_of_int (List.length evs + 2)) (z typ) (z p) (z me) (z ntop) (z nint) (z nbot) (sorted = "1") (pl_of_string r) pays (z sz) (eager = "1") extra supers in
       print_endline (try cosim prog evs with e -> "MISMATCH exception " ^ Printexc.to_string e)
     | _ -> print_endline "BAD_PARAMS")
  | "cfg" :: _ ->
    (match String.split_on_char '|' line with
     | [hd; ops] ->
       (match words hd with
        | ["cfg"; thr0; p; me] ->
          print_endline (try show (obj_obs (obj_run (env thr0 p me) (parse_ops (words ops)))) with e -> "BAD " ^ Printexc.to_string e)
        | _ -> print_endline "BAD")
     | _ -> print_endline "BAD")
  | "hprog" :: _ ->
    let (ps0, evs) = split_line line in
    let (ps, ops) = split_at_ops ps0 [] in
    (match ps with
     | [_; thr0; p; me; sorted; haspay; sz; r; its; ex; su] ->
       let pays = if haspay = "1" then Some (items its) else None in
       print_endline (try
         let prog = obj_round_hist (nat_of_int (List.length evs + 2)) (env thr0 p me) (parse_ops ops) (sorted = "1") (pl_of_string r) pays (z_of_hex sz)
                      (pl_of_string ex) (pl_of_string su) in
         cosim prog evs with e -> "MISMATCH exception " ^ Printexc.to_string e)
     | _ -> print_endline "BAD_PARAMS")
  | "progv" :: _ ->
    (* progv <typ 4|5> <P> <me> <sorted> <msz> <receivers> <lens> <slices separated by '/'> | <events> *)
    let (ps, evs) = split_line line in
    (match ps with
     | [_; typ; p; _me; sorted; msz; r; lens; sl] ->
       let z = z_of_hex in
       let kind = if typ = "4" then k_RSB else k_RMA in
       let slices = if sl = "-" then [] else List.map (fun x -> if x = "." then [] else pl_of_string x) (String.split_on_char '/' sl) in
       let prog = censusv_core kind (z p) (pl_of_string r) (pl_of_string lens) slices (z msz) (sorted = "1") in
       print_endline (try cosim prog evs with e -> "MISMATCH exception " ^ Printexc.to_string e)
     | _ -> print_endline "BAD_PARAMS")
  | _ -> print_endline "BAD")
