(* USES cosim *)
(* C01/C02 driver.  Lines:
     merge <npay> | <ints of input> | <ints of second>     -> the ints of the merged array (model of sc_notify_merge)
     prog <typ> <P> <me> <ntop> <nint> <nbot> <sorted> <haspay> <sz> <eager> <receivers> <items> | <events>
                                                           -> OK / MISMATCH ... (co-simulation of notify_prog)
       receivers: comma separated, "-" when empty; items: one per receiver, separated by '/', bytes comma separated
     progv ... (sc_notify_payloadv for pcx / rsx), see below
   Integers are hexadecimal, negative with a leading '-'. *)
let ints s = List.map z_of_hex (words s)
let show l = if l = [] then "-" else String.concat " " (List.map hex_of_z l)
let items s = if s = "-" || s = "" then [] else List.map pl_of_string (String.split_on_char '/' s)
let () = iter_lines (fun line ->
  if String.trim line = "" then () else
  match words line with
  | "merge" :: _ ->
    (match String.split_on_char '|' line with
     | [hd; a; b] ->
       (match words hd with
        | ["merge"; np] -> print_endline (show (notify_merge (z_of_hex np) (ints a) (ints b)))
        | _ -> print_endline "BAD")
     | _ -> print_endline "BAD")
  | "prog" :: _ ->
    let (ps, evs) = split_line line in
    (match ps with
     | _ :: typ :: p :: me :: ntop :: nint :: nbot :: sorted :: haspay :: sz :: eager :: r :: its :: more ->
       let (extra, supers) = (match more with [a; b] -> (pl_of_string a, pl_of_string b) | _ -> ([], [])) in
       let z = z_of_hex in
       let pays = if haspay = "1" then Some (items its) else None in
       let prog = notify_prog (nat_of_int (List.length evs + 2)) (z typ) (z p) (z me) (z ntop) (z nint) (z nbot) (sorted = "1") (pl_of_string r) pays (z sz) (eager = "1") extra supers in
       print_endline (try cosim prog evs with e -> "MISMATCH exception " ^ Printexc.to_string e)
     | _ -> print_endline "BAD_PARAMS")
  | "progv" :: _ ->
    (* progv <typ 4|5> <P> <me> <sorted> <msz> <receivers> <lens> <slices separated by '/'> | <events> *)
    let (ps, evs) = split_line line in
    (match ps with
     | [_; typ; p; _me; sorted; msz; r; lens; sl] ->
       let z = z_of_hex in
       let kind = if typ = "4" then k_RSB else k_RMA in
       let slices = if sl = "-" then [] else List.map (fun x -> if x = "." then [] else pl_of_string x) (String.split_on_char '/' sl) in
       let prog = censusv_core kind (z p) (pl_of_string r) (pl_of_string lens) slices (z msz) (sorted = "1") in
       print_endline (try cosim prog evs with e -> "MISMATCH exception " ^ Printexc.to_string e)
     | _ -> print_endline "BAD_PARAMS")
  | _ -> print_endline "BAD")
