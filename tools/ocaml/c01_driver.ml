(* C01/C02 driver.  Lines:
     merge <npay> | <ints of input> | <ints of second>     -> the ints of the merged array (model of sc_notify_merge)
   Integers are hexadecimal, negative with a leading '-'. *)
let ints s = List.map z_of_hex (words s)
let show l = if l = [] then "-" else String.concat " " (List.map hex_of_z l)
let () = iter_lines (fun line ->
  if String.trim line = "" then () else
  match String.split_on_char '|' line with
  | [hd; a; b] ->
    (match words hd with
     | ["merge"; np] -> print_endline (show (notify_merge (z_of_hex np) (ints a) (ints b)))
     | _ -> print_endline "BAD")
  | _ -> print_endline "BAD")
