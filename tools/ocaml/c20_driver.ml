(* C20 driver: runs the extracted accessor model on the scenario file (stdin), same format as
   tools/harness/c20_harness.c.  argv[1] = "mpi" for builds with SC_ENABLE_MPI (the shmem type is a
   communicator attribute there and survives from scenario to scenario, as in the harness process). *)
let mpi = Array.length Sys.argv > 1 && Sys.argv.(1) = "mpi"
let junk = (z_of_int 0, z_of_int 0)
let op_of (tok : string) : op option =
  match words tok with
  | [] -> None
  | name :: args ->
    let a = Array.of_list (List.map z_of_hex args) in
    Some (match name with
      | "new" -> ONew (a.(0), a.(1)) | "destroy" -> ODestroy a.(0)
      | "settype" -> OSetType (a.(0), a.(1)) | "gettype" -> OGetType a.(0)
      | "seteager" -> OSetEager (a.(0), a.(1)) | "geteager" -> OGetEager a.(0)
      | "setstats" -> OSetStats (a.(0), a.(1)) | "getstats" -> OGetStats a.(0)
      | "getcomm" -> OGetComm a.(0)
      | "setw" -> OSetWidths (a.(0), a.(1), a.(2), a.(3))
      | "getw" -> OGetWidths (a.(0), a.(1), a.(2), a.(3), a.(4), a.(5), a.(6))
      | "setnr" -> OSetNr (a.(0), a.(1)) | "getnr" -> OGetNr a.(0)
      | "setpk" -> OSetPk (a.(0), a.(1)) | "getpk" -> OGetPk a.(0)
      | "setcb" -> OSetCb (a.(0), a.(1), a.(2)) | "getcb" -> OGetCb a.(0)
      | "defaults" -> ODefaults (a.(0), a.(1), a.(2), a.(3), a.(4), a.(5))
      | "pkgid" -> OPkgId a.(0)
      | "shset" -> OShSet (a.(0), a.(1)) | "shget" -> OShGet a.(0)
      | "spacing" -> OSpacing (a.(0), a.(1)) | "spacing0" -> OSpacing0
      | "use" -> OUse (a.(0), a.(1), a.(2)) | "usev" | "usevn" -> OUseV (a.(0), a.(1))
      | "shuse" -> OShUse (a.(0), a.(1)) | "spacingu" -> OSpacingU (a.(0), a.(1), a.(2))
      | _ -> failwith ("unknown operation " ^ name))

let () =
  let shmem = ref (w_shmem init_world) in
  iter_lines (fun line ->
    if String.trim line <> "" then begin
      let w = ref (if mpi then with_shmem init_world !shmem else init_world) in
      let groups = ref [] and aborted = ref false in
      List.iter (fun tok ->
        if not !aborted then
          match op_of tok with
          | None -> ()
          | Some o ->
            (match step mpi junk !w o with
             | None -> aborted := true; groups := "ILLEGAL" :: !groups
             | Some (w', out) -> w := w'; groups := String.concat "," (List.map hex_of_z out) :: !groups))
        (String.split_on_char ';' line);
      shmem := w_shmem !w;
      print_endline (String.concat "|" (List.rev !groups))
    end)
