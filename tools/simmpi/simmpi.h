/*
 * simmpi.h - harness API of the simulated MPI runtime (see README.md).
 *
 * A harness fills a simmpi_opts, calls simmpi_run() with a per-rank main
 * function and inspects the return code and the report.  Inside the rank
 * function the code under test uses the plain MPI API of mpi.h.
 */
#ifndef SIMMPI_H
#define SIMMPI_H

#include <stddef.h>

#ifdef __cplusplus
extern              "C"
{
#endif

/* return codes of simmpi_run (also simmpi_report.code) */
#define SIMMPI_OK               0       /* all ranks returned, end-of-run checks pass */
#define SIMMPI_DEADLOCK         1       /* no rank can move, not all finished */
#define SIMMPI_LIVELOCK         2       /* only hopeless polls remain possible */
#define SIMMPI_MAXSTEPS         3       /* step guard exceeded */
#define SIMMPI_ABORT            4       /* MPI_Abort / simmpi_abort_handler / SIGABRT */
#define SIMMPI_LEFTOVER         5       /* unreceived messages, pending requests, open collectives */
#define SIMMPI_ERROR            6       /* erroneous MPI usage detected (see report text) */
#define SIMMPI_REPLAY_DIVERGED  7       /* replay log does not fit the run */
#define SIMMPI_LEAK             8       /* only with opts.leak_is_error */
#define SIMMPI_BADOPTS          9       /* invalid options / files cannot be opened / nested run */

/* adversaries (simmpi_opts.adversary) */
#define SIMMPI_ADV_RANDOM       0       /* everything uniform random */
#define SIMMPI_ADV_STARVE       1       /* starve one random rank while any other can move */
#define SIMMPI_ADV_LIFO         2       /* newest eligible wildcard match, latest collective exit */
#define SIMMPI_ADV_RENDEZVOUS   3       /* all standard sends complete only when matched */
#define SIMMPI_ADV_EAGER        4       /* all standard sends buffered, earliest collective exit */
#define SIMMPI_ADV_STINGY       5       /* single-completion Waitsome, maximal "not yet" answers */
#define SIMMPI_ADV_LOWFIRST     6       /* lowest runnable rank first */
#define SIMMPI_ADV_HIGHFIRST    7       /* highest runnable rank first */
#define SIMMPI_NUM_ADVERSARIES  8

typedef struct simmpi_opts
{
  int                 nranks;           /* number of simulated ranks, >= 1 */
  unsigned long       seed;             /* seeds the one PRNG behind every decision */
  int                 adversary;        /* SIMMPI_ADV_* */
  int                 ppn;              /* ranks per node for MPI_COMM_TYPE_SHARED; <= 0: one node */
  int                 noncontig_nodes;  /* 0: node = rank / ppn; 1: round robin, node = rank % nnodes */
  const char         *trace_path;       /* per-call trace (JSON lines), NULL = off */
  const char         *decision_log;     /* every scheduler decision, for exact replay; NULL = off */
  const char         *replay_log;       /* replay the decisions of this file; NULL = off */
  long                max_steps;        /* step guard; <= 0: default 20000000 */
  int                 livelock_polls;   /* hopeless polls per rank before LIVELOCK; <= 0: 64 */
  int                 poll_budget;      /* hopeless polls a rank may run after each event that concerns it while others can work; <= 0: 4 */
  int                 max_denials;      /* bound K of consecutive "not yet" answers, < 0: 8 */
  long                eager_limit;      /* standard sends above this many bytes are never buffered; < 0: no limit */
  size_t              stack_kib;        /* coroutine stack size in KiB; 0: 2048 */
  int                 trace_local;      /* also trace local calls (Comm_rank, Comm_size, attributes, ...) */
  int                 leak_is_error;    /* return SIMMPI_LEAK when objects are left unfreed */
  int                 no_sigabrt;       /* do not catch SIGABRT raised inside a rank */
  int                 verbose;          /* print the report to stderr when the run fails */
}
simmpi_opts;

typedef struct simmpi_report
{
  int                 code;             /* same as return value of simmpi_run */
  long                steps;            /* scheduler steps taken */
  long                decisions;        /* logged decisions */
  long                calls;            /* MPI calls traced (whether or not a trace file is written) */
  int                 abort_rank;       /* world rank that aborted, -1 if none */
  int                 abort_code;       /* error code passed to MPI_Abort */
  int                 nerrors;          /* erroneous MPI usage items */
  int                 nwarnings;        /* suspicious but legal items (e.g. MPI_MODE_NOCHECK violated) */
  int                 nleftover_msgs;   /* unreceived messages */
  int                 nleftover_reqs;   /* requests never completed by Wait/Test, posted receives unmatched */
  int                 nleftover_colls;  /* collectives entered by some but not all members */
  int                 nleaks;           /* communicators, windows, keyvals, ops, datatypes, groups, infos, memory */
  int                 replay_diverged;  /* replay log did not fit */
  char               *text;             /* human readable report, malloc'ed; never NULL after simmpi_run */
}
simmpi_report;

typedef void        (*simmpi_main_t) (int rank, int size, void *arg);

/** Fill \a o with defaults (nranks 1, seed 0, adversary 0, everything else off). */
void                simmpi_opts_default (simmpi_opts * o);

/** Run \a fn on o->nranks simulated ranks.  \a rep may be NULL.
 * Can be called any number of times in one process, not recursively.
 * \return SIMMPI_OK or one of the codes above. */
int                 simmpi_run (const simmpi_opts * o, simmpi_main_t fn,
                                void *arg, simmpi_report * rep);

/** Free the text of a report (safe on a zeroed report). */
void                simmpi_report_free (simmpi_report * rep);

/** Name of a return code ("OK", "DEADLOCK", ...). */
const char         *simmpi_code_name (int code);

/** Abort the simulated run from inside a rank without returning; the run ends
 * with SIMMPI_ABORT.  Suitable as libsc abort handler:
 *   sc_set_abort_handler (simmpi_abort_handler);
 * Outside of a run it calls abort (). */
void                simmpi_abort_handler (void);

/** World rank of the calling coroutine, -1 outside of a run. */
int                 simmpi_current_rank (void);

/** Forget all attribute keyvals (they survive runs because libsc caches them
 * in static variables). Only call this between runs. */
void                simmpi_reset_keyvals (void);

/** Add a free-form JSON line {"r":rank,"s":seq,"f":"note","text":...} to the trace. */
void                simmpi_trace_note (const char *text);

#ifdef __cplusplus
}
#endif

#endif /* !SIMMPI_H */
