/*
 * simmpi.c - deterministic, adversarial simulated MPI runtime (see README.md).
 *
 * P ranks run as ucontext coroutines on private mmap'ed stacks inside one
 * process and one OS thread.  Every communication call is a scheduling point:
 * the rank publishes a descriptor of what it is about to do (sim_op) and
 * switches to the scheduler, which knows for every rank whether its pending
 * operation is enabled.  All nondeterminism flows through decide().
 */
#define _GNU_SOURCE
#include "mpi.h"
#include "simmpi.h"

#include <ucontext.h>
#include <stdio.h>
#include <stdlib.h>
#include <string.h>
#include <stdarg.h>
#include <signal.h>
#include <errno.h>
#include <dlfcn.h>
#include <unistd.h>
#include <wchar.h>
#include <sys/mman.h>

/* ASan fiber annotations; weak so that this file works with and without ASan */
void                __sanitizer_start_switch_fiber (void **, const void *,
                                                    size_t)
  __attribute__ ((weak));
void                __sanitizer_finish_switch_fiber (void *, const void **,
                                                     size_t *)
  __attribute__ ((weak));
void                __asan_unpoison_memory_region (void const volatile *,
                                                   size_t)
  __attribute__ ((weak));

typedef unsigned long long u64;

/* ------------------------------------------------------------ small utils */

static void        *
xmalloc (size_t n)
{
  void               *p = malloc (n ? n : 1);
  if (p == NULL) {
    fprintf (stderr, "simmpi: out of memory\n");
    abort ();
  }
  return p;
}

static void        *
xcalloc (size_t n, size_t m)
{
  void               *p = calloc (n ? n : 1, m ? m : 1);
  if (p == NULL) {
    fprintf (stderr, "simmpi: out of memory\n");
    abort ();
  }
  return p;
}

static void        *
xrealloc (void *q, size_t n)
{
  void               *p = realloc (q, n ? n : 1);
  if (p == NULL) {
    fprintf (stderr, "simmpi: out of memory\n");
    abort ();
  }
  return p;
}

static void        *
xmemdup (const void *p, size_t n)
{
  void               *q = xmalloc (n);
  if (n > 0) {
    memcpy (q, p, n);
  }
  return q;
}

typedef struct sbuf
{
  char               *p;
  size_t              n, cap;
}
sbuf;

static void
sb_reserve (sbuf * b, size_t extra)
{
  if (b->n + extra + 1 > b->cap) {
    size_t              c = b->cap ? b->cap : 256;
    while (b->n + extra + 1 > c) {
      c *= 2;
    }
    b->p = (char *) xrealloc (b->p, c);
    b->cap = c;
  }
}

static void
sb_puts (sbuf * b, const char *s)
{
  size_t              l = strlen (s);
  sb_reserve (b, l);
  memcpy (b->p + b->n, s, l);
  b->n += l;
  b->p[b->n] = '\0';
}

static void         sb_printf (sbuf * b, const char *fmt, ...)
  __attribute__ ((format (printf, 2, 3)));

static void
sb_printf (sbuf * b, const char *fmt, ...)
{
  va_list             ap;
  int                 l;

  sb_reserve (b, 160);
  va_start (ap, fmt);
  l = vsnprintf (b->p + b->n, b->cap - b->n, fmt, ap);
  va_end (ap);
  if (l < 0) {
    return;
  }
  if ((size_t) l >= b->cap - b->n) {
    sb_reserve (b, (size_t) l + 1);
    va_start (ap, fmt);
    vsnprintf (b->p + b->n, b->cap - b->n, fmt, ap);
    va_end (ap);
  }
  b->n += (size_t) l;
}

static void
sb_hex (sbuf * b, const unsigned char *d, size_t n)
{
  static const char   hx[] = "0123456789abcdef";
  size_t              i;
  char               *o;

  sb_reserve (b, 2 * n);
  o = b->p + b->n;
  for (i = 0; i < n; i++) {
    *o++ = hx[d[i] >> 4];
    *o++ = hx[d[i] & 15];
  }
  *o = '\0';
  b->n += 2 * n;
}

static void
sb_free (sbuf * b)
{
  free (b->p);
  b->p = NULL;
  b->n = b->cap = 0;
}

static              u64
fnv1a (const unsigned char *d, size_t n)
{
  u64                 h = 0xcbf29ce484222325ULL;
  size_t              i;
  for (i = 0; i < n; i++) {
    h ^= d[i];
    h *= 0x100000001b3ULL;
  }
  return h;
}

/* ------------------------------------------------------------- structures */

#define HK_MASK     0xfc000000u
#define HK_COMM     0x44000000u
#define HK_GROUP    0x48000000u
#define HK_DTYPE    0x4c000000u
#define HK_OP       0x58000000u
#define HK_INFO     0x5c000000u
#define HK_WIN      0x60000000u
#define HK_KEYVAL   0x64000000u
#define HK_REQ      0x80000000u
#define H_IDX(h)    ((int) ((unsigned) (h) & 0x03ffffffu))

#ifndef TRACE_MAXPAYLOAD
#define TRACE_MAXPAYLOAD 4096
#endif

enum
{ K_NONE =
    0, K_I8, K_U8, K_I16, K_U16, K_I32, K_U32, K_I64, K_U64, K_F32, K_F64,
  K_F80, K_BYTE, K_BOOL, K_2INT, K_DOUBLE_INT, K_FLOAT_INT, K_LONG_INT,
  K_PACKED
};

enum
{ OPI_MAX = 1, OPI_MIN, OPI_SUM, OPI_PROD, OPI_LAND, OPI_BAND, OPI_LOR,
  OPI_BOR, OPI_LXOR, OPI_BXOR, OPI_MINLOC, OPI_MAXLOC, OPI_REPLACE,
  OPI_NO_OP, OPI_NPRE
};

typedef struct sim_dtype
{
  int                 handle;
  char                name[48];
  size_t              size, extent;     /* MPI size and extent of one item */
  int                 kind;     /* K_* of the base element */
  size_t              bsize, bextent, nbase;    /* base element, count per item */
  int                 owner;    /* creating world rank, -1 predefined */
  int                 alive;
}
sim_dtype;

typedef struct sim_opx
{
  int                 handle;
  MPI_User_function  *fn;
  int                 commute;
  int                 owner;
  int                 alive;
}
sim_opx;

typedef struct sim_group
{
  int                 n;
  int                *m;        /* world ranks */
  int                 owner;
  int                 alive;
}
sim_group;

typedef struct sim_keyval
{
  MPI_Comm_copy_attr_function *copy;
  MPI_Comm_delete_attr_function *del;
  void               *extra;
  int                 alive;
  unsigned long       run;      /* run number that created it */
  int                 owner;
}
sim_keyval;

typedef struct sim_attr
{
  struct sim_attr    *next;
  int                 keyval;   /* handle */
  void               *val;
}
sim_attr;

struct sim_comm;
struct sim_req;
struct sim_coll;

typedef struct sim_msg
{
  struct sim_msg     *next, *prev;      /* unexpected queue of (comm, dst) */
  struct sim_comm    *comm;
  int                 src, dst, tag;    /* comm ranks */
  size_t              nbytes;
  unsigned char      *data;     /* packed copy */
  unsigned long       seq;      /* global send order */
  struct sim_req     *sreq;     /* send request completed by the match, or NULL */
  struct sim_req     *ureq;     /* nonblocking send request not yet handed back to its owner: the user's
                                   send buffer still belongs to MPI (see sendbuf_check) */
}
sim_msg;

enum
{ RK_SEND = 1, RK_RECV, RK_IBARRIER };
enum
{ SM_EAGER = 0, SM_RDV = 1, SM_SYNC = 2 };

typedef struct sim_req
{
  int                 idx;
  int                 kind;
  int                 owner;    /* world rank */
  int                 crank;    /* rank of owner in comm */
  long                rseq;     /* per-rank request number, -1 internal */
  struct sim_comm    *comm;
  int                 complete; /* may be reported complete */
  int                 denials;  /* consecutive "not yet" answers given */
  /* send */
  int                 dest, stag, mode;
  size_t              nbytes;
  sim_msg            *msg;      /* while unmatched */
  const void         *ubuf;     /* nonblocking send: the user's buffer, datatype, count ... */
  sim_dtype          *udt;
  int                 ucount;
  sim_msg            *lmsg;     /* ... and the message while it has not been delivered */
  /* recv */
  void               *buf;
  int                 count;
  sim_dtype          *dt;
  int                 src, tag; /* filters */
  sim_msg            *matched;
  struct sim_req     *pnext, *pprev;    /* posted-receive queue */
  int                 posted;
  /* ibarrier */
  struct sim_coll    *coll;
}
sim_req;

enum
{ CK_BARRIER = 1, CK_BCAST, CK_GATHER, CK_GATHERV, CK_SCATTER, CK_ALLGATHER,
  CK_ALLGATHERV, CK_ALLTOALL, CK_ALLTOALLV, CK_REDUCE, CK_ALLREDUCE, CK_RSB,
  CK_SCAN, CK_EXSCAN, CK_IBARRIER, CK_DUP, CK_SPLIT, CK_CREATE, CK_WINCREATE,
  CK_WINSHARED, CK_WINFENCE, CK_WINFREE
};

enum
{ N_NONE = 0, N_ROOT, N_ALL, N_PREFIX };

struct sim_win;

typedef struct sim_coll
{
  struct sim_coll    *next;
  struct sim_comm    *comm;
  long                seq;
  int                 kind, root;
  const char         *fname;
  long                sig;      /* consistency signature, -1 none */
  int                 oph;      /* op handle for reductions */
  int                 nentered, nexited;
  char               *entered;
  void              **contrib;
  size_t             *clen;
  void               *result;   /* cached reduction result */
  struct sim_comm   **newc;     /* per rank, communicator creation */
  struct sim_win     *win;
  sim_req           **ibreq;    /* per rank, Ibarrier */
}
sim_coll;

typedef struct sim_comm
{
  int                 idx;      /* index in S.comms, handle = HK_COMM | idx */
  int                 id;       /* small id for the trace */
  int                 parent_id;
  int                 n;
  int                *m;        /* comm rank -> world rank */
  int                *w2c;      /* world rank -> comm rank or -1 */
  char               *freed;    /* per comm rank */
  int                 nfreed;
  int                 internal; /* hidden communicator of a window */
  int                 is_self;
  sim_msg           **uq_head, **uq_tail;       /* per dst */
  sim_req           **pq_head, **pq_tail;       /* per dst */
  long               *cseq;     /* per rank: next collective number */
  sim_coll           *colls;
  sim_attr          **attrs;    /* per rank */
  const char         *how;      /* creating call */
}
sim_comm;

typedef struct sim_win
{
  int                 idx, id;
  sim_comm           *comm;     /* user communicator (for the trace) */
  sim_comm           *icomm;    /* hidden communicator for fence/free */
  void              **base;
  MPI_Aint           *size;
  int                *disp;
  int                 shared;
  void               *shmem;
  char               *freed;
  int                 nfreed;
  int                *nshared;  /* per target */
  int                *excl;     /* per target: holder or -1 */
  char               *held;     /* n*n: lock type held by origin on target (0,1 shared,2 excl) */
}
sim_win;

enum
{ OP_STEP = 1, OP_RECV, OP_PROBE, OP_IPROBE, OP_WAIT, OP_TEST, OP_COLL,
  OP_SENDWAIT, OP_WINLOCK
};
enum
{ W_ALL = 0, W_ANY, W_SOME };

typedef struct sim_op
{
  int                 kind;
  const char         *fname;
  sim_comm           *comm;
  int                 crank;
  int                 src, tag;
  int                 nreq;
  MPI_Request        *reqs;
  int                 wmode;
  sim_coll           *coll;
  int                 need, upto;
  sim_req            *req;
  sim_win            *win;
  int                 target, locktype;
}
sim_op;

enum
{ RS_READY = 1, RS_DONE };
enum
{ CL_DISABLED = 0, CL_PROD, CL_UPOLL };

typedef struct sim_rank
{
  int                 world;
  int                 state;
  ucontext_t          ctx;
  char               *stack_map;
  size_t              stack_map_size;
  char               *stack;
  size_t              stack_size;
  void               *fake;
  sim_op             *op;
  sim_op              start;    /* pending operation before the first step */
  int                 cl;       /* cached classification of op */
  int                 dirty;    /* cl must be recomputed */
  long                seq;      /* trace sequence */
  long                rseq;     /* request sequence */
  long                upolls;
  int                 probe_denials;
  int                 finalized;
  void              **held;     /* temporaries alive across a scheduling point */
  int                 nheld, capheld;
}
sim_rank;

typedef struct sim_alloc
{
  void               *p;
  size_t              n;
  int                 owner;
}
sim_alloc;

typedef struct sim_replay
{
  char                kind[8];
  int                 n, v;
}
sim_replay;

static struct sim
{
  int                 active;
  simmpi_opts         o;
  int                 P;
  simmpi_main_t       fn;
  void               *arg;
  sim_rank           *ranks;
  sim_rank           *cur;
  int                 nfinished;
  ucontext_t          sched_ctx;
  void               *sched_fake;
  const void         *sched_bottom;
  size_t              sched_size;
  u64                 prng;
  long                steps, epoch, ndecisions, ncalls, wticks;
  int                 term;     /* terminal code set from a rank, 0 none */
  int                 abort_rank, abort_code;
  int                 victim;
  int                 maxden;
  unsigned long       msgseq;
  /* tables */
  sim_comm          **comms;
  int                 ncomms, capcomms;
  sim_comm          **selfs;
  int                 next_comm_id;
  sim_req           **reqs;
  int                 nreqs, capreqs;
  sim_dtype         **dts;
  int                 ndts, capdts;
  sim_opx           **ops;
  int                 nops, capops;
  sim_group         **groups;
  int                 ngroups, capgroups;
  sim_win           **wins;
  int                 nwins, capwins;
  char               *infos;
  int                 ninfos, capinfos;
  sim_alloc          *allocs;
  int                 nallocs, capallocs;
  int                *stamp;
  int                 stampgen;
  /* files */
  FILE               *trace;
  FILE               *dlog;
  sim_replay         *replay;
  long                nreplay, ireplay;
  int                 replaying;
  int                 replay_diverged;
  sbuf                line;     /* current trace line */
  sbuf                errors, warns;
  int                 nerrors, nwarns;
}
S;

static unsigned long sim_run_counter = 0;

/* keyvals survive runs (libsc caches them in static variables) */
static sim_keyval  *KV = NULL;
static int          nKV = 0, capKV = 0;

#define PRE_NDT 34
static sim_dtype    predt[PRE_NDT];
static int          predt_init = 0;

static int          (*real_swapcontext) (ucontext_t *, const ucontext_t *) =
  NULL;

/* ------------------------------------------------------- errors, warnings */

static int          sim_error (int code, const char *fmt, ...)
  __attribute__ ((format (printf, 2, 3)));

static int
sim_error (int code, const char *fmt, ...)
{
  va_list             ap;
  char                buf[512];

  va_start (ap, fmt);
  vsnprintf (buf, sizeof (buf), fmt, ap);
  va_end (ap);
  S.nerrors++;
  if (S.nerrors <= 100) {
    sb_printf (&S.errors, "[ERROR] rank %d: %s (error class %d)\n",
               S.cur != NULL ? S.cur->world : -1, buf, code);
  }
  return code;
}

static void         sim_warn (const char *fmt, ...)
  __attribute__ ((format (printf, 1, 2)));

static void
sim_warn (const char *fmt, ...)
{
  va_list             ap;
  char                buf[512];

  va_start (ap, fmt);
  vsnprintf (buf, sizeof (buf), fmt, ap);
  va_end (ap);
  S.nwarns++;
  if (S.nwarns <= 100) {
    sb_printf (&S.warns, "[WARNING] rank %d: %s\n",
               S.cur != NULL ? S.cur->world : -1, buf);
  }
}

static int
outside (const char *fname)
{
  fprintf (stderr, "simmpi: %s called outside of simmpi_run\n", fname);
  return MPI_ERR_OTHER;
}

#define IN_RUN(fname) do { if (!S.active || S.cur == NULL) return outside (fname); \
  if (S.cur->finalized) return sim_error (MPI_ERR_OTHER, "%s called after MPI_Finalize", fname); } while (0)

/* -------------------------------------------------- PRNG and decision log */

static              u64
prng_next (void)
{
  u64                 z = (S.prng += 0x9e3779b97f4a7c15ULL);
  z = (z ^ (z >> 30)) * 0xbf58476d1ce4e5b9ULL;
  z = (z ^ (z >> 27)) * 0x94d049bb133111ebULL;
  return z ^ (z >> 31);
}

/* Every nondeterministic choice goes through here.  n options, result in
 * [0,n).  forced >= 0: the adversary dictates the value (still logged, so a
 * replay does not need to know the adversary); forced < 0: uniform random. */
static int
decide_v (const char *kind, int n, int forced, const int *vals)
{
  int                 v;

  if (n <= 1) {
    return 0;
  }
  if (S.replaying && !S.replay_diverged) {
    if (S.ireplay >= S.nreplay) {
      S.replay_diverged = 1;
      sb_printf (&S.errors,
                 "[REPLAY] log exhausted at decision %ld (%s %d)\n",
                 S.ndecisions, kind, n);
    }
    else {
      sim_replay         *e = &S.replay[S.ireplay];
      if (strcmp (e->kind, kind) != 0 || e->n != n || e->v < 0 || e->v >= n) {
        S.replay_diverged = 1;
        sb_printf (&S.errors,
                   "[REPLAY] decision %ld: log has '%s %d %d', run needs '%s %d'\n",
                   S.ndecisions, e->kind, e->n, e->v, kind, n);
      }
      else {
        S.ireplay++;
        v = e->v;
        goto done;
      }
    }
  }
  if (forced >= 0 && forced < n) {
    v = forced;
  }
  else {
    v = (int) (prng_next () % (u64) n);
  }
done:
  S.ndecisions++;
  if (S.dlog != NULL) {
    fprintf (S.dlog, "%s %d %d # step %ld rank %d", kind, n, v, S.steps,
             S.cur != NULL ? S.cur->world : -1);
    if (vals != NULL) {
      fprintf (S.dlog, " -> %d", vals[v]);
    }
    fputc ('\n', S.dlog);
  }
  return v;
}

static int
decide (const char *kind, int n, int forced)
{
  return decide_v (kind, n, forced, NULL);
}

/* ------------------------------------------------------------------ trace */

static int
tr_begin (const char *f, sim_comm * c)
{
  sim_rank           *r = S.cur;
  long                s = r->seq++;

  S.ncalls++;
  if (S.trace == NULL) {
    return 0;
  }
  S.line.n = 0;
  sb_printf (&S.line, "{\"r\":%d,\"s\":%ld,\"f\":\"%s\"", r->world, s, f);
  if (c != NULL) {
    sb_printf (&S.line, ",\"c\":%d", c->id);
  }
  return 1;
}

static void
tr_i (const char *k, long v)
{
  sb_printf (&S.line, ",\"%s\":%ld", k, v);
}

static void
tr_s (const char *k, const char *v)
{
  sb_printf (&S.line, ",\"%s\":\"%s\"", k, v);
}

static void
tr_ints (const char *k, const int *a, int n)
{
  int                 i;
  sb_printf (&S.line, ",\"%s\":[", k);
  for (i = 0; i < n; i++) {
    sb_printf (&S.line, i ? ",%d" : "%d", a[i]);
  }
  sb_puts (&S.line, "]");
}

/* payload as lowercase hex under key k; long payloads are cut to
 * TRACE_MAXPAYLOAD bytes and get "<k>_trunc":true,"<k>_h":"<fnv1a-64>"
 * (for the key "d" the markers are plainly "trunc" and "h") */
static void
sb_payload (sbuf * b, const char *k, const void *d, size_t n)
{
  size_t              m = n > TRACE_MAXPAYLOAD ? TRACE_MAXPAYLOAD : n;

  sb_printf (b, ",\"%s\":\"", k);
  if (m > 0) {
    sb_hex (b, (const unsigned char *) d, m);
  }
  sb_puts (b, "\"");
  if (m < n) {
    u64                 h = fnv1a ((const unsigned char *) d, n);
    if (strcmp (k, "d") == 0) {
      sb_printf (b, ",\"trunc\":true,\"h\":\"%016llx\"", h);
    }
    else {
      sb_printf (b, ",\"%s_trunc\":true,\"%s_h\":\"%016llx\"", k, k, h);
    }
  }
}

static void
tr_data (const char *k, const void *d, size_t n)
{
  sb_payload (&S.line, k, d, n);
}

static void
tr_end (void)
{
  sb_puts (&S.line, "}\n");
  fwrite (S.line.p, 1, S.line.n, S.trace);
}

/* ------------------------------------------------------------- coroutines */

static void
switch_to_sched (sim_rank * r, int final)
{
  if (__sanitizer_start_switch_fiber) {
    __sanitizer_start_switch_fiber (final ? NULL : &r->fake, S.sched_bottom,
                                    S.sched_size);
  }
  real_swapcontext (&r->ctx, &S.sched_ctx);
  if (__sanitizer_finish_switch_fiber) {
    __sanitizer_finish_switch_fiber (r->fake, &S.sched_bottom, &S.sched_size);
  }
}

static void
switch_to_rank (sim_rank * r)
{
  S.cur = r;
  if (__sanitizer_start_switch_fiber) {
    __sanitizer_start_switch_fiber (&S.sched_fake, r->stack, r->stack_size);
  }
  real_swapcontext (&S.sched_ctx, &r->ctx);
  if (__sanitizer_finish_switch_fiber) {
    __sanitizer_finish_switch_fiber (S.sched_fake, NULL, NULL);
  }
  S.cur = NULL;
}

static void
rank_trampoline (void)
{
  sim_rank           *r = S.cur;

  if (__sanitizer_finish_switch_fiber) {
    __sanitizer_finish_switch_fiber (NULL, &S.sched_bottom, &S.sched_size);
  }
  S.fn (r->world, S.P, S.arg);
  r->state = RS_DONE;
  r->op = NULL;
  S.nfinished++;
  S.epoch++;
  switch_to_sched (r, 1);
  abort ();                     /* never resumed */
}

/* End the whole run from inside a rank; never returns. */
static void         sim_terminate (int code) __attribute__ ((noreturn));

static void
sim_terminate (int code)
{
  S.term = code;
  switch_to_sched (S.cur, 1);
  abort ();
}

/* Scheduling point: publish the pending operation and let the scheduler
 * decide who moves.  Returns when this rank was chosen and op is enabled. */
static void
yield_op (sim_op * op)
{
  sim_rank           *r = S.cur;

  r->op = op;
  switch_to_sched (r, 0);
  r->op = NULL;
}

static void
yield_step (const char *fname)
{
  sim_op              op;

  memset (&op, 0, sizeof (op));
  op.kind = OP_STEP;
  op.fname = fname;
  yield_op (&op);
}

/* A coroutine that is parked when the run is stopped (deadlock, abort) never
 * resumes: heap temporaries that live across a scheduling point are
 * registered here so that cleanup () can release them. */
static void        *
hold (void *p)
{
  sim_rank           *r = S.cur;

  if (p != NULL) {
    if (r->nheld == r->capheld) {
      r->capheld = r->capheld ? 2 * r->capheld : 4;
      r->held =
        (void **) xrealloc (r->held, (size_t) r->capheld * sizeof (void *));
    }
    r->held[r->nheld++] = p;
  }
  return p;
}

static void
unhold_free (void *p)
{
  sim_rank           *r = S.cur;
  int                 i;

  if (p == NULL) {
    return;
  }
  for (i = r->nheld - 1; i >= 0; i--) {
    if (r->held[i] == p) {
      r->held[i] = r->held[--r->nheld];
      break;
    }
  }
  free (p);
}

/* ---------------------------------------------------------------- lookups */

static sim_comm    *
comm_lookup (MPI_Comm h)
{
  unsigned            u = (unsigned) h;
  int                 idx;

  if ((u & HK_MASK) != HK_COMM) {
    return NULL;
  }
  idx = H_IDX (h);
  if (idx == 1) {
    return S.cur != NULL ? S.selfs[S.cur->world] : NULL;
  }
  if (idx >= S.ncomms) {
    return NULL;
  }
  return S.comms[idx];
}

/* communicator valid for the calling rank; sets *cr to its rank */
static sim_comm    *
comm_get (MPI_Comm h, int *cr, const char *fname)
{
  sim_comm           *c = comm_lookup (h);
  int                 r;

  if (c == NULL || c->internal) {
    sim_error (MPI_ERR_COMM, "%s: invalid communicator handle 0x%x", fname,
               (unsigned) h);
    return NULL;
  }
  r = c->w2c[S.cur->world];
  if (r < 0) {
    sim_error (MPI_ERR_COMM, "%s: rank is not a member of communicator %d",
               fname, c->id);
    return NULL;
  }
  if (c->freed[r]) {
    sim_error (MPI_ERR_COMM, "%s: communicator %d used after MPI_Comm_free",
               fname, c->id);
    return NULL;
  }
  *cr = r;
  return c;
}

static              MPI_Comm
comm_handle (sim_comm * c)
{
  if (c == NULL) {
    return MPI_COMM_NULL;
  }
  if (c->is_self) {
    return MPI_COMM_SELF;
  }
  return (MPI_Comm) (HK_COMM | (unsigned) c->idx);
}

static sim_dtype   *
dt_get (MPI_Datatype h)
{
  unsigned            u = (unsigned) h;
  int                 idx;

  if ((u & HK_MASK) != HK_DTYPE) {
    return NULL;
  }
  idx = H_IDX (h);
  if (idx > 0 && idx < PRE_NDT) {
    return &predt[idx];
  }
  idx -= 256;
  if (idx < 0 || idx >= S.ndts || S.dts[idx] == NULL || !S.dts[idx]->alive) {
    return NULL;
  }
  return S.dts[idx];
}

static sim_req     *
req_get (MPI_Request h)
{
  unsigned            u = (unsigned) h;
  int                 idx;

  if (!(u & HK_REQ)) {
    return NULL;
  }
  idx = (int) (u & 0x7fffffffu);
  if (idx >= S.nreqs) {
    return NULL;
  }
  return S.reqs[idx];
}

static sim_req     *
req_new (int kind, sim_comm * c, int crank, int internal)
{
  sim_req            *q = (sim_req *) xcalloc (1, sizeof (sim_req));

  if (S.nreqs == S.capreqs) {
    S.capreqs = S.capreqs ? 2 * S.capreqs : 256;
    S.reqs = (sim_req **) xrealloc (S.reqs, S.capreqs * sizeof (sim_req *));
  }
  q->idx = S.nreqs;
  S.reqs[S.nreqs++] = q;
  q->kind = kind;
  q->comm = c;
  q->crank = crank;
  q->owner = S.cur->world;
  q->rseq = internal ? -1 : S.cur->rseq++;
  return q;
}

static              MPI_Request
req_handle (sim_req * q)
{
  return (MPI_Request) (HK_REQ | (unsigned) q->idx);
}

static void
req_release (sim_req * q)
{
  if (q->lmsg != NULL) {
    q->lmsg->ureq = NULL;
    q->lmsg = NULL;
  }
  S.reqs[q->idx] = NULL;
  free (q);
}

static sim_win     *
win_get (MPI_Win h, int *cr, const char *fname)
{
  unsigned            u = (unsigned) h;
  int                 idx = H_IDX (h);
  sim_win            *w;
  int                 r;

  if ((u & HK_MASK) != HK_WIN || idx >= S.nwins || S.wins[idx] == NULL) {
    sim_error (MPI_ERR_WIN, "%s: invalid window handle 0x%x", fname, u);
    return NULL;
  }
  w = S.wins[idx];
  r = w->icomm->w2c[S.cur->world];
  if (r < 0 || w->freed[r]) {
    sim_error (MPI_ERR_WIN, "%s: window %d not usable by this rank", fname,
               w->id);
    return NULL;
  }
  *cr = r;
  return w;
}

/* -------------------------------------------------------------- datatypes */

static void
predt_set (int i, const char *name, size_t size, size_t extent, int kind)
{
  sim_dtype          *d = &predt[i];

  memset (d, 0, sizeof (*d));
  d->handle = (int) (HK_DTYPE | (unsigned) i);
  snprintf (d->name, sizeof (d->name), "%s", name);
  d->size = d->bsize = size;
  d->extent = d->bextent = extent;
  d->nbase = 1;
  d->kind = kind;
  d->owner = -1;
  d->alive = 1;
}

static int
ikind (size_t sz, int sign)
{
  switch (sz) {
  case 1:
    return sign ? K_I8 : K_U8;
  case 2:
    return sign ? K_I16 : K_U16;
  case 4:
    return sign ? K_I32 : K_U32;
  default:
    return sign ? K_I64 : K_U64;
  }
}

static void
predt_setup (void)
{
  struct di
  {
    double              d;
    int                 i;
  };
  struct li
  {
    long                l;
    int                 i;
  };
  struct fi
  {
    float               f;
    int                 i;
  };

  if (predt_init) {
    return;
  }
  predt_init = 1;
  memset (predt, 0, sizeof (predt));
  predt_set (H_IDX (MPI_CHAR), "MPI_CHAR", 1, 1, K_I8);
  predt_set (H_IDX (MPI_SIGNED_CHAR), "MPI_SIGNED_CHAR", 1, 1, K_I8);
  predt_set (H_IDX (MPI_UNSIGNED_CHAR), "MPI_UNSIGNED_CHAR", 1, 1, K_U8);
  predt_set (H_IDX (MPI_BYTE), "MPI_BYTE", 1, 1, K_BYTE);
  predt_set (H_IDX (MPI_WCHAR), "MPI_WCHAR", sizeof (wchar_t),
             sizeof (wchar_t), ikind (sizeof (wchar_t), 1));
  predt_set (H_IDX (MPI_SHORT), "MPI_SHORT", sizeof (short), sizeof (short),
             ikind (sizeof (short), 1));
  predt_set (H_IDX (MPI_UNSIGNED_SHORT), "MPI_UNSIGNED_SHORT", sizeof (short),
             sizeof (short), ikind (sizeof (short), 0));
  predt_set (H_IDX (MPI_INT), "MPI_INT", sizeof (int), sizeof (int),
             ikind (sizeof (int), 1));
  predt_set (H_IDX (MPI_UNSIGNED), "MPI_UNSIGNED", sizeof (int), sizeof (int),
             ikind (sizeof (int), 0));
  predt_set (H_IDX (MPI_LONG), "MPI_LONG", sizeof (long), sizeof (long),
             ikind (sizeof (long), 1));
  predt_set (H_IDX (MPI_UNSIGNED_LONG), "MPI_UNSIGNED_LONG", sizeof (long),
             sizeof (long), ikind (sizeof (long), 0));
  predt_set (H_IDX (MPI_LONG_LONG_INT), "MPI_LONG_LONG_INT",
             sizeof (long long), sizeof (long long),
             ikind (sizeof (long long), 1));
  predt_set (H_IDX (MPI_UNSIGNED_LONG_LONG), "MPI_UNSIGNED_LONG_LONG",
             sizeof (long long), sizeof (long long),
             ikind (sizeof (long long), 0));
  predt_set (H_IDX (MPI_FLOAT), "MPI_FLOAT", sizeof (float), sizeof (float),
             K_F32);
  predt_set (H_IDX (MPI_DOUBLE), "MPI_DOUBLE", sizeof (double),
             sizeof (double), K_F64);
  predt_set (H_IDX (MPI_LONG_DOUBLE), "MPI_LONG_DOUBLE", sizeof (long double),
             sizeof (long double), K_F80);
  predt_set (H_IDX (MPI_INT8_T), "MPI_INT8_T", 1, 1, K_I8);
  predt_set (H_IDX (MPI_INT16_T), "MPI_INT16_T", 2, 2, K_I16);
  predt_set (H_IDX (MPI_INT32_T), "MPI_INT32_T", 4, 4, K_I32);
  predt_set (H_IDX (MPI_INT64_T), "MPI_INT64_T", 8, 8, K_I64);
  predt_set (H_IDX (MPI_UINT8_T), "MPI_UINT8_T", 1, 1, K_U8);
  predt_set (H_IDX (MPI_UINT16_T), "MPI_UINT16_T", 2, 2, K_U16);
  predt_set (H_IDX (MPI_UINT32_T), "MPI_UINT32_T", 4, 4, K_U32);
  predt_set (H_IDX (MPI_UINT64_T), "MPI_UINT64_T", 8, 8, K_U64);
  predt_set (H_IDX (MPI_C_BOOL), "MPI_C_BOOL", 1, 1, K_BOOL);
  predt_set (H_IDX (MPI_AINT), "MPI_AINT", sizeof (MPI_Aint),
             sizeof (MPI_Aint), ikind (sizeof (MPI_Aint), 1));
  predt_set (H_IDX (MPI_OFFSET), "MPI_OFFSET", sizeof (MPI_Offset),
             sizeof (MPI_Offset), ikind (sizeof (MPI_Offset), 1));
  predt_set (H_IDX (MPI_COUNT), "MPI_COUNT", sizeof (MPI_Count),
             sizeof (MPI_Count), ikind (sizeof (MPI_Count), 1));
  predt_set (H_IDX (MPI_2INT), "MPI_2INT", 2 * sizeof (int), 2 * sizeof (int),
             K_2INT);
  predt_set (H_IDX (MPI_DOUBLE_INT), "MPI_DOUBLE_INT",
             sizeof (double) + sizeof (int), sizeof (struct di),
             K_DOUBLE_INT);
  predt_set (H_IDX (MPI_FLOAT_INT), "MPI_FLOAT_INT",
             sizeof (float) + sizeof (int), sizeof (struct fi), K_FLOAT_INT);
  predt_set (H_IDX (MPI_LONG_INT), "MPI_LONG_INT",
             sizeof (long) + sizeof (int), sizeof (struct li), K_LONG_INT);
  predt_set (H_IDX (MPI_PACKED), "MPI_PACKED", 1, 1, K_PACKED);
}

/* pack count items of type dt from user memory into contiguous bytes */
static void
dt_pack (unsigned char *dst, const void *src, sim_dtype * dt, size_t count)
{
  size_t              nb = count * dt->nbase, i;

  if (nb == 0 || dt->bsize == 0) {
    return;
  }
  if (dt->bsize == dt->bextent) {
    memcpy (dst, src, nb * dt->bsize);
  }
  else {
    for (i = 0; i < nb; i++) {
      memcpy (dst + i * dt->bsize, (const char *) src + i * dt->bextent,
              dt->bsize);
    }
  }
  if (dt->kind == K_F80 && dt->bsize == 16) {
    /* x87 long double: 10 value bytes, 6 bytes of garbage padding */
    for (i = 0; i < nb; i++) {
      memset (dst + i * 16 + 10, 0, 6);
    }
  }
}

/* unpack nbytes packed bytes into user memory of type dt */
static void
dt_unpack (void *dst, const unsigned char *src, sim_dtype * dt, size_t nbytes)
{
  size_t              nb, i, rest;

  if (nbytes == 0) {
    return;
  }
  if (dt->bsize == dt->bextent || dt->bsize == 0) {
    memcpy (dst, src, nbytes);
    return;
  }
  nb = nbytes / dt->bsize;
  rest = nbytes % dt->bsize;
  for (i = 0; i < nb; i++) {
    memcpy ((char *) dst + i * dt->bextent, src + i * dt->bsize, dt->bsize);
  }
  if (rest) {
    memcpy ((char *) dst + nb * dt->bextent, src + nb * dt->bsize, rest);
  }
}

static unsigned char *
dt_pack_new (const void *src, sim_dtype * dt, size_t count, size_t *nbytes)
{
  size_t              n = count * dt->size;
  unsigned char      *p = (unsigned char *) xmalloc (n);

  dt_pack (p, src, dt, count);
  *nbytes = n;
  return p;
}

/* ------------------------------------------------------------- reductions */

static const char  *opnames[OPI_NPRE] =
  { "?", "MPI_MAX", "MPI_MIN", "MPI_SUM", "MPI_PROD", "MPI_LAND", "MPI_BAND",
  "MPI_LOR", "MPI_BOR", "MPI_LXOR", "MPI_BXOR", "MPI_MINLOC", "MPI_MAXLOC",
  "MPI_REPLACE", "MPI_NO_OP"
};

/* returns 0 for a predefined op (index in *pre), 1 for a user op, -1 invalid */
static int
op_get (MPI_Op h, int *pre, sim_opx ** ux)
{
  unsigned            u = (unsigned) h;
  int                 idx = H_IDX (h);

  if ((u & HK_MASK) != HK_OP) {
    return -1;
  }
  if (idx >= 1 && idx < OPI_NPRE) {
    *pre = idx;
    return 0;
  }
  idx -= 256;
  if (idx < 0 || idx >= S.nops || S.ops[idx] == NULL || !S.ops[idx]->alive) {
    return -1;
  }
  *ux = S.ops[idx];
  return 1;
}

static void
op_name (MPI_Op h, char *buf, size_t n)
{
  int                 pre = 0;
  sim_opx            *ux = NULL;
  int                 k = op_get (h, &pre, &ux);

  if (k == 0) {
    snprintf (buf, n, "%s", opnames[pre]);
  }
  else if (k == 1) {
    snprintf (buf, n, "user%d%s", H_IDX (ux->handle) - 256,
              ux->commute ? "" : "-noncommutative");
  }
  else {
    snprintf (buf, n, "invalid");
  }
}

#define RLOOP(T, EXPR) do { const T *a_ = (const T *) in; T *b_ = (T *) inout; size_t i_; \
  for (i_ = 0; i_ < nel; i_++) { T x = a_[i_], y = b_[i_]; (void) x; (void) y; b_[i_] = (T) (EXPR); } } while (0)

#define RED_INT(T) do { switch (op) { \
  case OPI_MAX: RLOOP (T, x > y ? x : y); break; \
  case OPI_MIN: RLOOP (T, x < y ? x : y); break; \
  case OPI_SUM: RLOOP (T, (u64) x + (u64) y); break; \
  case OPI_PROD: RLOOP (T, (u64) x * (u64) y); break; \
  case OPI_LAND: RLOOP (T, x && y); break; \
  case OPI_BAND: RLOOP (T, x & y); break; \
  case OPI_LOR: RLOOP (T, x || y); break; \
  case OPI_BOR: RLOOP (T, x | y); break; \
  case OPI_LXOR: RLOOP (T, (!x) != (!y)); break; \
  case OPI_BXOR: RLOOP (T, x ^ y); break; \
  case OPI_REPLACE: RLOOP (T, x); break; \
  case OPI_NO_OP: break; \
  default: return MPI_ERR_OP; } } while (0)

#define RED_FLT(T) do { switch (op) { \
  case OPI_MAX: RLOOP (T, x > y ? x : y); break; \
  case OPI_MIN: RLOOP (T, x < y ? x : y); break; \
  case OPI_SUM: RLOOP (T, x + y); break; \
  case OPI_PROD: RLOOP (T, x * y); break; \
  case OPI_REPLACE: RLOOP (T, x); break; \
  case OPI_NO_OP: break; \
  default: return MPI_ERR_OP; } } while (0)

#define RED_LOC(ST) do { const ST *a_ = (const ST *) in; ST *b_ = (ST *) inout; size_t i_; \
  for (i_ = 0; i_ < nel; i_++) { \
    if (op == OPI_MINLOC) { if (a_[i_].v < b_[i_].v || (a_[i_].v == b_[i_].v && a_[i_].i < b_[i_].i)) b_[i_] = a_[i_]; } \
    else if (op == OPI_MAXLOC) { if (a_[i_].v > b_[i_].v || (a_[i_].v == b_[i_].v && a_[i_].i < b_[i_].i)) b_[i_] = a_[i_]; } \
    else if (op == OPI_REPLACE) { b_[i_] = a_[i_]; } \
    else if (op != OPI_NO_OP) return MPI_ERR_OP; } } while (0)

/* inout[i] = in[i] op inout[i] for count items in user layout */
static int
apply_builtin (int op, sim_dtype * dt, const void *in, void *inout,
               size_t count)
{
  size_t              nel = count * dt->nbase;
  struct s2i
  {
    int                 v;
    int                 i;
  };
  struct sdi
  {
    double              v;
    int                 i;
  };
  struct sfi
  {
    float               v;
    int                 i;
  };
  struct sli
  {
    long                v;
    int                 i;
  };

  switch (dt->kind) {
  case K_I8:
    RED_INT (int8_t);
    break;
  case K_U8:
  case K_BOOL:
    RED_INT (uint8_t);
    break;
  case K_BYTE:
    if (op != OPI_BAND && op != OPI_BOR && op != OPI_BXOR
        && op != OPI_REPLACE && op != OPI_NO_OP) {
      return MPI_ERR_OP;
    }
    RED_INT (uint8_t);
    break;
  case K_I16:
    RED_INT (int16_t);
    break;
  case K_U16:
    RED_INT (uint16_t);
    break;
  case K_I32:
    RED_INT (int32_t);
    break;
  case K_U32:
    RED_INT (uint32_t);
    break;
  case K_I64:
    RED_INT (int64_t);
    break;
  case K_U64:
    RED_INT (uint64_t);
    break;
  case K_F32:
    RED_FLT (float);
    break;
  case K_F64:
    RED_FLT (double);
    break;
  case K_F80:
    RED_FLT (long double);
    break;
  case K_2INT:
    RED_LOC (struct s2i);
    break;
  case K_DOUBLE_INT:
    RED_LOC (struct sdi);
    break;
  case K_FLOAT_INT:
    RED_LOC (struct sfi);
    break;
  case K_LONG_INT:
    RED_LOC (struct sli);
    break;
  default:
    return MPI_ERR_TYPE;
  }
  return MPI_SUCCESS;
}

typedef struct redspec
{
  int                 pre;      /* predefined op index or 0 */
  sim_opx            *ux;
  sim_dtype          *dt;
  int                 count;
  size_t              bytes;    /* count * extent */
  void              **contrib;
  int                *order;
  int                 err;
}
redspec;

static void
red_apply (redspec * rs, void *in, void *inout)
{
  if (rs->ux != NULL) {
    int                 len = rs->count;
    MPI_Datatype        h = rs->dt->handle;
    /* an MPI library may apply a user function piecewise (pipelined / segmented reductions call it with len < count
       on consecutive element ranges); every second application of a buffer of two or more elements is cut into two
       or three pieces at element boundaries chosen by the run's generator */
    if (rs->count >= 2 && (prng_next () & 1)) {
      size_t              ext = rs->bytes / (size_t) rs->count;
      int                 pieces = 2 + (int) (prng_next () % 2u), done = 0, k;
      for (k = 0; k < pieces && done < rs->count; ++k) {
        int                 rest = rs->count - done;
        len = (k == pieces - 1 || rest == 1) ? rest : 1 + (int) (prng_next () % (u64) (rest - 1));
        rs->ux->fn ((char *) in + (size_t) done * ext, (char *) inout + (size_t) done * ext, &len, &h);
        done += len;
      }
      if (done < rs->count) {
        len = rs->count - done;
        rs->ux->fn ((char *) in + (size_t) done * ext, (char *) inout + (size_t) done * ext, &len, &h);
      }
    }
    else {
      rs->ux->fn (in, inout, &len, &h);
    }
  }
  else {
    int                 e =
      apply_builtin (rs->pre, rs->dt, in, inout, (size_t) rs->count);
    if (e != MPI_SUCCESS) {
      rs->err = e;
    }
  }
}

/* out = reduction of contrib[order[lo..hi)] with a scheduler-chosen association */
static void
red_tree (redspec * rs, int lo, int hi, void *out)
{
  int                 split;
  void               *left;

  if (hi - lo == 1) {
    memcpy (out, rs->contrib[rs->order[lo]], rs->bytes);
    return;
  }
  split = lo + 1 + decide ("split", hi - lo - 1, -1);
  left = xmalloc (rs->bytes);
  red_tree (rs, lo, split, left);
  red_tree (rs, split, hi, out);
  red_apply (rs, left, out);    /* out = left op out */
  free (left);
}

/* Reduce the contributions of ranks [0, n) into out (bytes = count*extent).
 * Predefined ops: fixed rank-order left fold ((c0 op c1) op c2) ...
 * User ops: random association; random operand order too if commutative. */
static int
reduce_ranks (MPI_Op oph, sim_dtype * dt, int count, void **contrib, int n,
              void *out)
{
  redspec             rs;
  int                 k, i;

  memset (&rs, 0, sizeof (rs));
  k = op_get (oph, &rs.pre, &rs.ux);
  if (k < 0) {
    return MPI_ERR_OP;
  }
  rs.dt = dt;
  rs.count = count;
  rs.bytes = (size_t) count *dt->extent;
  rs.contrib = contrib;
  if (n <= 0) {
    return MPI_SUCCESS;
  }
  if (k == 0) {
    void               *tmp;
    memcpy (out, contrib[0], rs.bytes);
    if (n > 1) {
      tmp = xmalloc (rs.bytes);
      for (i = 1; i < n; i++) {
        memcpy (tmp, contrib[i], rs.bytes);
        red_apply (&rs, out, tmp);      /* tmp = acc op c_i */
        memcpy (out, tmp, rs.bytes);
      }
      free (tmp);
    }
    return rs.err;
  }
  rs.order = (int *) xmalloc ((size_t) n * sizeof (int));
  for (i = 0; i < n; i++) {
    rs.order[i] = i;
  }
  if (rs.ux->commute) {
    for (i = n - 1; i > 0; i--) {
      int                 j = decide ("perm", i + 1, -1);
      int                 t = rs.order[i];
      rs.order[i] = rs.order[j];
      rs.order[j] = t;
    }
  }
  red_tree (&rs, 0, n, out);
  free (rs.order);
  return rs.err;
}

/* ---------------------------------------------------------- communicators */

static sim_comm    *
comm_new (int n, const int *members, int parent_id, const char *how,
          int internal, int is_self)
{
  sim_comm           *c = (sim_comm *) xcalloc (1, sizeof (sim_comm));
  int                 i;

  c->n = n;
  c->m = (int *) xmalloc ((size_t) n * sizeof (int));
  c->w2c = (int *) xmalloc ((size_t) S.P * sizeof (int));
  for (i = 0; i < S.P; i++) {
    c->w2c[i] = -1;
  }
  for (i = 0; i < n; i++) {
    c->m[i] = members[i];
    c->w2c[members[i]] = i;
  }
  c->freed = (char *) xcalloc ((size_t) n, 1);
  c->uq_head = (sim_msg **) xcalloc ((size_t) n, sizeof (sim_msg *));
  c->uq_tail = (sim_msg **) xcalloc ((size_t) n, sizeof (sim_msg *));
  c->pq_head = (sim_req **) xcalloc ((size_t) n, sizeof (sim_req *));
  c->pq_tail = (sim_req **) xcalloc ((size_t) n, sizeof (sim_req *));
  c->cseq = (long *) xcalloc ((size_t) n, sizeof (long));
  c->attrs = (sim_attr **) xcalloc ((size_t) n, sizeof (sim_attr *));
  c->parent_id = parent_id;
  c->how = how;
  c->internal = internal;
  c->is_self = is_self;
  if (is_self) {
    c->idx = 1;
    c->id = -2;
  }
  else {
    if (S.ncomms == S.capcomms) {
      S.capcomms = S.capcomms ? 2 * S.capcomms : 16;
      S.comms =
        (sim_comm **) xrealloc (S.comms, S.capcomms * sizeof (sim_comm *));
    }
    if (S.ncomms == 1) {
      S.comms[S.ncomms++] = NULL;       /* slot 1 is MPI_COMM_SELF */
    }
    c->idx = S.ncomms;
    S.comms[S.ncomms++] = c;
    c->id = internal ? -3 : S.next_comm_id++;
  }
  return c;
}

static void
coll_free (sim_coll * k)
{
  int                 i, n = k->comm->n;

  for (i = 0; i < n; i++) {
    free (k->contrib[i]);
  }
  free (k->contrib);
  free (k->clen);
  free (k->entered);
  free (k->result);
  free (k->newc);
  free (k->ibreq);
  free (k);
}

static void
msg_free (sim_msg * m)
{
  if (m->ureq != NULL) {
    m->ureq->lmsg = NULL;
    m->ureq = NULL;
  }
  free (m->data);
  free (m);
}

static void
comm_destroy (sim_comm * c)
{
  int                 i;
  sim_coll           *k, *kn;

  for (i = 0; i < c->n; i++) {
    sim_msg            *m, *mn;
    sim_attr           *a, *an;
    for (m = c->uq_head[i]; m != NULL; m = mn) {
      mn = m->next;
      msg_free (m);
    }
    for (a = c->attrs[i]; a != NULL; a = an) {
      an = a->next;
      free (a);
    }
  }
  for (k = c->colls; k != NULL; k = kn) {
    kn = k->next;
    coll_free (k);
  }
  free (c->m);
  free (c->w2c);
  free (c->freed);
  free (c->uq_head);
  free (c->uq_tail);
  free (c->pq_head);
  free (c->pq_tail);
  free (c->cseq);
  free (c->attrs);
  free (c);
}

/* ---------------------------------------------------------- message pools */

static int
filter_ok (int fsrc, int ftag, int src, int tag)
{
  return (fsrc == MPI_ANY_SOURCE || fsrc == src) && (ftag == MPI_ANY_TAG
                                                     || ftag == tag);
}

static int
have_candidate (sim_comm * c, int dst, int src, int tag)
{
  sim_msg            *m;

  for (m = c->uq_head[dst]; m != NULL; m = m->next) {
    if (filter_ok (src, tag, m->src, m->tag)) {
      return 1;
    }
  }
  return 0;
}

/* Eligible messages for a receive/probe with filter (src, tag) at (c, dst):
 * for each source the first pending message that passes the filter.  Chooses
 * one (decision "match") and returns it, or NULL if there is none. */
static sim_msg     *
choose_candidate (sim_comm * c, int dst, int src, int tag)
{
  sim_msg            *m, *best = NULL;
  sim_msg            *small[64];
  sim_msg           **cand = small;
  int                 nc = 0, cap = 64, v;

  if (src != MPI_ANY_SOURCE) {
    for (m = c->uq_head[dst]; m != NULL; m = m->next) {
      if (m->src == src && (tag == MPI_ANY_TAG || m->tag == tag)) {
        return m;
      }
    }
    return NULL;
  }
  S.stampgen++;
  for (m = c->uq_head[dst]; m != NULL; m = m->next) {
    if ((tag == MPI_ANY_TAG || m->tag == tag)
        && S.stamp[c->m[m->src]] != S.stampgen) {
      S.stamp[c->m[m->src]] = S.stampgen;
      if (nc == cap) {
        sim_msg           **nw =
          (sim_msg **) xmalloc (2 * (size_t) cap * sizeof (sim_msg *));
        memcpy (nw, cand, (size_t) cap * sizeof (sim_msg *));
        if (cand != small) {
          free (cand);
        }
        cand = nw;
        cap *= 2;
      }
      cand[nc++] = m;
    }
  }
  if (nc == 0) {
    return NULL;
  }
  if (nc > 1) {
    int                 forced = -1, i;
    if (S.o.adversary == SIMMPI_ADV_LIFO) {
      forced = 0;
      for (i = 1; i < nc; i++) {
        if (cand[i]->seq > cand[forced]->seq) {
          forced = i;
        }
      }
    }
    /* candidates are ordered by the send time of each source's head */
    if (S.dlog != NULL) {
      int                *vals = (int *) xmalloc ((size_t) nc * sizeof (int));
      for (i = 0; i < nc; i++) {
        vals[i] = cand[i]->src;
      }
      v = decide_v ("match", nc, forced, vals);
      free (vals);
    }
    else {
      v = decide ("match", nc, forced);
    }
    best = cand[v];
  }
  else {
    best = cand[0];
  }
  if (cand != small) {
    free (cand);
  }
  return best;
}

/* the cached classification of a rank's pending operation may have changed */
static void
touch_world (int world)
{
  S.ranks[world].dirty = 1;
  S.ranks[world].upolls = 0;    /* something it may be polling for has changed */
}

static void
touch (sim_comm * c, int crank)
{
  touch_world (c->m[crank]);
}

static void
touch_all (sim_comm * c)
{
  int                 i;
  for (i = 0; i < c->n; i++) {
    touch_world (c->m[i]);
  }
}

static void
uq_append (sim_comm * c, sim_msg * m)
{
  touch (c, m->dst);
  m->next = NULL;
  m->prev = c->uq_tail[m->dst];
  if (m->prev != NULL) {
    m->prev->next = m;
  }
  else {
    c->uq_head[m->dst] = m;
  }
  c->uq_tail[m->dst] = m;
}

static void
uq_unlink (sim_comm * c, sim_msg * m)
{
  if (m->prev != NULL) {
    m->prev->next = m->next;
  }
  else {
    c->uq_head[m->dst] = m->next;
  }
  if (m->next != NULL) {
    m->next->prev = m->prev;
  }
  else {
    c->uq_tail[m->dst] = m->prev;
  }
  m->next = m->prev = NULL;
}

static void
pq_append (sim_comm * c, int dst, sim_req * q)
{
  q->pnext = NULL;
  q->pprev = c->pq_tail[dst];
  if (q->pprev != NULL) {
    q->pprev->pnext = q;
  }
  else {
    c->pq_head[dst] = q;
  }
  c->pq_tail[dst] = q;
  q->posted = 1;
}

static void
pq_unlink (sim_comm * c, int dst, sim_req * q)
{
  if (q->pprev != NULL) {
    q->pprev->pnext = q->pnext;
  }
  else {
    c->pq_head[dst] = q->pnext;
  }
  if (q->pnext != NULL) {
    q->pnext->pprev = q->pprev;
  }
  else {
    c->pq_tail[dst] = q->pprev;
  }
  q->pnext = q->pprev = NULL;
  q->posted = 0;
}

/* the message leaves the pool: its (rendezvous/synchronous) send completes */
static void
msg_matched (sim_msg * m)
{
  if (m->sreq != NULL) {
    m->sreq->complete = 1;
    touch_world (m->sreq->owner);
    m->sreq->msg = NULL;
    m->sreq = NULL;
  }
}

static void
status_empty (MPI_Status * st)
{
  if (st != MPI_STATUS_IGNORE && st != NULL) {
    st->MPI_SOURCE = MPI_ANY_SOURCE;
    st->MPI_TAG = MPI_ANY_TAG;
    st->MPI_ERROR = MPI_SUCCESS;
    st->simmpi_cancelled = 0;
    st->simmpi_nbytes = 0;
  }
}

static void
status_procnull (MPI_Status * st)
{
  status_empty (st);
  if (st != MPI_STATUS_IGNORE && st != NULL) {
    st->MPI_SOURCE = MPI_PROC_NULL;
  }
}

/* MPI owns the buffer of a nonblocking send until the request has been handed back by Wait/Test: a conforming
 * library may read it as late as that.  The simulator packs at posting time; here - when the receiver takes the
 * message while the sender has not completed its request, and when the sender completes the request while the
 * message is still under way - the buffer is read AGAIN.  If it changed, the late content is what travels (as with a
 * single-copy rendezvous transfer) and the run is marked erroneous.  A buffer freed in the meantime is reported by
 * the address sanitizer. */
static void
sendbuf_check (sim_msg * m, const char *fname)
{
  sim_req            *q = m->ureq;
  unsigned char      *now;
  size_t              nb = 0;

  if (q == NULL || q->ubuf == NULL || m->nbytes == 0) {
    return;
  }
  now = dt_pack_new (q->ubuf, q->udt, (size_t) q->ucount, &nb);
  if (nb == m->nbytes && memcmp (now, m->data, nb) != 0) {
    sim_error (MPI_ERR_BUFFER,
               "%s: the buffer of the nonblocking send %d -> %d tag %d comm %d (%zu bytes) was modified "
               "before the send request was completed by its owner", fname, m->src, m->dst, m->tag,
               m->comm->id, m->nbytes);
    memcpy (m->data, now, nb);
  }
  free (now);
}

/* copy a matched message into the user's receive buffer */
static int
deliver (sim_msg * m, void *buf, int count, sim_dtype * dt, MPI_Status * st,
         const char *fname)
{
  size_t              cap = (size_t) count * dt->size;
  size_t              n;
  int                 err = MPI_SUCCESS;

  sendbuf_check (m, fname);
  n = m->nbytes < cap ? m->nbytes : cap;
  dt_unpack (buf, m->data, dt, n);
  if (m->nbytes > cap) {
    err =
      sim_error (MPI_ERR_TRUNCATE,
                 "%s: message of %zu bytes from %d tag %d comm %d truncated to %zu bytes",
                 fname, m->nbytes, m->src, m->tag, m->comm->id, cap);
  }
  if (st != MPI_STATUS_IGNORE && st != NULL) {
    st->MPI_SOURCE = m->src;
    st->MPI_TAG = m->tag;
    st->MPI_ERROR = err;
    st->simmpi_cancelled = 0;
    st->simmpi_nbytes = n;
  }
  return err;
}

/* ------------------------------------------------------------ p2p: sends */

static int
check_p2p (const char *fname, sim_comm * c, int count, sim_dtype * dt,
           int peer, int tag, int is_recv)
{
  if (count < 0) {
    return sim_error (MPI_ERR_COUNT, "%s: negative count %d", fname, count);
  }
  if (dt == NULL) {
    return sim_error (MPI_ERR_TYPE, "%s: invalid datatype", fname);
  }
  if (peer != MPI_PROC_NULL && !(is_recv && peer == MPI_ANY_SOURCE)
      && (peer < 0 || peer >= c->n)) {
    return sim_error (MPI_ERR_RANK, "%s: invalid rank %d in communicator %d of size %d",
                      fname, peer, c->id, c->n);
  }
  if (!(is_recv && tag == MPI_ANY_TAG) && tag < 0) {
    return sim_error (MPI_ERR_TAG, "%s: invalid tag %d", fname, tag);
  }
  return MPI_SUCCESS;
}

static const char  *modenames[3] = { "eager", "rdv", "sync" };

static int
do_send (const char *fname, const void *buf, int count, MPI_Datatype dth,
         int dest, int tag, MPI_Comm comm, int sync, MPI_Request * request)
{
  int                 cr = 0, err, mode;
  sim_comm           *c;
  sim_dtype          *dt;
  sim_msg            *m;
  sim_req            *q = NULL, *r;

  IN_RUN (fname);
  if ((c = comm_get (comm, &cr, fname)) == NULL) {
    return MPI_ERR_COMM;
  }
  dt = dt_get (dth);
  if ((err = check_p2p (fname, c, count, dt, dest, tag, 0)) != MPI_SUCCESS) {
    return err;
  }
  yield_step (fname);

  if (dest == MPI_PROC_NULL) {
    if (request != NULL) {
      q = req_new (RK_SEND, c, cr, 0);
      q->dest = dest;
      q->stag = tag;
      q->complete = 1;
      *request = req_handle (q);
    }
    if (tr_begin (fname, c)) {
      tr_i ("dest", dest);
      tr_i ("tag", tag);
      tr_i ("n", 0);
      if (q != NULL) {
        tr_i ("req", q->rseq);
      }
      tr_end ();
    }
    return MPI_SUCCESS;
  }

  m = (sim_msg *) xcalloc (1, sizeof (sim_msg));
  m->comm = c;
  m->src = cr;
  m->dst = dest;
  m->tag = tag;
  m->data = dt_pack_new (buf, dt, (size_t) count, &m->nbytes);
  m->seq = ++S.msgseq;

  if (sync) {
    mode = SM_SYNC;
  }
  else if (S.o.eager_limit >= 0 && m->nbytes > (size_t) S.o.eager_limit) {
    mode = SM_RDV;
  }
  else {
    int                 forced = -1;
    if (S.o.adversary == SIMMPI_ADV_RENDEZVOUS) {
      forced = 1;
    }
    else if (S.o.adversary == SIMMPI_ADV_EAGER) {
      forced = 0;
    }
    mode = decide ("mode", 2, forced) ? SM_RDV : SM_EAGER;
  }

  if (request != NULL || mode != SM_EAGER) {
    q = req_new (RK_SEND, c, cr, request == NULL);
    q->dest = dest;
    q->stag = tag;
    q->mode = mode;
    q->nbytes = m->nbytes;
    if (mode == SM_EAGER) {
      q->complete = 1;
    }
    else {
      q->msg = m;
      m->sreq = q;
    }
  }

  /* first posted receive (in post order) that accepts the message takes it */
  for (r = c->pq_head[dest]; r != NULL; r = r->pnext) {
    if (filter_ok (r->src, r->tag, m->src, m->tag)) {
      break;
    }
  }
  if (r != NULL) {
    pq_unlink (c, dest, r);
    r->matched = m;
    r->complete = 1;
    touch_world (r->owner);
    msg_matched (m);
  }
  else {
    uq_append (c, m);
  }

  if (request != NULL) {
    q->ubuf = buf;
    q->udt = dt;
    q->ucount = count;
    q->lmsg = m;
    m->ureq = q;
    *request = req_handle (q);
    if (tr_begin (fname, c)) {
      tr_i ("dest", dest);
      tr_i ("tag", tag);
      tr_i ("n", (long) m->nbytes);
      tr_s ("mode", modenames[mode]);
      tr_i ("req", q->rseq);
      tr_data ("d", m->data, m->nbytes);
      tr_end ();
    }
    return MPI_SUCCESS;
  }

  /* blocking send: the message content is logged now (it may be consumed
   * and freed by the receiver before we resume), the line is written at
   * completion */
  {
    int                 tr = tr_begin (fname, c);
    sbuf                keep;

    memset (&keep, 0, sizeof (keep));
    if (tr) {
      tr_i ("dest", dest);
      tr_i ("tag", tag);
      tr_i ("n", (long) m->nbytes);
      tr_s ("mode", modenames[mode]);
      tr_data ("d", m->data, m->nbytes);
      if (q != NULL && !q->complete) {
        sb_puts (&keep, S.line.p);
      }
    }
    if (q != NULL) {
      if (!q->complete) {
        sim_op              op;
        memset (&op, 0, sizeof (op));
        op.kind = OP_SENDWAIT;
        op.fname = fname;
        op.comm = c;
        op.crank = cr;
        op.src = dest;
        op.tag = tag;
        op.req = q;
        hold (keep.p);
        yield_op (&op);
        if (tr) {
          S.line.n = 0;
          sb_puts (&S.line, keep.p);
        }
      }
      req_release (q);
    }
    unhold_free (keep.p);
    if (tr) {
      tr_end ();
    }
  }
  return MPI_SUCCESS;
}

int
MPI_Send (const void *buf, int count, MPI_Datatype datatype, int dest,
          int tag, MPI_Comm comm)
{
  return do_send ("MPI_Send", buf, count, datatype, dest, tag, comm, 0, NULL);
}

int
MPI_Ssend (const void *buf, int count, MPI_Datatype datatype, int dest,
           int tag, MPI_Comm comm)
{
  return do_send ("MPI_Ssend", buf, count, datatype, dest, tag, comm, 1,
                  NULL);
}

int
MPI_Isend (const void *buf, int count, MPI_Datatype datatype, int dest,
           int tag, MPI_Comm comm, MPI_Request * request)
{
  if (request == NULL) {
    return MPI_ERR_ARG;
  }
  return do_send ("MPI_Isend", buf, count, datatype, dest, tag, comm, 0,
                  request);
}

int
MPI_Issend (const void *buf, int count, MPI_Datatype datatype, int dest,
            int tag, MPI_Comm comm, MPI_Request * request)
{
  if (request == NULL) {
    return MPI_ERR_ARG;
  }
  return do_send ("MPI_Issend", buf, count, datatype, dest, tag, comm, 1,
                  request);
}

/* --------------------------------------------------------- p2p: receives */

int
MPI_Recv (void *buf, int count, MPI_Datatype dth, int source, int tag,
          MPI_Comm comm, MPI_Status * status)
{
  static const char  *fname = "MPI_Recv";
  int                 cr = 0, err;
  sim_comm           *c;
  sim_dtype          *dt;
  sim_msg            *m;
  sim_op              op;

  IN_RUN (fname);
  if ((c = comm_get (comm, &cr, fname)) == NULL) {
    return MPI_ERR_COMM;
  }
  dt = dt_get (dth);
  if ((err = check_p2p (fname, c, count, dt, source, tag, 1)) != MPI_SUCCESS) {
    return err;
  }
  if (source == MPI_PROC_NULL) {
    yield_step (fname);
    status_procnull (status);
    if (tr_begin (fname, c)) {
      tr_i ("src", source);
      tr_i ("tag", tag);
      tr_i ("msrc", source);
      tr_i ("mtag", MPI_ANY_TAG);
      tr_i ("n", 0);
      tr_end ();
    }
    return MPI_SUCCESS;
  }
  memset (&op, 0, sizeof (op));
  op.kind = OP_RECV;
  op.fname = fname;
  op.comm = c;
  op.crank = cr;
  op.src = source;
  op.tag = tag;
  yield_op (&op);

  m = choose_candidate (c, cr, source, tag);
  if (m == NULL) {
    return sim_error (MPI_ERR_INTERN, "%s: scheduled without a message",
                      fname);
  }
  uq_unlink (c, m);
  msg_matched (m);
  err = deliver (m, buf, count, dt, status, fname);
  if (tr_begin (fname, c)) {
    tr_i ("src", source);
    tr_i ("tag", tag);
    tr_i ("msrc", m->src);
    tr_i ("mtag", m->tag);
    tr_i ("n", (long) m->nbytes);
    tr_data ("d", m->data, m->nbytes);
    tr_end ();
  }
  msg_free (m);
  return err;
}

int
MPI_Irecv (void *buf, int count, MPI_Datatype dth, int source, int tag,
           MPI_Comm comm, MPI_Request * request)
{
  static const char  *fname = "MPI_Irecv";
  int                 cr = 0, err;
  sim_comm           *c;
  sim_dtype          *dt;
  sim_msg            *m;
  sim_req            *q;

  IN_RUN (fname);
  if (request == NULL) {
    return MPI_ERR_ARG;
  }
  if ((c = comm_get (comm, &cr, fname)) == NULL) {
    return MPI_ERR_COMM;
  }
  dt = dt_get (dth);
  if ((err = check_p2p (fname, c, count, dt, source, tag, 1)) != MPI_SUCCESS) {
    return err;
  }
  yield_step (fname);

  q = req_new (RK_RECV, c, cr, 0);
  q->buf = buf;
  q->count = count;
  q->dt = dt;
  q->src = source;
  q->tag = tag;
  if (source == MPI_PROC_NULL) {
    q->complete = 1;
  }
  else {
    m = choose_candidate (c, cr, source, tag);
    if (m != NULL) {
      uq_unlink (c, m);
      msg_matched (m);
      q->matched = m;
      q->complete = 1;
    }
    else {
      pq_append (c, cr, q);
    }
  }
  *request = req_handle (q);
  if (tr_begin (fname, c)) {
    tr_i ("src", source);
    tr_i ("tag", tag);
    tr_i ("cap", (long) ((size_t) count * dt->size));
    tr_i ("req", q->rseq);
    tr_end ();
  }
  return MPI_SUCCESS;
}

static int
do_probe (const char *fname, int source, int tag, MPI_Comm comm, int *flag,
          MPI_Status * status)
{
  int                 cr = 0, err;
  sim_comm           *c;
  sim_msg            *m = NULL;
  sim_op              op;

  IN_RUN (fname);
  if ((c = comm_get (comm, &cr, fname)) == NULL) {
    return MPI_ERR_COMM;
  }
  if ((err =
       check_p2p (fname, c, 0, &predt[H_IDX (MPI_BYTE)], source, tag,
                  1)) != MPI_SUCCESS) {
    return err;
  }
  if (source == MPI_PROC_NULL) {
    yield_step (fname);
    status_procnull (status);
    if (flag != NULL) {
      *flag = 1;
    }
    if (tr_begin (fname, c)) {
      tr_i ("src", source);
      tr_i ("tag", tag);
      if (flag != NULL) {
        tr_i ("flag", 1);
      }
      tr_i ("msrc", source);
      tr_i ("mtag", MPI_ANY_TAG);
      tr_i ("n", 0);
      tr_end ();
    }
    return MPI_SUCCESS;
  }
  memset (&op, 0, sizeof (op));
  op.kind = flag != NULL ? OP_IPROBE : OP_PROBE;
  op.fname = fname;
  op.comm = c;
  op.crank = cr;
  op.src = source;
  op.tag = tag;
  yield_op (&op);

  if (flag != NULL) {
    /* a message is there: the answer may still be "not yet", boundedly often */
    if (have_candidate (c, cr, source, tag)) {
      int                 deny = 0;
      if (S.cur->probe_denials < S.maxden) {
        deny =
          decide ("poll", 2,
                  S.o.adversary == SIMMPI_ADV_STINGY ? 1 : -1);
      }
      if (deny) {
        S.cur->probe_denials++;
      }
      else {
        S.cur->probe_denials = 0;
        m = choose_candidate (c, cr, source, tag);
      }
    }
    *flag = m != NULL;
  }
  else {
    m = choose_candidate (c, cr, source, tag);
    if (m == NULL) {
      return sim_error (MPI_ERR_INTERN, "%s: scheduled without a message",
                        fname);
    }
  }
  if (m != NULL && status != MPI_STATUS_IGNORE && status != NULL) {
    status->MPI_SOURCE = m->src;
    status->MPI_TAG = m->tag;
    status->MPI_ERROR = MPI_SUCCESS;
    status->simmpi_cancelled = 0;
    status->simmpi_nbytes = m->nbytes;
  }
  if (tr_begin (fname, c)) {
    tr_i ("src", source);
    tr_i ("tag", tag);
    if (flag != NULL) {
      tr_i ("flag", *flag);
    }
    if (m != NULL) {
      tr_i ("msrc", m->src);
      tr_i ("mtag", m->tag);
      tr_i ("n", (long) m->nbytes);
    }
    tr_end ();
  }
  return MPI_SUCCESS;
}

int
MPI_Probe (int source, int tag, MPI_Comm comm, MPI_Status * status)
{
  return do_probe ("MPI_Probe", source, tag, comm, NULL, status);
}

int
MPI_Iprobe (int source, int tag, MPI_Comm comm, int *flag,
            MPI_Status * status)
{
  if (flag == NULL) {
    return MPI_ERR_ARG;
  }
  return do_probe ("MPI_Iprobe", source, tag, comm, flag, status);
}

int
MPI_Get_count (const MPI_Status * status, MPI_Datatype dth, int *count)
{
  sim_dtype          *dt = dt_get (dth);

  if (dt == NULL || status == NULL || status == MPI_STATUS_IGNORE
      || count == NULL) {
    return MPI_ERR_ARG;
  }
  if (dt->size == 0) {
    *count = 0;
  }
  else if (status->simmpi_nbytes % dt->size != 0) {
    *count = MPI_UNDEFINED;
  }
  else {
    *count = (int) (status->simmpi_nbytes / dt->size);
  }
  return MPI_SUCCESS;
}

/* ------------------------------------------------------ completion calls */

static void         coll_leave (sim_coll * k);

/* all requests of the array valid?  (null handles are fine) */
static int
reqs_check (const char *fname, int n, MPI_Request * a)
{
  int                 i;

  if (n < 0 || (n > 0 && a == NULL)) {
    return sim_error (MPI_ERR_ARG, "%s: bad request array", fname);
  }
  for (i = 0; i < n; i++) {
    if (a[i] != MPI_REQUEST_NULL) {
      sim_req            *q = req_get (a[i]);
      if (q == NULL || q->rseq < 0) {
        return sim_error (MPI_ERR_REQUEST,
                          "%s: invalid request handle 0x%x at index %d",
                          fname, (unsigned) a[i], i);
      }
      if (q->owner != S.cur->world) {
        return sim_error (MPI_ERR_REQUEST,
                          "%s: request at index %d belongs to rank %d",
                          fname, i, q->owner);
      }
    }
  }
  return MPI_SUCCESS;
}

/* is the completion event of a Wait or Test family call available? */
static int
wait_ready (int n, MPI_Request * a, int wmode)
{
  int                 i, active = 0, done = 0;

  for (i = 0; i < n; i++) {
    if (a[i] != MPI_REQUEST_NULL) {
      sim_req            *q = req_get (a[i]);
      active++;
      if (q != NULL && q->complete) {
        done++;
      }
    }
  }
  if (wmode == W_ALL) {
    return done == active;
  }
  return active == 0 || done > 0;
}

/* hand a completed request back to its owner; appends to the "done" list */
static int
req_finish (sim_req * q, int index, MPI_Status * st, sbuf * done,
            const char *fname)
{
  int                 err = MPI_SUCCESS;
  static const char  *kn[4] = { "?", "send", "recv", "ibarrier" };

  if (done != NULL) {
    sb_printf (done, "%s{\"i\":%d,\"req\":%ld,\"k\":\"%s\"",
               done->n ? "," : "", index, q->rseq, kn[q->kind]);
  }
  switch (q->kind) {
  case RK_RECV:
    if (q->matched != NULL) {
      sim_msg            *m = q->matched;
      err = deliver (m, q->buf, q->count, q->dt, st, fname);
      if (done != NULL) {
        sb_printf (done, ",\"msrc\":%d,\"mtag\":%d,\"n\":%zu", m->src, m->tag,
                   m->nbytes);
        sb_payload (done, "d", m->data, m->nbytes);
      }
      msg_free (m);
      q->matched = NULL;
    }
    else {
      status_procnull (st);
    }
    break;
  case RK_IBARRIER:
    status_empty (st);
    coll_leave (q->coll);
    break;
  default:
    if (q->kind == RK_SEND && q->lmsg != NULL) {
      /* the message is still under way: what it carries is fixed now */
      sendbuf_check (q->lmsg, fname);
    }
    status_empty (st);
    break;
  }
  if (done != NULL) {
    sb_puts (done, "}");
  }
  req_release (q);
  return err;
}

static void
tr_reqs (int n, MPI_Request * a)
{
  int                 i;

  sb_puts (&S.line, ",\"reqs\":[");
  for (i = 0; i < n; i++) {
    sim_req            *q = a[i] != MPI_REQUEST_NULL ? req_get (a[i]) : NULL;
    if (q != NULL) {
      sb_printf (&S.line, i ? ",%ld" : "%ld", q->rseq);
    }
    else {
      sb_puts (&S.line, i ? ",null" : "null");
    }
  }
  sb_puts (&S.line, "]");
}

/* not inlined: gcc's -Warray-bounds dislikes the (MPI_Status *) 1 constant */
static MPI_Status  *st_at (MPI_Status * sts, int i) __attribute__ ((noinline));

static MPI_Status  *
st_at (MPI_Status * sts, int i)
{
  return sts == MPI_STATUSES_IGNORE || sts == NULL ? MPI_STATUS_IGNORE :
    &sts[i];
}

#define ST_AT(sts, i) st_at (sts, i)

/* Common engine of Wait, Waitall, Waitany, Waitsome, Test, Testall, Testany,
 * Testsome.  flag == NULL: blocking.  indices/outcount as in the MPI calls:
 *   W_ALL:  statuses[i] for every i
 *   W_ANY:  *outcount (used as index) and statuses[0]
 *   W_SOME: *outcount, indices[], statuses[0..outcount)
 */
static int
do_complete (const char *fname, int n, MPI_Request * a, int wmode, int *flag,
             int *outcount, int *indices, MPI_Status * sts)
{
  sim_op              op;
  int                 i, err, rc = MPI_SUCCESS, tr, ready, active = 0;
  sbuf                done;
  int                *ci = NULL;
  int                 nci = 0;

  IN_RUN (fname);
  if ((err = reqs_check (fname, n, a)) != MPI_SUCCESS) {
    return err;
  }
  memset (&op, 0, sizeof (op));
  op.kind = flag != NULL ? OP_TEST : OP_WAIT;
  op.fname = fname;
  op.nreq = n;
  op.reqs = a;
  op.wmode = wmode;
  yield_op (&op);

  memset (&done, 0, sizeof (done));
  tr = tr_begin (fname, NULL);
  if (tr) {
    tr_reqs (n, a);
  }
  ready = wait_ready (n, a, wmode);

  /* completed requests among the active ones */
  ci = (int *) xmalloc (((size_t) n + 1) * sizeof (int));
  for (i = 0; i < n; i++) {
    if (a[i] != MPI_REQUEST_NULL) {
      sim_req            *q = req_get (a[i]);
      active++;
      if (q->complete) {
        ci[nci++] = i;
      }
    }
  }

  if (flag != NULL && ready && active > 0) {
    /* (c) the event is there, the answer may be "not yet" boundedly often */
    int                 can = 1, deny = 0;
    for (i = 0; i < nci; i++) {
      if (req_get (a[ci[i]])->denials >= S.maxden) {
        can = 0;
      }
    }
    if (can) {
      deny =
        decide ("poll", 2, S.o.adversary == SIMMPI_ADV_STINGY ? 1 : -1);
    }
    if (deny) {
      for (i = 0; i < nci; i++) {
        req_get (a[ci[i]])->denials++;
      }
      ready = 0;
    }
  }

  if (flag != NULL) {
    *flag = ready;
  }
  if (!ready) {
    /* only possible for the Test family */
    if (wmode == W_SOME) {
      *outcount = 0;
    }
    else if (wmode == W_ANY) {
      *outcount = MPI_UNDEFINED;
    }
  }
  else if (wmode == W_ALL) {
    for (i = 0; i < n; i++) {
      if (a[i] != MPI_REQUEST_NULL) {
        err =
          req_finish (req_get (a[i]), i, ST_AT (sts, i), tr ? &done : NULL,
                      fname);
        if (err != MPI_SUCCESS) {
          rc = n == 1 ? err : MPI_ERR_IN_STATUS;
        }
        a[i] = MPI_REQUEST_NULL;
      }
      else {
        status_empty (ST_AT (sts, i));
      }
    }
  }
  else if (active == 0) {
    *outcount = MPI_UNDEFINED;
    if (wmode == W_ANY) {
      status_empty (ST_AT (sts, 0));
    }
  }
  else if (wmode == W_ANY) {
    int                 v = decide ("any", nci, -1);
    i = ci[v];
    rc = req_finish (req_get (a[i]), i, ST_AT (sts, 0), tr ? &done : NULL,
                     fname);
    a[i] = MPI_REQUEST_NULL;
    *outcount = i;
  }
  else {
    /* (g) a non-empty subset of the completed requests */
    int                 first = decide ("some", nci, -1);
    int                 out = 0;
    for (i = 0; i < nci; i++) {
      int                 take = i == first;
      if (!take) {
        take = decide ("more", 2, S.o.adversary == SIMMPI_ADV_STINGY ? 0 : -1);
      }
      if (take) {
        int                 j = ci[i];
        err =
          req_finish (req_get (a[j]), j, ST_AT (sts, out), tr ? &done : NULL,
                      fname);
        if (err != MPI_SUCCESS) {
          rc = MPI_ERR_IN_STATUS;
        }
        a[j] = MPI_REQUEST_NULL;
        indices[out++] = j;
      }
    }
    *outcount = out;
  }
  free (ci);
  if (tr) {
    if (flag != NULL) {
      tr_i ("flag", *flag);
    }
    sb_printf (&S.line, ",\"done\":[%s]", done.p != NULL ? done.p : "");
    tr_end ();
  }
  sb_free (&done);
  return rc;
}

int
MPI_Wait (MPI_Request * request, MPI_Status * status)
{
  if (request == NULL) {
    return MPI_ERR_ARG;
  }
  return do_complete ("MPI_Wait", 1, request, W_ALL, NULL, NULL, NULL,
                      status == MPI_STATUS_IGNORE ? MPI_STATUSES_IGNORE :
                      status);
}

int
MPI_Waitall (int count, MPI_Request a[], MPI_Status * sts)
{
  return do_complete ("MPI_Waitall", count, a, W_ALL, NULL, NULL, NULL, sts);
}

int
MPI_Waitany (int count, MPI_Request a[], int *indx, MPI_Status * status)
{
  if (indx == NULL) {
    return MPI_ERR_ARG;
  }
  return do_complete ("MPI_Waitany", count, a, W_ANY, NULL, indx, NULL,
                      status == MPI_STATUS_IGNORE ? MPI_STATUSES_IGNORE :
                      status);
}

int
MPI_Waitsome (int incount, MPI_Request a[], int *outcount, int indices[],
              MPI_Status * sts)
{
  if (outcount == NULL || (incount > 0 && indices == NULL)) {
    return MPI_ERR_ARG;
  }
  return do_complete ("MPI_Waitsome", incount, a, W_SOME, NULL, outcount,
                      indices, sts);
}

int
MPI_Test (MPI_Request * request, int *flag, MPI_Status * status)
{
  if (request == NULL || flag == NULL) {
    return MPI_ERR_ARG;
  }
  return do_complete ("MPI_Test", 1, request, W_ALL, flag, NULL, NULL,
                      status == MPI_STATUS_IGNORE ? MPI_STATUSES_IGNORE :
                      status);
}

int
MPI_Testall (int count, MPI_Request a[], int *flag, MPI_Status * sts)
{
  if (flag == NULL) {
    return MPI_ERR_ARG;
  }
  return do_complete ("MPI_Testall", count, a, W_ALL, flag, NULL, NULL, sts);
}

int
MPI_Testany (int count, MPI_Request a[], int *indx, int *flag,
             MPI_Status * status)
{
  if (flag == NULL || indx == NULL) {
    return MPI_ERR_ARG;
  }
  return do_complete ("MPI_Testany", count, a, W_ANY, flag, indx, NULL,
                      status == MPI_STATUS_IGNORE ? MPI_STATUSES_IGNORE :
                      status);
}

int
MPI_Testsome (int incount, MPI_Request a[], int *outcount, int indices[],
              MPI_Status * sts)
{
  int                 flag = 0;

  if (outcount == NULL || (incount > 0 && indices == NULL)) {
    return MPI_ERR_ARG;
  }
  return do_complete ("MPI_Testsome", incount, a, W_SOME, &flag, outcount,
                      indices, sts);
}

/* ------------------------------------------------------------ collectives */

static sim_win     *win_new (sim_coll * k, int shared);

static void
fatal_mismatch (const char *fmt, ...)
{
  va_list             ap;
  char                buf[512];

  va_start (ap, fmt);
  vsnprintf (buf, sizeof (buf), fmt, ap);
  va_end (ap);
  sim_error (MPI_ERR_OTHER, "%s; the run is stopped", buf);
  sim_terminate (SIMMPI_ERROR);
}

typedef struct splitent
{
  int                 color, key, rank;
}
splitent;

static int
splitent_cmp (const void *a, const void *b)
{
  const splitent     *x = (const splitent *) a, *y = (const splitent *) b;
  if (x->color != y->color) {
    return x->color < y->color ? -1 : 1;
  }
  if (x->key != y->key) {
    return x->key < y->key ? -1 : 1;
  }
  return x->rank < y->rank ? -1 : x->rank > y->rank;
}

/* the last member has entered: create the objects of creating collectives
 * and complete nonblocking barriers */
static void
coll_complete (sim_coll * k)
{
  sim_comm           *c = k->comm;
  int                 n = c->n, i, j;

  switch (k->kind) {
  case CK_IBARRIER:
    for (i = 0; i < n; i++) {
      if (k->ibreq[i] != NULL) {
        k->ibreq[i]->complete = 1;
        touch_world (k->ibreq[i]->owner);
      }
    }
    break;
  case CK_DUP:
    {
      sim_comm           *nc = comm_new (n, c->m, c->id, "MPI_Comm_dup", 0, 0);
      for (i = 0; i < n; i++) {
        k->newc[i] = nc;
      }
    }
    break;
  case CK_SPLIT:
    {
      splitent           *e = (splitent *) xmalloc ((size_t) n * sizeof (*e));
      int                *mem = (int *) xmalloc ((size_t) n * sizeof (int));
      for (i = 0; i < n; i++) {
        const int          *ck = (const int *) k->contrib[i];
        e[i].color = ck[0];
        e[i].key = ck[1];
        e[i].rank = i;
      }
      qsort (e, (size_t) n, sizeof (*e), splitent_cmp);
      for (i = 0; i < n; i = j) {
        sim_comm           *nc = NULL;
        int                 cnt = 0;
        for (j = i; j < n && e[j].color == e[i].color; j++) {
          mem[cnt++] = c->m[e[j].rank];
        }
        if (e[i].color != MPI_UNDEFINED) {
          nc = comm_new (cnt, mem, c->id, k->fname, 0, 0);
        }
        for (cnt = i; cnt < j; cnt++) {
          k->newc[e[cnt].rank] = nc;
        }
      }
      free (e);
      free (mem);
    }
    break;
  case CK_CREATE:
    /* contribution: the world ranks of the group passed by each rank */
    for (i = 0; i < n; i++) {
      const int          *g = (const int *) k->contrib[i];
      int                 gn = (int) (k->clen[i] / sizeof (int));
      int                 inside = 0;
      if (k->newc[i] != NULL) {
        continue;
      }
      for (j = 0; j < gn; j++) {
        if (g[j] == c->m[i]) {
          inside = 1;
        }
      }
      if (inside) {
        sim_comm           *nc =
          comm_new (gn, g, c->id, "MPI_Comm_create", 0, 0);
        for (j = 0; j < gn; j++) {
          int                 cr = c->w2c[g[j]];
          if (cr >= 0) {
            k->newc[cr] = nc;
          }
        }
      }
    }
    break;
  case CK_WINCREATE:
    k->win = win_new (k, 0);
    break;
  case CK_WINSHARED:
    k->win = win_new (k, 1);
    break;
  default:
    break;
  }
}

/* Scheduling point, then register the calling rank in the next collective of
 * the communicator.  contrib (n bytes) is copied. */
static sim_coll    *
coll_begin (sim_comm * c, int cr, int kind, int root, const char *fname,
            const void *contrib, size_t nbytes, long sig, int oph)
{
  sim_coll           *k, **pk;
  long                seq;
  int                 n = c->n;

  yield_step (fname);
  seq = c->cseq[cr]++;
  for (pk = &c->colls; *pk != NULL; pk = &(*pk)->next) {
    if ((*pk)->seq == seq) {
      break;
    }
  }
  k = *pk;
  if (k == NULL) {
    k = (sim_coll *) xcalloc (1, sizeof (sim_coll));
    k->comm = c;
    k->seq = seq;
    k->kind = kind;
    k->root = root;
    k->fname = fname;
    k->sig = sig;
    k->oph = oph;
    k->entered = (char *) xcalloc ((size_t) n, 1);
    k->contrib = (void **) xcalloc ((size_t) n, sizeof (void *));
    k->clen = (size_t *) xcalloc ((size_t) n, sizeof (size_t));
    k->newc = (sim_comm **) xcalloc ((size_t) n, sizeof (sim_comm *));
    k->ibreq = (sim_req **) xcalloc ((size_t) n, sizeof (sim_req *));
    *pk = k;
  }
  else {
    if (k->kind != kind || strcmp (k->fname, fname) != 0) {
      fatal_mismatch
        ("collective mismatch on communicator %d (collective #%ld): %s here, %s on another rank",
         c->id, seq, fname, k->fname);
    }
    if (k->root != root) {
      fatal_mismatch
        ("%s on communicator %d (collective #%ld): root %d here, root %d on another rank",
         fname, c->id, seq, root, k->root);
    }
    if (k->sig != sig || k->oph != oph) {
      fatal_mismatch
        ("%s on communicator %d (collective #%ld): size/operation differs between ranks (%ld/0x%x here, %ld/0x%x on another rank)",
         fname, c->id, seq, sig, (unsigned) oph, k->sig, (unsigned) k->oph);
    }
  }
  touch_all (c);
  k->entered[cr] = 1;
  k->contrib[cr] = contrib != NULL ? xmemdup (contrib, nbytes) : NULL;
  k->clen[cr] = contrib != NULL ? nbytes : 0;
  k->nentered++;
  if (k->nentered == n && kind != CK_IBARRIER) {
    coll_complete (k);
  }
  return k;
}

static int
coll_sat (sim_coll * k, int need, int upto)
{
  int                 i;

  switch (need) {
  case N_NONE:
    return 1;
  case N_ROOT:
    return k->entered[k->root];
  case N_ALL:
    return k->nentered == k->comm->n;
  default:
    for (i = 0; i < upto; i++) {
      if (!k->entered[i]) {
        return 0;
      }
    }
    return 1;
  }
}

/* (e) leave as soon as the needed data exists, or only after everyone has
 * entered: the scheduler decides; then block until the condition holds */
static void
coll_wait (sim_coll * k, int cr, int need, int upto)
{
  if (need != N_ALL && k->comm->n > 1) {
    int                 forced = -1;
    if (S.o.adversary == SIMMPI_ADV_LIFO) {
      forced = 1;
    }
    else if (S.o.adversary == SIMMPI_ADV_EAGER) {
      forced = 0;
    }
    if (decide ("exit", 2, forced)) {
      need = N_ALL;
    }
  }
  if (!coll_sat (k, need, upto)) {
    sim_op              op;
    memset (&op, 0, sizeof (op));
    op.kind = OP_COLL;
    op.fname = k->fname;
    op.comm = k->comm;
    op.crank = cr;
    op.coll = k;
    op.need = need;
    op.upto = upto;
    yield_op (&op);
  }
}

static void
coll_leave (sim_coll * k)
{
  k->nexited++;
  if (k->nexited == k->comm->n) {
    sim_coll          **pk;
    for (pk = &k->comm->colls; *pk != NULL; pk = &(*pk)->next) {
      if (*pk == k) {
        *pk = k->next;
        break;
      }
    }
    coll_free (k);
  }
}

#define COLL_PROLOGUE(fname_) \
  static const char *fname = fname_; int cr = 0; sim_comm *c; \
  IN_RUN (fname); \
  if ((c = comm_get (comm, &cr, fname)) == NULL) return MPI_ERR_COMM

static int
check_root (const char *fname, sim_comm * c, int root)
{
  if (root < 0 || root >= c->n) {
    return sim_error (MPI_ERR_ROOT, "%s: invalid root %d on communicator %d",
                      fname, root, c->id);
  }
  return MPI_SUCCESS;
}

static int
check_buf (const char *fname, int count, sim_dtype * dt)
{
  if (dt == NULL) {
    return sim_error (MPI_ERR_TYPE, "%s: invalid datatype", fname);
  }
  if (count < 0) {
    return sim_error (MPI_ERR_COUNT, "%s: negative count %d", fname, count);
  }
  return MPI_SUCCESS;
}

int
MPI_Barrier (MPI_Comm comm)
{
  sim_coll           *k;
  COLL_PROLOGUE ("MPI_Barrier");

  k = coll_begin (c, cr, CK_BARRIER, -1, fname, NULL, 0, -1, 0);
  coll_wait (k, cr, N_ALL, 0);
  if (tr_begin (fname, c)) {
    tr_end ();
  }
  coll_leave (k);
  return MPI_SUCCESS;
}

int
MPI_Ibarrier (MPI_Comm comm, MPI_Request * request)
{
  sim_coll           *k;
  sim_req            *q;
  COLL_PROLOGUE ("MPI_Ibarrier");

  if (request == NULL) {
    return MPI_ERR_ARG;
  }
  k = coll_begin (c, cr, CK_IBARRIER, -1, fname, NULL, 0, -1, 0);
  q = req_new (RK_IBARRIER, c, cr, 0);
  q->coll = k;
  k->ibreq[cr] = q;
  if (k->nentered == c->n) {
    coll_complete (k);
  }
  *request = req_handle (q);
  if (tr_begin (fname, c)) {
    tr_i ("req", q->rseq);
    tr_end ();
  }
  return MPI_SUCCESS;
}

int
MPI_Bcast (void *buffer, int count, MPI_Datatype dth, int root, MPI_Comm comm)
{
  sim_coll           *k;
  sim_dtype          *dt;
  unsigned char      *pk = NULL;
  size_t              nb = 0;
  int                 err, rc = MPI_SUCCESS;
  COLL_PROLOGUE ("MPI_Bcast");

  dt = dt_get (dth);
  if ((err = check_buf (fname, count, dt)) != MPI_SUCCESS
      || (err = check_root (fname, c, root)) != MPI_SUCCESS) {
    return err;
  }
  nb = (size_t) count *dt->size;
  if (cr == root) {
    pk = (unsigned char *) hold (dt_pack_new (buffer, dt, (size_t) count, &nb));
  }
  k = coll_begin (c, cr, CK_BCAST, root, fname, pk, nb, (long) nb, 0);
  unhold_free (pk);
  coll_wait (k, cr, cr == root ? N_NONE : N_ROOT, 0);
  if (cr != root) {
    dt_unpack (buffer, (unsigned char *) k->contrib[root], dt, nb);
  }
  if (tr_begin (fname, c)) {
    tr_i ("root", root);
    tr_i ("n", (long) nb);
    tr_data (cr == root ? "in" : "out", k->contrib[root], nb);
    tr_end ();
  }
  coll_leave (k);
  return rc;
}

/* Gather, Gatherv, Allgather, Allgatherv share one engine.  counts/displs
 * NULL: regular (recvcount for everyone). */
static int
do_gather (const char *fname, int kind, const void *sendbuf, int sendcount,
           MPI_Datatype sth, void *recvbuf, int recvcount, const int *counts,
           const int *displs, MPI_Datatype rth, int root, MPI_Comm comm)
{
  int                 cr = 0, i, err, all = root < 0, amroot, rc =
    MPI_SUCCESS;
  sim_comm           *c;
  sim_dtype          *sdt, *rdt = NULL;
  sim_coll           *k;
  unsigned char      *pk;
  size_t              nb;

  IN_RUN (fname);
  if ((c = comm_get (comm, &cr, fname)) == NULL) {
    return MPI_ERR_COMM;
  }
  if (!all && (err = check_root (fname, c, root)) != MPI_SUCCESS) {
    return err;
  }
  amroot = all || cr == root;
  if (amroot) {
    rdt = dt_get (rth);
    if (rdt == NULL) {
      return sim_error (MPI_ERR_TYPE, "%s: invalid receive datatype", fname);
    }
  }
  if (sendbuf == MPI_IN_PLACE) {
    /* own contribution already sits in the receive buffer */
    size_t              off;
    int                 cnt;
    if (!amroot) {
      return sim_error (MPI_ERR_BUFFER, "%s: MPI_IN_PLACE on a non-root",
                        fname);
    }
    off = (size_t) (counts != NULL ? displs[cr] : cr * recvcount);
    cnt = counts != NULL ? counts[cr] : recvcount;
    pk =
      dt_pack_new ((char *) recvbuf + off * rdt->extent, rdt, (size_t) cnt,
                   &nb);
  }
  else {
    sdt = dt_get (sth);
    if ((err = check_buf (fname, sendcount, sdt)) != MPI_SUCCESS) {
      return err;
    }
    pk = dt_pack_new (sendbuf, sdt, (size_t) sendcount, &nb);
  }
  hold (pk);
  k = coll_begin (c, cr, kind, all ? -1 : root, fname, pk, nb, -1, 0);
  coll_wait (k, cr, amroot ? N_ALL : N_NONE, 0);
  if (amroot) {
    for (i = 0; i < c->n; i++) {
      size_t              off =
        (size_t) (counts != NULL ? displs[i] : i * recvcount);
      size_t              want =
        (size_t) (counts != NULL ? counts[i] : recvcount) * rdt->size;
      size_t              got = k->clen[i];
      if (got != want) {
        rc = sim_error (got > want ? MPI_ERR_TRUNCATE : MPI_ERR_COUNT,
                        "%s: rank %d contributes %zu bytes, receiver %d expects %zu",
                        fname, i, got, cr, want);
        if (got > want) {
          got = want;
        }
      }
      if (!(sendbuf == MPI_IN_PLACE && i == cr)) {
        dt_unpack ((char *) recvbuf + off * rdt->extent,
                   (unsigned char *) k->contrib[i], rdt, got);
      }
    }
  }
  if (tr_begin (fname, c)) {
    if (!all) {
      tr_i ("root", root);
    }
    tr_data ("in", pk, nb);
    if (amroot) {
      sbuf                cat;
      memset (&cat, 0, sizeof (cat));
      for (i = 0; i < c->n; i++) {
        sb_reserve (&cat, k->clen[i]);
        if (k->clen[i] > 0) {
          memcpy (cat.p + cat.n, k->contrib[i], k->clen[i]);
        }
        cat.n += k->clen[i];
      }
      if (counts != NULL) {
        tr_ints ("counts", counts, c->n);
        tr_ints ("displs", displs, c->n);
      }
      tr_data ("out", cat.p, cat.n);
      sb_free (&cat);
    }
    tr_end ();
  }
  unhold_free (pk);
  coll_leave (k);
  return rc;
}

int
MPI_Gather (const void *sendbuf, int sendcount, MPI_Datatype sendtype,
            void *recvbuf, int recvcount, MPI_Datatype recvtype, int root,
            MPI_Comm comm)
{
  if (root < 0) {
    root = 0x7fffffff;          /* invalid, not "all" */
  }
  return do_gather ("MPI_Gather", CK_GATHER, sendbuf, sendcount, sendtype,
                    recvbuf, recvcount, NULL, NULL, recvtype, root, comm);
}

int
MPI_Gatherv (const void *sendbuf, int sendcount, MPI_Datatype sendtype,
             void *recvbuf, const int recvcounts[], const int displs[],
             MPI_Datatype recvtype, int root, MPI_Comm comm)
{
  if (root < 0) {
    root = 0x7fffffff;
  }
  return do_gather ("MPI_Gatherv", CK_GATHERV, sendbuf, sendcount, sendtype,
                    recvbuf, 0, recvcounts, displs, recvtype, root, comm);
}

int
MPI_Allgather (const void *sendbuf, int sendcount, MPI_Datatype sendtype,
               void *recvbuf, int recvcount, MPI_Datatype recvtype,
               MPI_Comm comm)
{
  return do_gather ("MPI_Allgather", CK_ALLGATHER, sendbuf, sendcount,
                    sendtype, recvbuf, recvcount, NULL, NULL, recvtype, -1,
                    comm);
}

int
MPI_Allgatherv (const void *sendbuf, int sendcount, MPI_Datatype sendtype,
                void *recvbuf, const int recvcounts[], const int displs[],
                MPI_Datatype recvtype, MPI_Comm comm)
{
  return do_gather ("MPI_Allgatherv", CK_ALLGATHERV, sendbuf, sendcount,
                    sendtype, recvbuf, 0, recvcounts, displs, recvtype, -1,
                    comm);
}

int
MPI_Scatter (const void *sendbuf, int sendcount, MPI_Datatype sendtype,
             void *recvbuf, int recvcount, MPI_Datatype recvtype, int root,
             MPI_Comm comm)
{
  sim_coll           *k;
  sim_dtype          *sdt, *rdt;
  unsigned char      *pk = NULL;
  size_t              nb = 0, blk, want;
  int                 err, rc = MPI_SUCCESS;
  COLL_PROLOGUE ("MPI_Scatter");

  if ((err = check_root (fname, c, root)) != MPI_SUCCESS) {
    return err;
  }
  rdt = dt_get (recvtype);
  if ((err = check_buf (fname, recvcount, rdt)) != MPI_SUCCESS) {
    return err;
  }
  if (cr == root) {
    sdt = dt_get (sendtype);
    if ((err = check_buf (fname, sendcount, sdt)) != MPI_SUCCESS) {
      return err;
    }
    pk = dt_pack_new (sendbuf, sdt, (size_t) sendcount * (size_t) c->n, &nb);
  }
  hold (pk);
  k = coll_begin (c, cr, CK_SCATTER, root, fname, pk, nb, -1, 0);
  unhold_free (pk);
  coll_wait (k, cr, cr == root ? N_NONE : N_ROOT, 0);
  blk = k->clen[root] / (size_t) c->n;
  want = (size_t) recvcount *rdt->size;
  if (blk != want) {
    rc = sim_error (blk > want ? MPI_ERR_TRUNCATE : MPI_ERR_COUNT,
                    "%s: root sends %zu bytes per rank, rank %d expects %zu",
                    fname, blk, cr, want);
  }
  dt_unpack (recvbuf, (unsigned char *) k->contrib[root] + (size_t) cr * blk,
             rdt, blk < want ? blk : want);
  if (tr_begin (fname, c)) {
    tr_i ("root", root);
    if (cr == root) {
      tr_data ("in", k->contrib[root], k->clen[root]);
    }
    tr_data ("out", (unsigned char *) k->contrib[root] + (size_t) cr * blk,
             blk);
    tr_end ();
  }
  coll_leave (k);
  return rc;
}

int
MPI_Alltoall (const void *sendbuf, int sendcount, MPI_Datatype sendtype,
              void *recvbuf, int recvcount, MPI_Datatype recvtype,
              MPI_Comm comm)
{
  sim_coll           *k;
  sim_dtype          *sdt, *rdt;
  unsigned char      *pk;
  size_t              nb = 0, want;
  int                 err, i, rc = MPI_SUCCESS;
  sbuf                cat;
  COLL_PROLOGUE ("MPI_Alltoall");

  sdt = dt_get (sendtype);
  rdt = dt_get (recvtype);
  if ((err = check_buf (fname, sendcount, sdt)) != MPI_SUCCESS
      || (err = check_buf (fname, recvcount, rdt)) != MPI_SUCCESS) {
    return err;
  }
  pk = dt_pack_new (sendbuf, sdt, (size_t) sendcount * (size_t) c->n, &nb);
  hold (pk);
  k = coll_begin (c, cr, CK_ALLTOALL, -1, fname, pk, nb, -1, 0);
  coll_wait (k, cr, N_ALL, 0);
  want = (size_t) recvcount *rdt->size;
  memset (&cat, 0, sizeof (cat));
  for (i = 0; i < c->n; i++) {
    size_t              blk = k->clen[i] / (size_t) c->n;
    if (blk != want) {
      rc = sim_error (blk > want ? MPI_ERR_TRUNCATE : MPI_ERR_COUNT,
                      "%s: rank %d sends %zu bytes per rank, rank %d expects %zu",
                      fname, i, blk, cr, want);
    }
    dt_unpack ((char *) recvbuf + (size_t) i * (size_t) recvcount * rdt->extent,
               (unsigned char *) k->contrib[i] + (size_t) cr * blk, rdt,
               blk < want ? blk : want);
    if (S.trace != NULL) {
      sb_reserve (&cat, blk);
      if (blk > 0) {
        memcpy (cat.p + cat.n,
                (unsigned char *) k->contrib[i] + (size_t) cr * blk, blk);
      }
      cat.n += blk;
    }
  }
  if (tr_begin (fname, c)) {
    tr_data ("in", pk, nb);
    tr_data ("out", cat.p, cat.n);
    tr_end ();
  }
  sb_free (&cat);
  unhold_free (pk);
  coll_leave (k);
  return rc;
}

int
MPI_Alltoallv (const void *sendbuf, const int sendcounts[],
               const int sdispls[], MPI_Datatype sendtype, void *recvbuf,
               const int recvcounts[], const int rdispls[],
               MPI_Datatype recvtype, MPI_Comm comm)
{
  sim_coll           *k;
  sim_dtype          *sdt, *rdt;
  unsigned char      *pk;
  size_t              nb = 0, hdr, off;
  int                 i, j, n, rc = MPI_SUCCESS;
  sbuf                cat;
  COLL_PROLOGUE ("MPI_Alltoallv");

  sdt = dt_get (sendtype);
  rdt = dt_get (recvtype);
  if (sdt == NULL || rdt == NULL) {
    return sim_error (MPI_ERR_TYPE, "%s: invalid datatype", fname);
  }
  n = c->n;
  /* contribution: n block lengths (size_t) followed by the packed blocks */
  hdr = (size_t) n *sizeof (size_t);
  nb = hdr;
  for (i = 0; i < n; i++) {
    if (sendcounts[i] < 0) {
      return sim_error (MPI_ERR_COUNT, "%s: negative count", fname);
    }
    nb += (size_t) sendcounts[i] * sdt->size;
  }
  pk = (unsigned char *) xmalloc (nb);
  off = hdr;
  for (i = 0; i < n; i++) {
    size_t              l = (size_t) sendcounts[i] * sdt->size;
    memcpy (pk + (size_t) i * sizeof (size_t), &l, sizeof (size_t));
    dt_pack (pk + off, (const char *) sendbuf + (size_t) sdispls[i] * sdt->extent,
             sdt, (size_t) sendcounts[i]);
    off += l;
  }
  hold (pk);
  k = coll_begin (c, cr, CK_ALLTOALLV, -1, fname, pk, nb, -1, 0);
  coll_wait (k, cr, N_ALL, 0);
  memset (&cat, 0, sizeof (cat));
  for (i = 0; i < n; i++) {
    const unsigned char *ci = (const unsigned char *) k->contrib[i];
    size_t              l = 0, want = (size_t) recvcounts[i] * rdt->size;
    off = hdr;
    for (j = 0; j <= cr; j++) {
      memcpy (&l, ci + (size_t) j * sizeof (size_t), sizeof (size_t));
      if (j < cr) {
        off += l;
      }
    }
    if (l != want) {
      rc = sim_error (l > want ? MPI_ERR_TRUNCATE : MPI_ERR_COUNT,
                      "%s: rank %d sends %zu bytes to rank %d which expects %zu",
                      fname, i, l, cr, want);
    }
    dt_unpack ((char *) recvbuf + (size_t) rdispls[i] * rdt->extent, ci + off,
               rdt, l < want ? l : want);
    if (S.trace != NULL) {
      sb_reserve (&cat, l);
      if (l > 0) {
        memcpy (cat.p + cat.n, ci + off, l);
      }
      cat.n += l;
    }
  }
  if (tr_begin (fname, c)) {
    tr_ints ("sendcounts", sendcounts, n);
    tr_ints ("recvcounts", recvcounts, n);
    tr_data ("in", pk + hdr, nb - hdr);
    tr_data ("out", cat.p, cat.n);
    tr_end ();
  }
  sb_free (&cat);
  unhold_free (pk);
  coll_leave (k);
  return rc;
}

/* ---------------------------------------------------- reduction collectives */

static void
tr_red (sim_dtype * dt, int count, MPI_Op op)
{
  char                on[64];

  op_name (op, on, sizeof (on));
  tr_s ("op", on);
  tr_s ("dt", dt->name);
  tr_i ("count", count);
}

/* packed hex of count items in user layout */
static void
tr_items (const char *key, const void *p, sim_dtype * dt, int count)
{
  size_t              nb;
  unsigned char      *pk = dt_pack_new (p, dt, (size_t) count, &nb);

  tr_data (key, pk, nb);
  free (pk);
}

static int
check_red (const char *fname, int count, sim_dtype * dt, MPI_Op op)
{
  int                 pre = 0, e;
  sim_opx            *ux = NULL;

  if ((e = check_buf (fname, count, dt)) != MPI_SUCCESS) {
    return e;
  }
  if (op_get (op, &pre, &ux) < 0) {
    return sim_error (MPI_ERR_OP, "%s: invalid operation handle 0x%x", fname,
                      (unsigned) op);
  }
  return MPI_SUCCESS;
}

/* kind: CK_REDUCE (root), CK_ALLREDUCE, CK_RSB, CK_SCAN, CK_EXSCAN */
static int
do_reduce (const char *fname, int kind, const void *sendbuf, void *recvbuf,
           int count, MPI_Datatype dth, MPI_Op op, int root, MPI_Comm comm)
{
  int                 cr = 0, err, need, upto = 0, n, total, rc = MPI_SUCCESS;
  int                 have_out = 1;
  sim_comm           *c;
  sim_dtype          *dt;
  sim_coll           *k;
  size_t              bytes;
  const void         *in;
  void               *out = NULL;

  IN_RUN (fname);
  if ((c = comm_get (comm, &cr, fname)) == NULL) {
    return MPI_ERR_COMM;
  }
  dt = dt_get (dth);
  if ((err = check_red (fname, count, dt, op)) != MPI_SUCCESS) {
    return err;
  }
  if (kind == CK_REDUCE && (err = check_root (fname, c, root)) != MPI_SUCCESS) {
    return err;
  }
  n = c->n;
  total = kind == CK_RSB ? count * n : count;   /* items contributed */
  bytes = (size_t) total *dt->extent;
  in = sendbuf == MPI_IN_PLACE ? recvbuf : sendbuf;
  if (sendbuf == MPI_IN_PLACE && kind == CK_REDUCE && cr != root) {
    return sim_error (MPI_ERR_BUFFER, "%s: MPI_IN_PLACE on a non-root",
                      fname);
  }
  {
    /* user operations are per-rank objects: only "some user op" is compared */
    int                 pre = 0;
    sim_opx            *ux = NULL;
    int                 sigop =
      op_get (op, &pre, &ux) == 1 ? (int) (HK_OP | 256u) : (int) op;
    k = coll_begin (c, cr, kind, kind == CK_REDUCE ? root : -1, fname, in,
                    bytes, (long) bytes, sigop);
  }
  switch (kind) {
  case CK_REDUCE:
    need = cr == root ? N_ALL : N_NONE;
    have_out = cr == root;
    break;
  case CK_SCAN:
    need = N_PREFIX;
    upto = cr + 1;
    break;
  case CK_EXSCAN:
    need = N_PREFIX;
    upto = cr;
    have_out = cr > 0;
    break;
  default:
    need = N_ALL;
    break;
  }
  coll_wait (k, cr, need, upto);

  if (have_out) {
    if (kind == CK_SCAN || kind == CK_EXSCAN) {
      out = xmalloc (bytes);
      err = reduce_ranks (op, dt, total, k->contrib, upto, out);
      memcpy (recvbuf, out, bytes);
    }
    else if (kind == CK_REDUCE) {
      out = xmalloc (bytes);
      err = reduce_ranks (op, dt, total, k->contrib, n, out);
      memcpy (recvbuf, out, bytes);
    }
    else {
      /* the same result for every rank: computed once, by whoever is first */
      if (k->result == NULL) {
        k->result = xmalloc (bytes);
        err = reduce_ranks (op, dt, total, k->contrib, n, k->result);
      }
      if (kind == CK_RSB) {
        size_t              blk = (size_t) count * dt->extent;
        memcpy (recvbuf, (char *) k->result + (size_t) cr * blk, blk);
      }
      else {
        memcpy (recvbuf, k->result, bytes);
      }
    }
    if (err != MPI_SUCCESS) {
      rc = sim_error (err, "%s: operation not defined for datatype %s",
                      fname, dt->name);
    }
  }
  if (tr_begin (fname, c)) {
    if (kind == CK_REDUCE) {
      tr_i ("root", root);
    }
    tr_red (dt, count, op);
    tr_items ("in", k->contrib[cr], dt, total);
    if (have_out) {
      tr_items ("out", recvbuf, dt, count);
    }
    tr_end ();
  }
  free (out);
  coll_leave (k);
  return rc;
}

int
MPI_Reduce (const void *sendbuf, void *recvbuf, int count,
            MPI_Datatype datatype, MPI_Op op, int root, MPI_Comm comm)
{
  return do_reduce ("MPI_Reduce", CK_REDUCE, sendbuf, recvbuf, count,
                    datatype, op, root, comm);
}

int
MPI_Allreduce (const void *sendbuf, void *recvbuf, int count,
               MPI_Datatype datatype, MPI_Op op, MPI_Comm comm)
{
  return do_reduce ("MPI_Allreduce", CK_ALLREDUCE, sendbuf, recvbuf, count,
                    datatype, op, -1, comm);
}

int
MPI_Reduce_scatter_block (const void *sendbuf, void *recvbuf, int recvcount,
                          MPI_Datatype datatype, MPI_Op op, MPI_Comm comm)
{
  return do_reduce ("MPI_Reduce_scatter_block", CK_RSB, sendbuf, recvbuf,
                    recvcount, datatype, op, -1, comm);
}

int
MPI_Scan (const void *sendbuf, void *recvbuf, int count,
          MPI_Datatype datatype, MPI_Op op, MPI_Comm comm)
{
  return do_reduce ("MPI_Scan", CK_SCAN, sendbuf, recvbuf, count, datatype,
                    op, -1, comm);
}

int
MPI_Exscan (const void *sendbuf, void *recvbuf, int count,
            MPI_Datatype datatype, MPI_Op op, MPI_Comm comm)
{
  return do_reduce ("MPI_Exscan", CK_EXSCAN, sendbuf, recvbuf, count,
                    datatype, op, -1, comm);
}

int
MPI_Op_create (MPI_User_function * user_fn, int commute, MPI_Op * op)
{
  sim_opx            *x;

  IN_RUN ("MPI_Op_create");
  if (user_fn == NULL || op == NULL) {
    return sim_error (MPI_ERR_ARG, "MPI_Op_create: NULL argument");
  }
  x = (sim_opx *) xcalloc (1, sizeof (sim_opx));
  if (S.nops == S.capops) {
    S.capops = S.capops ? 2 * S.capops : 16;
    S.ops = (sim_opx **) xrealloc (S.ops, S.capops * sizeof (sim_opx *));
  }
  x->handle = (int) (HK_OP | (unsigned) (256 + S.nops));
  S.ops[S.nops++] = x;
  x->fn = user_fn;
  x->commute = commute != 0;
  x->owner = S.cur->world;
  x->alive = 1;
  *op = x->handle;
  if (S.o.trace_local && tr_begin ("MPI_Op_create", NULL)) {
    tr_i ("commute", x->commute);
    tr_i ("op", H_IDX (x->handle) - 256);
    tr_end ();
  }
  return MPI_SUCCESS;
}

int
MPI_Op_free (MPI_Op * op)
{
  int                 pre = 0;
  sim_opx            *ux = NULL;

  IN_RUN ("MPI_Op_free");
  if (op == NULL || op_get (*op, &pre, &ux) != 1) {
    return sim_error (MPI_ERR_OP, "MPI_Op_free: not a user operation");
  }
  ux->alive = 0;
  if (S.o.trace_local && tr_begin ("MPI_Op_free", NULL)) {
    tr_i ("op", H_IDX (ux->handle) - 256);
    tr_end ();
  }
  *op = MPI_OP_NULL;
  return MPI_SUCCESS;
}

/* ------------------------------------------------ communicator management */

int
MPI_Comm_size (MPI_Comm comm, int *size)
{
  int                 cr = 0;
  sim_comm           *c;

  IN_RUN ("MPI_Comm_size");
  if ((c = comm_get (comm, &cr, "MPI_Comm_size")) == NULL) {
    return MPI_ERR_COMM;
  }
  *size = c->n;
  if (S.o.trace_local && tr_begin ("MPI_Comm_size", c)) {
    tr_i ("size", c->n);
    tr_end ();
  }
  return MPI_SUCCESS;
}

int
MPI_Comm_rank (MPI_Comm comm, int *rank)
{
  int                 cr = 0;
  sim_comm           *c;

  IN_RUN ("MPI_Comm_rank");
  if ((c = comm_get (comm, &cr, "MPI_Comm_rank")) == NULL) {
    return MPI_ERR_COMM;
  }
  *rank = cr;
  if (S.o.trace_local && tr_begin ("MPI_Comm_rank", c)) {
    tr_i ("rank", cr);
    tr_end ();
  }
  return MPI_SUCCESS;
}

int
MPI_Comm_compare (MPI_Comm comm1, MPI_Comm comm2, int *result)
{
  int                 r1 = 0, r2 = 0, i, same = 1;
  sim_comm           *a, *b;

  IN_RUN ("MPI_Comm_compare");
  if ((a = comm_get (comm1, &r1, "MPI_Comm_compare")) == NULL
      || (b = comm_get (comm2, &r2, "MPI_Comm_compare")) == NULL) {
    return MPI_ERR_COMM;
  }
  if (a == b) {
    *result = MPI_IDENT;
    return MPI_SUCCESS;
  }
  if (a->n != b->n) {
    *result = MPI_UNEQUAL;
    return MPI_SUCCESS;
  }
  for (i = 0; i < a->n; i++) {
    if (a->m[i] != b->m[i]) {
      same = 0;
    }
    if (b->w2c[a->m[i]] < 0) {
      *result = MPI_UNEQUAL;
      return MPI_SUCCESS;
    }
  }
  *result = same ? MPI_CONGRUENT : MPI_SIMILAR;
  return MPI_SUCCESS;
}

static void
tr_newcomm (sim_comm * nc)
{
  if (nc != NULL) {
    tr_i ("newc", nc->id);
    tr_i ("nrank", nc->w2c[S.cur->world]);
    tr_i ("nsize", nc->n);
  }
  else {
    tr_i ("newc", -1);
  }
}

static sim_attr    *
attr_find (sim_comm * c, int cr, int keyval)
{
  sim_attr           *a;

  for (a = c->attrs[cr]; a != NULL; a = a->next) {
    if (a->keyval == keyval) {
      return a;
    }
  }
  return NULL;
}

static void
attr_put (sim_comm * c, int cr, int keyval, void *val)
{
  sim_attr           *a = (sim_attr *) xcalloc (1, sizeof (sim_attr)), **pa;

  a->keyval = keyval;
  a->val = val;
  for (pa = &c->attrs[cr]; *pa != NULL; pa = &(*pa)->next) {
  }
  *pa = a;
}

static sim_keyval  *
kv_get (int keyval)
{
  int                 idx = H_IDX (keyval);

  if (((unsigned) keyval & HK_MASK) != HK_KEYVAL || idx >= nKV
      || !KV[idx].alive) {
    return NULL;
  }
  return &KV[idx];
}

/* callbacks stay usable for attributes set before MPI_Comm_free_keyval */
static sim_keyval  *
kv_any (int keyval)
{
  int                 idx = H_IDX (keyval);

  if (((unsigned) keyval & HK_MASK) != HK_KEYVAL || idx >= nKV) {
    return NULL;
  }
  return &KV[idx];
}

int
simmpi_comm_dup_fn (MPI_Comm oldcomm, int keyval, void *extra, void *in,
                    void *out, int *flag)
{
  (void) oldcomm;
  (void) keyval;
  (void) extra;
  *(void **) out = in;
  *flag = 1;
  return MPI_SUCCESS;
}

int
MPI_Comm_dup (MPI_Comm comm, MPI_Comm * newcomm)
{
  sim_coll           *k;
  sim_comm           *nc;
  sim_attr           *a;
  int                 ncr, rc = MPI_SUCCESS;
  COLL_PROLOGUE ("MPI_Comm_dup");

  if (newcomm == NULL) {
    return MPI_ERR_ARG;
  }
  k = coll_begin (c, cr, CK_DUP, -1, fname, NULL, 0, -1, 0);
  coll_wait (k, cr, N_ALL, 0);
  nc = k->newc[cr];
  coll_leave (k);
  ncr = nc->w2c[S.cur->world];
  /* attribute copy callbacks run in the calling rank (they may call MPI) */
  for (a = c->attrs[cr]; a != NULL; a = a->next) {
    sim_keyval         *kv = kv_any (a->keyval);
    if (kv != NULL && kv->copy != NULL) {
      void               *nv = NULL;
      int                 flag = 0;
      int                 e =
        kv->copy (comm, a->keyval, kv->extra, a->val, &nv, &flag);
      if (e != MPI_SUCCESS) {
        rc = sim_error (e, "%s: attribute copy callback failed", fname);
        break;
      }
      if (flag) {
        attr_put (nc, ncr, a->keyval, nv);
      }
    }
  }
  *newcomm = comm_handle (nc);
  if (tr_begin (fname, c)) {
    tr_newcomm (nc);
    tr_end ();
  }
  return rc;
}

static int
do_split (const char *fname, sim_comm * c, int cr, int color, int key,
          MPI_Comm * newcomm, int node)
{
  sim_coll           *k;
  sim_comm           *nc;
  int                 ck[2];

  ck[0] = color;
  ck[1] = key;
  k = coll_begin (c, cr, CK_SPLIT, -1, fname, ck, sizeof (ck), -1, 0);
  coll_wait (k, cr, N_ALL, 0);
  nc = k->newc[cr];
  coll_leave (k);
  *newcomm = comm_handle (nc);
  if (tr_begin (fname, c)) {
    if (node >= 0) {
      tr_s ("type", "shared");
      tr_i ("node", node);
    }
    else {
      tr_i ("color", color);
    }
    tr_i ("key", key);
    tr_newcomm (nc);
    tr_end ();
  }
  return MPI_SUCCESS;
}

int
MPI_Comm_split (MPI_Comm comm, int color, int key, MPI_Comm * newcomm)
{
  COLL_PROLOGUE ("MPI_Comm_split");

  if (newcomm == NULL) {
    return MPI_ERR_ARG;
  }
  if (color < 0 && color != MPI_UNDEFINED) {
    return sim_error (MPI_ERR_ARG, "%s: negative color %d", fname, color);
  }
  return do_split (fname, c, cr, color, key, newcomm, -1);
}

static int
node_of (int world)
{
  int                 ppn = S.o.ppn <= 0 ? S.P : S.o.ppn;
  int                 nnodes = (S.P + ppn - 1) / ppn;

  return S.o.noncontig_nodes ? world % nnodes : world / ppn;
}

int
MPI_Comm_split_type (MPI_Comm comm, int split_type, int key, MPI_Info info,
                     MPI_Comm * newcomm)
{
  COLL_PROLOGUE ("MPI_Comm_split_type");

  (void) info;
  if (newcomm == NULL) {
    return MPI_ERR_ARG;
  }
  if (split_type == MPI_UNDEFINED) {
    return do_split (fname, c, cr, MPI_UNDEFINED, key, newcomm, -1);
  }
  if (split_type != MPI_COMM_TYPE_SHARED) {
    return sim_error (MPI_ERR_ARG, "%s: unsupported split type %d", fname,
                      split_type);
  }
  return do_split (fname, c, cr, node_of (S.cur->world), key, newcomm,
                   node_of (S.cur->world));
}

static sim_group   *
group_get (MPI_Group h)
{
  int                 idx = H_IDX (h) - 1;      /* index 0 is MPI_GROUP_EMPTY */

  if (((unsigned) h & HK_MASK) != HK_GROUP || idx < 0 || idx >= S.ngroups
      || S.groups[idx] == NULL || !S.groups[idx]->alive) {
    return NULL;
  }
  return S.groups[idx];
}

static              MPI_Group
group_new (int n, const int *m)
{
  sim_group          *g;

  if (n == 0) {
    return MPI_GROUP_EMPTY;
  }
  g = (sim_group *) xcalloc (1, sizeof (sim_group));
  g->n = n;
  g->m = (int *) xmemdup (m, (size_t) n * sizeof (int));
  g->owner = S.cur->world;
  g->alive = 1;
  if (S.ngroups == S.capgroups) {
    S.capgroups = S.capgroups ? 2 * S.capgroups : 16;
    S.groups =
      (sim_group **) xrealloc (S.groups, S.capgroups * sizeof (sim_group *));
  }
  S.groups[S.ngroups++] = g;
  return (MPI_Group) (HK_GROUP | (unsigned) S.ngroups);
}

int
MPI_Comm_create (MPI_Comm comm, MPI_Group group, MPI_Comm * newcomm)
{
  sim_coll           *k;
  sim_comm           *nc;
  sim_group          *g;
  COLL_PROLOGUE ("MPI_Comm_create");

  g = group_get (group);
  if (g == NULL || newcomm == NULL) {
    return sim_error (MPI_ERR_GROUP, "%s: invalid group", fname);
  }
  k = coll_begin (c, cr, CK_CREATE, -1, fname, g->m,
                  (size_t) g->n * sizeof (int), -1, 0);
  coll_wait (k, cr, N_ALL, 0);
  nc = k->newc[cr];
  coll_leave (k);
  *newcomm = comm_handle (nc);
  if (tr_begin (fname, c)) {
    tr_ints ("group", g->m, g->n);
    tr_newcomm (nc);
    tr_end ();
  }
  return MPI_SUCCESS;
}

static int
attr_delete (sim_comm * c, int cr, MPI_Comm h, sim_attr * a,
             const char *fname)
{
  sim_keyval         *kv = kv_any (a->keyval);
  sim_attr          **pa;
  int                 e = MPI_SUCCESS;

  /* unlink first: the callback may free communicators and attributes */
  for (pa = &c->attrs[cr]; *pa != NULL; pa = &(*pa)->next) {
    if (*pa == a) {
      *pa = a->next;
      break;
    }
  }
  if (kv != NULL && kv->del != NULL) {
    e = kv->del (h, a->keyval, a->val, kv->extra);
    if (e != MPI_SUCCESS) {
      sim_error (e, "%s: attribute delete callback failed", fname);
    }
  }
  free (a);
  return e;
}

int
MPI_Comm_free (MPI_Comm * comm)
{
  static const char  *fname = "MPI_Comm_free";
  int                 cr = 0, id;
  sim_comm           *c;

  IN_RUN (fname);
  if (comm == NULL) {
    return MPI_ERR_ARG;
  }
  if ((c = comm_get (*comm, &cr, fname)) == NULL) {
    return MPI_ERR_COMM;
  }
  if (c->idx == 0 || c->is_self) {
    return sim_error (MPI_ERR_COMM, "%s: cannot free a predefined communicator",
                      fname);
  }
  yield_step (fname);
  while (c->attrs[cr] != NULL) {
    int                 e = attr_delete (c, cr, *comm, c->attrs[cr], fname);
    if (e != MPI_SUCCESS) {
      return e;
    }
  }
  c->freed[cr] = 1;
  c->nfreed++;
  id = c->id;
  *comm = MPI_COMM_NULL;
  if (tr_begin (fname, NULL)) {
    tr_i ("c", id);
    tr_end ();
  }
  return MPI_SUCCESS;
}

/* ------------------------------------------------------------- attributes */

int
MPI_Comm_create_keyval (MPI_Comm_copy_attr_function * copy_fn,
                        MPI_Comm_delete_attr_function * delete_fn,
                        int *comm_keyval, void *extra_state)
{
  IN_RUN ("MPI_Comm_create_keyval");
  if (comm_keyval == NULL) {
    return MPI_ERR_ARG;
  }
  if (nKV == capKV) {
    capKV = capKV ? 2 * capKV : 16;
    KV = (sim_keyval *) xrealloc (KV, (size_t) capKV * sizeof (sim_keyval));
  }
  KV[nKV].copy = copy_fn;
  KV[nKV].del = delete_fn;
  KV[nKV].extra = extra_state;
  KV[nKV].alive = 1;
  KV[nKV].run = sim_run_counter;
  KV[nKV].owner = S.cur->world;
  *comm_keyval = (int) (HK_KEYVAL | (unsigned) nKV);
  nKV++;
  if (S.o.trace_local && tr_begin ("MPI_Comm_create_keyval", NULL)) {
    tr_i ("keyval", nKV - 1);
    tr_end ();
  }
  return MPI_SUCCESS;
}

int
MPI_Comm_free_keyval (int *comm_keyval)
{
  sim_keyval         *kv;

  IN_RUN ("MPI_Comm_free_keyval");
  if (comm_keyval == NULL || (kv = kv_get (*comm_keyval)) == NULL) {
    return sim_error (MPI_ERR_KEYVAL, "MPI_Comm_free_keyval: invalid keyval");
  }
  /* attributes already set keep working in MPI; here the callbacks are kept
   * by leaving the entry in place and only marking it */
  kv->alive = 0;
  *comm_keyval = MPI_KEYVAL_INVALID;
  return MPI_SUCCESS;
}

int
MPI_Comm_set_attr (MPI_Comm comm, int comm_keyval, void *attribute_val)
{
  static const char  *fname = "MPI_Comm_set_attr";
  int                 cr = 0;
  sim_comm           *c;
  sim_attr           *a;

  IN_RUN (fname);
  if ((c = comm_get (comm, &cr, fname)) == NULL) {
    return MPI_ERR_COMM;
  }
  if (kv_get (comm_keyval) == NULL) {
    return sim_error (MPI_ERR_KEYVAL, "%s: invalid keyval 0x%x", fname,
                      (unsigned) comm_keyval);
  }
  if ((a = attr_find (c, cr, comm_keyval)) != NULL) {
    int                 e = attr_delete (c, cr, comm, a, fname);
    if (e != MPI_SUCCESS) {
      return e;
    }
  }
  attr_put (c, cr, comm_keyval, attribute_val);
  if (S.o.trace_local && tr_begin (fname, c)) {
    tr_i ("keyval", H_IDX (comm_keyval));
    tr_end ();
  }
  return MPI_SUCCESS;
}

int
MPI_Comm_get_attr (MPI_Comm comm, int comm_keyval, void *attribute_val,
                   int *flag)
{
  static const char  *fname = "MPI_Comm_get_attr";
  static int          tag_ub = 0x3fffffff, wtime_global = 1;
  int                 cr = 0;
  sim_comm           *c;
  sim_attr           *a;

  IN_RUN (fname);
  if ((c = comm_get (comm, &cr, fname)) == NULL) {
    return MPI_ERR_COMM;
  }
  if (comm_keyval == MPI_TAG_UB) {
    *(void **) attribute_val = &tag_ub;
    *flag = 1;
    return MPI_SUCCESS;
  }
  if (comm_keyval == MPI_WTIME_IS_GLOBAL) {
    *(void **) attribute_val = &wtime_global;
    *flag = 1;
    return MPI_SUCCESS;
  }
  if (kv_get (comm_keyval) == NULL) {
    return sim_error (MPI_ERR_KEYVAL, "%s: invalid keyval 0x%x", fname,
                      (unsigned) comm_keyval);
  }
  a = attr_find (c, cr, comm_keyval);
  *flag = a != NULL;
  if (a != NULL) {
    *(void **) attribute_val = a->val;
  }
  if (S.o.trace_local && tr_begin (fname, c)) {
    tr_i ("keyval", H_IDX (comm_keyval));
    tr_i ("flag", *flag);
    tr_end ();
  }
  return MPI_SUCCESS;
}

int
MPI_Comm_delete_attr (MPI_Comm comm, int comm_keyval)
{
  static const char  *fname = "MPI_Comm_delete_attr";
  int                 cr = 0;
  sim_comm           *c;
  sim_attr           *a;

  IN_RUN (fname);
  if ((c = comm_get (comm, &cr, fname)) == NULL) {
    return MPI_ERR_COMM;
  }
  if (kv_get (comm_keyval) == NULL) {
    return sim_error (MPI_ERR_KEYVAL, "%s: invalid keyval 0x%x", fname,
                      (unsigned) comm_keyval);
  }
  if ((a = attr_find (c, cr, comm_keyval)) != NULL) {
    int                 e = attr_delete (c, cr, comm, a, fname);
    if (e != MPI_SUCCESS) {
      return e;
    }
  }
  if (S.o.trace_local && tr_begin (fname, c)) {
    tr_i ("keyval", H_IDX (comm_keyval));
    tr_end ();
  }
  return MPI_SUCCESS;
}

/* ----------------------------------------------------------------- groups */

static int
group_members (MPI_Group h, int *n, const int **m)
{
  sim_group          *g;

  if (h == MPI_GROUP_EMPTY) {
    *n = 0;
    *m = NULL;
    return 1;
  }
  g = group_get (h);
  if (g == NULL) {
    return 0;
  }
  *n = g->n;
  *m = g->m;
  return 1;
}

static int
in_list (int x, int n, const int *m)
{
  int                 i;
  for (i = 0; i < n; i++) {
    if (m[i] == x) {
      return i;
    }
  }
  return -1;
}

int
MPI_Comm_group (MPI_Comm comm, MPI_Group * group)
{
  int                 cr = 0;
  sim_comm           *c;

  IN_RUN ("MPI_Comm_group");
  if ((c = comm_get (comm, &cr, "MPI_Comm_group")) == NULL) {
    return MPI_ERR_COMM;
  }
  *group = group_new (c->n, c->m);
  return MPI_SUCCESS;
}

int
MPI_Group_free (MPI_Group * group)
{
  sim_group          *g;

  IN_RUN ("MPI_Group_free");
  if (group == NULL) {
    return MPI_ERR_ARG;
  }
  if (*group == MPI_GROUP_EMPTY) {
    *group = MPI_GROUP_NULL;
    return MPI_SUCCESS;
  }
  if ((g = group_get (*group)) == NULL) {
    return sim_error (MPI_ERR_GROUP, "MPI_Group_free: invalid group");
  }
  g->alive = 0;
  *group = MPI_GROUP_NULL;
  return MPI_SUCCESS;
}

int
MPI_Group_size (MPI_Group group, int *size)
{
  int                 n;
  const int          *m;

  IN_RUN ("MPI_Group_size");
  if (!group_members (group, &n, &m)) {
    return sim_error (MPI_ERR_GROUP, "MPI_Group_size: invalid group");
  }
  *size = n;
  return MPI_SUCCESS;
}

int
MPI_Group_rank (MPI_Group group, int *rank)
{
  int                 n, i;
  const int          *m;

  IN_RUN ("MPI_Group_rank");
  if (!group_members (group, &n, &m)) {
    return sim_error (MPI_ERR_GROUP, "MPI_Group_rank: invalid group");
  }
  i = in_list (S.cur->world, n, m);
  *rank = i < 0 ? MPI_UNDEFINED : i;
  return MPI_SUCCESS;
}

int
MPI_Group_translate_ranks (MPI_Group group1, int n, const int ranks1[],
                           MPI_Group group2, int ranks2[])
{
  int                 n1, n2, i;
  const int          *m1, *m2;

  IN_RUN ("MPI_Group_translate_ranks");
  if (!group_members (group1, &n1, &m1) || !group_members (group2, &n2, &m2)) {
    return sim_error (MPI_ERR_GROUP,
                      "MPI_Group_translate_ranks: invalid group");
  }
  for (i = 0; i < n; i++) {
    if (ranks1[i] == MPI_PROC_NULL) {
      ranks2[i] = MPI_PROC_NULL;
    }
    else if (ranks1[i] < 0 || ranks1[i] >= n1) {
      return sim_error (MPI_ERR_RANK,
                        "MPI_Group_translate_ranks: invalid rank %d",
                        ranks1[i]);
    }
    else {
      int                 j = in_list (m1[ranks1[i]], n2, m2);
      ranks2[i] = j < 0 ? MPI_UNDEFINED : j;
    }
  }
  return MPI_SUCCESS;
}

int
MPI_Group_compare (MPI_Group group1, MPI_Group group2, int *result)
{
  int                 n1, n2, i, same = 1;
  const int          *m1, *m2;

  IN_RUN ("MPI_Group_compare");
  if (!group_members (group1, &n1, &m1) || !group_members (group2, &n2, &m2)) {
    return sim_error (MPI_ERR_GROUP, "MPI_Group_compare: invalid group");
  }
  if (n1 != n2) {
    *result = MPI_UNEQUAL;
    return MPI_SUCCESS;
  }
  for (i = 0; i < n1; i++) {
    if (m1[i] != m2[i]) {
      same = 0;
    }
    if (in_list (m1[i], n2, m2) < 0) {
      *result = MPI_UNEQUAL;
      return MPI_SUCCESS;
    }
  }
  *result = same ? MPI_IDENT : MPI_SIMILAR;
  return MPI_SUCCESS;
}

/* mode 0 union, 1 intersection, 2 difference */
static int
group_setop (const char *fname, MPI_Group g1, MPI_Group g2, int mode,
             MPI_Group * out)
{
  int                 n1, n2, i, k = 0;
  const int          *m1, *m2;
  int                *r;

  IN_RUN (fname);
  if (!group_members (g1, &n1, &m1) || !group_members (g2, &n2, &m2)) {
    return sim_error (MPI_ERR_GROUP, "%s: invalid group", fname);
  }
  r = (int *) xmalloc (((size_t) n1 + (size_t) n2 + 1) * sizeof (int));
  for (i = 0; i < n1; i++) {
    int                 in2 = in_list (m1[i], n2, m2) >= 0;
    if (mode == 0 || (mode == 1 && in2) || (mode == 2 && !in2)) {
      r[k++] = m1[i];
    }
  }
  if (mode == 0) {
    for (i = 0; i < n2; i++) {
      if (in_list (m2[i], n1, m1) < 0) {
        r[k++] = m2[i];
      }
    }
  }
  *out = group_new (k, r);
  free (r);
  return MPI_SUCCESS;
}

int
MPI_Group_union (MPI_Group g1, MPI_Group g2, MPI_Group * newgroup)
{
  return group_setop ("MPI_Group_union", g1, g2, 0, newgroup);
}

int
MPI_Group_intersection (MPI_Group g1, MPI_Group g2, MPI_Group * newgroup)
{
  return group_setop ("MPI_Group_intersection", g1, g2, 1, newgroup);
}

int
MPI_Group_difference (MPI_Group g1, MPI_Group g2, MPI_Group * newgroup)
{
  return group_setop ("MPI_Group_difference", g1, g2, 2, newgroup);
}

/* build a new group from a list of ranks of group (incl) or its complement */
static int
group_select (const char *fname, MPI_Group group, int nr, const int *ranks,
              int excl, MPI_Group * out)
{
  int                 n, i, k = 0;
  const int          *m;
  int                *r;

  if (!group_members (group, &n, &m)) {
    return sim_error (MPI_ERR_GROUP, "%s: invalid group", fname);
  }
  for (i = 0; i < nr; i++) {
    if (ranks[i] < 0 || ranks[i] >= n) {
      return sim_error (MPI_ERR_RANK, "%s: invalid rank %d", fname, ranks[i]);
    }
  }
  r = (int *) xmalloc (((size_t) n + (size_t) nr + 1) * sizeof (int));
  if (!excl) {
    for (i = 0; i < nr; i++) {
      r[k++] = m[ranks[i]];
    }
  }
  else {
    for (i = 0; i < n; i++) {
      if (in_list (i, nr, ranks) < 0) {
        r[k++] = m[i];
      }
    }
  }
  *out = group_new (k, r);
  free (r);
  return MPI_SUCCESS;
}

int
MPI_Group_incl (MPI_Group group, int n, const int ranks[],
                MPI_Group * newgroup)
{
  IN_RUN ("MPI_Group_incl");
  return group_select ("MPI_Group_incl", group, n, ranks, 0, newgroup);
}

int
MPI_Group_excl (MPI_Group group, int n, const int ranks[],
                MPI_Group * newgroup)
{
  IN_RUN ("MPI_Group_excl");
  return group_select ("MPI_Group_excl", group, n, ranks, 1, newgroup);
}

static int
group_ranges (const char *fname, MPI_Group group, int n, int ranges[][3],
              int excl, MPI_Group * newgroup)
{
  int                 i, k = 0, cap = 16, rc;
  int                *list = (int *) xmalloc ((size_t) cap * sizeof (int));

  for (i = 0; i < n; i++) {
    int                 a = ranges[i][0], b = ranges[i][1], s = ranges[i][2];
    int                 x;
    if (s == 0) {
      free (list);
      return sim_error (MPI_ERR_ARG, "%s: zero stride", fname);
    }
    for (x = a; s > 0 ? x <= b : x >= b; x += s) {
      if (k == cap) {
        cap *= 2;
        list = (int *) xrealloc (list, (size_t) cap * sizeof (int));
      }
      list[k++] = x;
    }
  }
  rc = group_select (fname, group, k, list, excl, newgroup);
  free (list);
  return rc;
}

int
MPI_Group_range_incl (MPI_Group group, int n, int ranges[][3],
                      MPI_Group * newgroup)
{
  IN_RUN ("MPI_Group_range_incl");
  return group_ranges ("MPI_Group_range_incl", group, n, ranges, 0, newgroup);
}

int
MPI_Group_range_excl (MPI_Group group, int n, int ranges[][3],
                      MPI_Group * newgroup)
{
  IN_RUN ("MPI_Group_range_excl");
  return group_ranges ("MPI_Group_range_excl", group, n, ranges, 1, newgroup);
}

/* ---------------------------------------------------------- datatype calls */

int
MPI_Type_contiguous (int count, MPI_Datatype oldtype, MPI_Datatype * newtype)
{
  sim_dtype          *o, *d;

  IN_RUN ("MPI_Type_contiguous");
  o = dt_get (oldtype);
  if (o == NULL || newtype == NULL || count < 0) {
    return sim_error (MPI_ERR_TYPE, "MPI_Type_contiguous: invalid argument");
  }
  d = (sim_dtype *) xcalloc (1, sizeof (sim_dtype));
  if (S.ndts == S.capdts) {
    S.capdts = S.capdts ? 2 * S.capdts : 16;
    S.dts = (sim_dtype **) xrealloc (S.dts, S.capdts * sizeof (sim_dtype *));
  }
  d->handle = (int) (HK_DTYPE | (unsigned) (256 + S.ndts));
  S.dts[S.ndts++] = d;
  snprintf (d->name, sizeof (d->name), "contig(%dx%.20s)", count, o->name);
  d->size = (size_t) count *o->size;
  d->extent = (size_t) count *o->extent;
  d->kind = o->kind;
  d->bsize = o->bsize;
  d->bextent = o->bextent;
  d->nbase = (size_t) count *o->nbase;
  d->owner = S.cur->world;
  d->alive = 1;
  *newtype = d->handle;
  return MPI_SUCCESS;
}

int
MPI_Type_commit (MPI_Datatype * datatype)
{
  IN_RUN ("MPI_Type_commit");
  if (datatype == NULL || dt_get (*datatype) == NULL) {
    return sim_error (MPI_ERR_TYPE, "MPI_Type_commit: invalid datatype");
  }
  return MPI_SUCCESS;
}

int
MPI_Type_free (MPI_Datatype * datatype)
{
  sim_dtype          *d;

  IN_RUN ("MPI_Type_free");
  if (datatype == NULL || (d = dt_get (*datatype)) == NULL || d->owner < 0) {
    return sim_error (MPI_ERR_TYPE,
                      "MPI_Type_free: invalid or predefined datatype");
  }
  d->alive = 0;
  *datatype = MPI_DATATYPE_NULL;
  return MPI_SUCCESS;
}

int
MPI_Type_size (MPI_Datatype datatype, int *size)
{
  sim_dtype          *d;

  predt_setup ();
  d = dt_get (datatype);
  if (d == NULL || size == NULL) {
    return S.active && S.cur != NULL ?
      sim_error (MPI_ERR_TYPE, "MPI_Type_size: invalid datatype 0x%x",
                 (unsigned) datatype) : MPI_ERR_TYPE;
  }
  *size = (int) d->size;
  return MPI_SUCCESS;
}

int
MPI_Type_get_extent (MPI_Datatype datatype, MPI_Aint * lb, MPI_Aint * extent)
{
  sim_dtype          *d;

  predt_setup ();
  d = dt_get (datatype);
  if (d == NULL) {
    return MPI_ERR_TYPE;
  }
  if (lb != NULL) {
    *lb = 0;
  }
  if (extent != NULL) {
    *extent = (MPI_Aint) d->extent;
  }
  return MPI_SUCCESS;
}

int
MPI_Pack_size (int incount, MPI_Datatype datatype, MPI_Comm comm, int *size)
{
  sim_dtype          *d;

  (void) comm;
  predt_setup ();
  d = dt_get (datatype);
  if (d == NULL || incount < 0 || size == NULL) {
    return MPI_ERR_ARG;
  }
  *size = (int) ((size_t) incount * d->size);
  return MPI_SUCCESS;
}

int
MPI_Pack (const void *inbuf, int incount, MPI_Datatype datatype, void *outbuf,
          int outsize, int *position, MPI_Comm comm)
{
  sim_dtype          *d;
  size_t              nb;

  (void) comm;
  predt_setup ();
  d = dt_get (datatype);
  if (d == NULL || incount < 0 || position == NULL || *position < 0) {
    return MPI_ERR_ARG;
  }
  nb = (size_t) incount *d->size;
  if ((size_t) *position + nb > (size_t) outsize) {
    return S.active && S.cur != NULL ?
      sim_error (MPI_ERR_TRUNCATE, "MPI_Pack: output buffer too small") :
      MPI_ERR_TRUNCATE;
  }
  dt_pack ((unsigned char *) outbuf + *position, inbuf, d, (size_t) incount);
  *position += (int) nb;
  return MPI_SUCCESS;
}

int
MPI_Unpack (const void *inbuf, int insize, int *position, void *outbuf,
            int outcount, MPI_Datatype datatype, MPI_Comm comm)
{
  sim_dtype          *d;
  size_t              nb;

  (void) comm;
  predt_setup ();
  d = dt_get (datatype);
  if (d == NULL || outcount < 0 || position == NULL || *position < 0) {
    return MPI_ERR_ARG;
  }
  nb = (size_t) outcount *d->size;
  if ((size_t) *position + nb > (size_t) insize) {
    return S.active && S.cur != NULL ?
      sim_error (MPI_ERR_TRUNCATE, "MPI_Unpack: input buffer too small") :
      MPI_ERR_TRUNCATE;
  }
  dt_unpack (outbuf, (const unsigned char *) inbuf + *position, d, nb);
  *position += (int) nb;
  return MPI_SUCCESS;
}

/* ------------------------------------------------------------ environment */

int
MPI_Init (int *argc, char ***argv)
{
  (void) argc;
  (void) argv;
  IN_RUN ("MPI_Init");
  return MPI_SUCCESS;
}

int
MPI_Init_thread (int *argc, char ***argv, int required, int *provided)
{
  (void) argc;
  (void) argv;
  (void) required;
  IN_RUN ("MPI_Init_thread");
  if (provided != NULL) {
    *provided = MPI_THREAD_SINGLE;
  }
  return MPI_SUCCESS;
}

int
MPI_Initialized (int *flag)
{
  *flag = S.active && S.cur != NULL;
  return MPI_SUCCESS;
}

int
MPI_Finalize (void)
{
  IN_RUN ("MPI_Finalize");
  yield_step ("MPI_Finalize");
  if (tr_begin ("MPI_Finalize", NULL)) {
    tr_end ();
  }
  S.cur->finalized = 1;
  return MPI_SUCCESS;
}

int
MPI_Finalized (int *flag)
{
  *flag = S.active && S.cur != NULL && S.cur->finalized;
  return MPI_SUCCESS;
}

int
MPI_Abort (MPI_Comm comm, int errorcode)
{
  (void) comm;
  if (!S.active || S.cur == NULL) {
    fprintf (stderr, "simmpi: MPI_Abort (%d) outside of simmpi_run\n",
             errorcode);
    abort ();
  }
  if (tr_begin ("MPI_Abort", NULL)) {
    tr_i ("code", errorcode);
    tr_end ();
  }
  S.abort_rank = S.cur->world;
  S.abort_code = errorcode;
  sim_terminate (SIMMPI_ABORT);
}

void
simmpi_abort_handler (void)
{
  if (!S.active || S.cur == NULL) {
    abort ();
  }
  if (tr_begin ("abort", NULL)) {
    tr_end ();
  }
  S.abort_rank = S.cur->world;
  S.abort_code = -1;
  sim_terminate (SIMMPI_ABORT);
}

int
simmpi_current_rank (void)
{
  return S.active && S.cur != NULL ? S.cur->world : -1;
}

void
simmpi_trace_note (const char *text)
{
  if (S.active && S.cur != NULL && tr_begin ("note", NULL)) {
    sbuf                esc;
    const char         *p;
    memset (&esc, 0, sizeof (esc));
    for (p = text; *p != '\0'; p++) {
      if (*p == '"' || *p == '\\') {
        sb_printf (&esc, "\\%c", *p);
      }
      else if ((unsigned char) *p < 0x20) {
        sb_printf (&esc, "\\u%04x", (unsigned) *p);
      }
      else {
        sb_printf (&esc, "%c", *p);
      }
    }
    tr_s ("text", esc.p != NULL ? esc.p : "");
    sb_free (&esc);
    tr_end ();
  }
}

/* deterministic clock: one microsecond per scheduler step or call */
double
MPI_Wtime (void)
{
  if (!S.active) {
    return 0.;
  }
  S.wticks++;
  return 1e-6 * (double) S.wticks;
}

double
MPI_Wtick (void)
{
  return 1e-6;
}

int
MPI_Get_processor_name (char *name, int *resultlen)
{
  IN_RUN ("MPI_Get_processor_name");
  *resultlen =
    snprintf (name, MPI_MAX_PROCESSOR_NAME, "simnode%d",
              node_of (S.cur->world));
  return MPI_SUCCESS;
}

int
MPI_Get_version (int *version, int *subversion)
{
  *version = MPI_VERSION;
  *subversion = MPI_SUBVERSION;
  return MPI_SUCCESS;
}

int
MPI_Error_class (int errorcode, int *errorclass)
{
  if (errorclass == NULL) {
    return MPI_ERR_ARG;
  }
  *errorclass = errorcode >= 0 && errorcode <= MPI_ERR_RMA_RANGE ?
    errorcode : MPI_ERR_UNKNOWN;
  return MPI_SUCCESS;
}

int
MPI_Error_string (int errorcode, char *string, int *resultlen)
{
  static const struct
  {
    int                 c;
    const char         *s;
  } tab[] = {
    {MPI_SUCCESS, "MPI_SUCCESS: no error"},
    {MPI_ERR_BUFFER, "MPI_ERR_BUFFER: invalid buffer"},
    {MPI_ERR_COUNT, "MPI_ERR_COUNT: invalid count"},
    {MPI_ERR_TYPE, "MPI_ERR_TYPE: invalid datatype"},
    {MPI_ERR_TAG, "MPI_ERR_TAG: invalid tag"},
    {MPI_ERR_COMM, "MPI_ERR_COMM: invalid communicator"},
    {MPI_ERR_RANK, "MPI_ERR_RANK: invalid rank"},
    {MPI_ERR_ROOT, "MPI_ERR_ROOT: invalid root"},
    {MPI_ERR_GROUP, "MPI_ERR_GROUP: invalid group"},
    {MPI_ERR_OP, "MPI_ERR_OP: invalid reduce operation"},
    {MPI_ERR_ARG, "MPI_ERR_ARG: invalid argument"},
    {MPI_ERR_UNKNOWN, "MPI_ERR_UNKNOWN: unknown error"},
    {MPI_ERR_TRUNCATE, "MPI_ERR_TRUNCATE: message truncated"},
    {MPI_ERR_OTHER, "MPI_ERR_OTHER: known error not in list"},
    {MPI_ERR_INTERN, "MPI_ERR_INTERN: internal error"},
    {MPI_ERR_IN_STATUS, "MPI_ERR_IN_STATUS: error code in status"},
    {MPI_ERR_PENDING, "MPI_ERR_PENDING: pending request"},
    {MPI_ERR_REQUEST, "MPI_ERR_REQUEST: invalid request"},
    {MPI_ERR_KEYVAL, "MPI_ERR_KEYVAL: invalid keyval"},
    {MPI_ERR_NO_MEM, "MPI_ERR_NO_MEM: out of memory"},
    {MPI_ERR_WIN, "MPI_ERR_WIN: invalid window"},
    {MPI_ERR_BASE, "MPI_ERR_BASE: invalid base"},
    {MPI_ERR_LOCKTYPE, "MPI_ERR_LOCKTYPE: invalid lock type"},
    {MPI_ERR_RMA_SYNC, "MPI_ERR_RMA_SYNC: wrong synchronization of RMA calls"},
    {MPI_ERR_RMA_RANGE, "MPI_ERR_RMA_RANGE: target memory out of range"},
    {MPI_ERR_DISP, "MPI_ERR_DISP: invalid displacement"},
    {MPI_ERR_SIZE, "MPI_ERR_SIZE: invalid size"},
    {MPI_ERR_INFO, "MPI_ERR_INFO: invalid info"}
  };
  size_t              i;
  const char         *s = NULL;

  if (string == NULL || resultlen == NULL) {
    return MPI_ERR_ARG;
  }
  for (i = 0; i < sizeof (tab) / sizeof (tab[0]); i++) {
    if (tab[i].c == errorcode) {
      s = tab[i].s;
    }
  }
  if (s != NULL) {
    *resultlen = snprintf (string, MPI_MAX_ERROR_STRING, "%s", s);
  }
  else {
    *resultlen =
      snprintf (string, MPI_MAX_ERROR_STRING, "simmpi error code %d",
                errorcode);
  }
  return MPI_SUCCESS;
}

int
MPI_Alloc_mem (MPI_Aint size, MPI_Info info, void *baseptr)
{
  void               *p;

  (void) info;
  IN_RUN ("MPI_Alloc_mem");
  if (size < 0 || baseptr == NULL) {
    return sim_error (MPI_ERR_ARG, "MPI_Alloc_mem: invalid argument");
  }
  p = xmalloc ((size_t) size);
  if (S.nallocs == S.capallocs) {
    S.capallocs = S.capallocs ? 2 * S.capallocs : 16;
    S.allocs =
      (sim_alloc *) xrealloc (S.allocs,
                              (size_t) S.capallocs * sizeof (sim_alloc));
  }
  S.allocs[S.nallocs].p = p;
  S.allocs[S.nallocs].n = (size_t) size;
  S.allocs[S.nallocs].owner = S.cur->world;
  S.nallocs++;
  *(void **) baseptr = p;
  return MPI_SUCCESS;
}

int
MPI_Free_mem (void *base)
{
  int                 i;

  IN_RUN ("MPI_Free_mem");
  for (i = S.nallocs - 1; i >= 0; i--) {
    if (S.allocs[i].p == base) {
      free (base);
      S.allocs[i] = S.allocs[--S.nallocs];
      return MPI_SUCCESS;
    }
  }
  return sim_error (MPI_ERR_BASE,
                    "MPI_Free_mem: pointer was not obtained from MPI_Alloc_mem");
}

int
MPI_Info_create (MPI_Info * info)
{
  IN_RUN ("MPI_Info_create");
  if (S.ninfos == S.capinfos) {
    S.capinfos = S.capinfos ? 2 * S.capinfos : 16;
    S.infos = (char *) xrealloc (S.infos, (size_t) S.capinfos);
  }
  S.infos[S.ninfos] = (char) (1 + S.cur->world % 100);
  *info = (MPI_Info) (HK_INFO | (unsigned) (16 + S.ninfos));
  S.ninfos++;
  return MPI_SUCCESS;
}

int
MPI_Info_set (MPI_Info info, const char *key, const char *value)
{
  (void) info;
  (void) key;
  (void) value;
  return MPI_SUCCESS;
}

int
MPI_Info_free (MPI_Info * info)
{
  int                 idx;

  IN_RUN ("MPI_Info_free");
  idx = info != NULL ? H_IDX (*info) - 16 : -1;
  if (info == NULL || ((unsigned) *info & HK_MASK) != HK_INFO || idx < 0
      || idx >= S.ninfos || !S.infos[idx]) {
    return sim_error (MPI_ERR_INFO, "MPI_Info_free: invalid info");
  }
  S.infos[idx] = 0;
  *info = MPI_INFO_NULL;
  return MPI_SUCCESS;
}

int
MPI_Comm_set_errhandler (MPI_Comm comm, MPI_Errhandler errhandler)
{
  (void) comm;
  (void) errhandler;
  return MPI_SUCCESS;           /* errors are always returned */
}

/* ---------------------------------------------------------------- windows */

typedef struct wincontrib
{
  void               *base;
  MPI_Aint            size;
  int                 disp;
}
wincontrib;

/* called by the last rank entering Win_create / Win_allocate_shared */
static sim_win     *
win_new (sim_coll * k, int shared)
{
  sim_comm           *c = k->comm;
  int                 n = c->n, i;
  sim_win            *w = (sim_win *) xcalloc (1, sizeof (sim_win));

  if (S.nwins == S.capwins) {
    S.capwins = S.capwins ? 2 * S.capwins : 16;
    S.wins = (sim_win **) xrealloc (S.wins, S.capwins * sizeof (sim_win *));
  }
  w->idx = S.nwins;
  w->id = S.nwins;
  S.wins[S.nwins++] = w;
  w->comm = c;
  w->icomm = comm_new (n, c->m, c->id, "window", 1, 0);
  w->base = (void **) xcalloc ((size_t) n, sizeof (void *));
  w->size = (MPI_Aint *) xcalloc ((size_t) n, sizeof (MPI_Aint));
  w->disp = (int *) xcalloc ((size_t) n, sizeof (int));
  w->freed = (char *) xcalloc ((size_t) n, 1);
  w->nshared = (int *) xcalloc ((size_t) n, sizeof (int));
  w->excl = (int *) xmalloc ((size_t) n * sizeof (int));
  w->held = (char *) xcalloc ((size_t) n * (size_t) n, 1);
  w->shared = shared;
  for (i = 0; i < n; i++) {
    const wincontrib   *wc = (const wincontrib *) k->contrib[i];
    w->base[i] = wc->base;
    w->size[i] = wc->size;
    w->disp[i] = wc->disp;
    w->excl[i] = -1;
  }
  if (shared) {
    /* one block, the segments of the ranks follow each other (16-aligned) */
    size_t              total = 0;
    for (i = 0; i < n; i++) {
      total += ((size_t) w->size[i] + 15) & ~(size_t) 15;
    }
    w->shmem = xmalloc (total + 16);
    memset (w->shmem, 0xcb, total + 16);
    total = 0;
    for (i = 0; i < n; i++) {
      w->base[i] = (char *) w->shmem + total;
      total += ((size_t) w->size[i] + 15) & ~(size_t) 15;
    }
  }
  return w;
}

static void
win_destroy (sim_win * w)
{
  free (w->base);
  free (w->size);
  free (w->disp);
  free (w->freed);
  free (w->nshared);
  free (w->excl);
  free (w->held);
  free (w->shmem);
  free (w);
}

static int
do_win_create (const char *fname, int shared, void *base, MPI_Aint size,
               int disp_unit, MPI_Comm comm, void *baseptr, MPI_Win * win)
{
  int                 cr = 0;
  sim_comm           *c;
  sim_coll           *k;
  sim_win            *w;
  wincontrib          wc;

  IN_RUN (fname);
  if ((c = comm_get (comm, &cr, fname)) == NULL) {
    return MPI_ERR_COMM;
  }
  if (size < 0 || disp_unit <= 0 || win == NULL) {
    return sim_error (MPI_ERR_ARG, "%s: invalid size or displacement unit",
                      fname);
  }
  wc.base = base;
  wc.size = size;
  wc.disp = disp_unit;
  k = coll_begin (c, cr, shared ? CK_WINSHARED : CK_WINCREATE, -1, fname, &wc,
                  sizeof (wc), -1, 0);
  coll_wait (k, cr, N_ALL, 0);
  w = k->win;
  coll_leave (k);
  *win = (MPI_Win) (HK_WIN | (unsigned) w->idx);
  if (shared && baseptr != NULL) {
    *(void **) baseptr = w->base[cr];
  }
  if (tr_begin (fname, c)) {
    tr_i ("win", w->id);
    tr_i ("size", (long) size);
    tr_i ("disp", disp_unit);
    tr_end ();
  }
  return MPI_SUCCESS;
}

int
MPI_Win_create (void *base, MPI_Aint size, int disp_unit, MPI_Info info,
                MPI_Comm comm, MPI_Win * win)
{
  (void) info;
  return do_win_create ("MPI_Win_create", 0, base, size, disp_unit, comm,
                        NULL, win);
}

int
MPI_Win_allocate_shared (MPI_Aint size, int disp_unit, MPI_Info info,
                         MPI_Comm comm, void *baseptr, MPI_Win * win)
{
  (void) info;
  return do_win_create ("MPI_Win_allocate_shared", 1, NULL, size, disp_unit,
                        comm, baseptr, win);
}

int
MPI_Win_shared_query (MPI_Win win, int rank, MPI_Aint * size, int *disp_unit,
                      void *baseptr)
{
  static const char  *fname = "MPI_Win_shared_query";
  int                 cr = 0, i;
  sim_win            *w;

  IN_RUN (fname);
  if ((w = win_get (win, &cr, fname)) == NULL) {
    return MPI_ERR_WIN;
  }
  if (!w->shared) {
    return sim_error (MPI_ERR_WIN, "%s: window %d is not shared", fname,
                      w->id);
  }
  if (rank == MPI_PROC_NULL) {
    rank = 0;
    for (i = 0; i < w->icomm->n; i++) {
      if (w->size[i] > 0) {
        rank = i;
        break;
      }
    }
  }
  if (rank < 0 || rank >= w->icomm->n) {
    return sim_error (MPI_ERR_RANK, "%s: invalid rank %d", fname, rank);
  }
  *size = w->size[rank];
  *disp_unit = w->disp[rank];
  *(void **) baseptr = w->base[rank];
  if (S.o.trace_local && tr_begin (fname, w->comm)) {
    tr_i ("win", w->id);
    tr_i ("rank", rank);
    tr_i ("size", (long) w->size[rank]);
    tr_end ();
  }
  return MPI_SUCCESS;
}

int
MPI_Win_fence (int assert, MPI_Win win)
{
  static const char  *fname = "MPI_Win_fence";
  int                 cr = 0;
  sim_win            *w;
  sim_coll           *k;

  IN_RUN (fname);
  if ((w = win_get (win, &cr, fname)) == NULL) {
    return MPI_ERR_WIN;
  }
  k = coll_begin (w->icomm, cr, CK_WINFENCE, -1, fname, NULL, 0, -1, 0);
  coll_wait (k, cr, N_ALL, 0);
  coll_leave (k);
  if (tr_begin (fname, w->comm)) {
    tr_i ("win", w->id);
    tr_i ("assert", assert);
    tr_end ();
  }
  return MPI_SUCCESS;
}

int
MPI_Win_free (MPI_Win * win)
{
  static const char  *fname = "MPI_Win_free";
  int                 cr = 0, i;
  sim_win            *w;
  sim_coll           *k;

  IN_RUN (fname);
  if (win == NULL) {
    return MPI_ERR_ARG;
  }
  if ((w = win_get (*win, &cr, fname)) == NULL) {
    return MPI_ERR_WIN;
  }
  for (i = 0; i < w->icomm->n; i++) {
    if (w->held[(size_t) cr * (size_t) w->icomm->n + (size_t) i]) {
      sim_warn ("%s: window %d freed while holding a lock on rank %d", fname,
                w->id, i);
    }
  }
  k = coll_begin (w->icomm, cr, CK_WINFREE, -1, fname, NULL, 0, -1, 0);
  coll_wait (k, cr, N_ALL, 0);
  coll_leave (k);
  w->freed[cr] = 1;
  w->nfreed++;
  if (tr_begin (fname, w->comm)) {
    tr_i ("win", w->id);
    tr_end ();
  }
  if (w->nfreed == w->icomm->n && w->shmem != NULL) {
    free (w->shmem);
    w->shmem = NULL;
  }
  *win = MPI_WIN_NULL;
  return MPI_SUCCESS;
}

static int
lock_free_for (sim_win * w, int target, int type, int origin)
{
  if (w->excl[target] >= 0 && w->excl[target] != origin) {
    return 0;
  }
  if (type == MPI_LOCK_EXCLUSIVE && w->nshared[target] > 0) {
    return 0;
  }
  return 1;
}

int
MPI_Win_lock (int lock_type, int rank, int assert, MPI_Win win)
{
  static const char  *fname = "MPI_Win_lock";
  int                 cr = 0, n;
  sim_win            *w;
  sim_op              op;

  IN_RUN (fname);
  if ((w = win_get (win, &cr, fname)) == NULL) {
    return MPI_ERR_WIN;
  }
  n = w->icomm->n;
  if (lock_type != MPI_LOCK_EXCLUSIVE && lock_type != MPI_LOCK_SHARED) {
    return sim_error (MPI_ERR_LOCKTYPE, "%s: invalid lock type %d", fname,
                      lock_type);
  }
  if (rank < 0 || rank >= n) {
    return sim_error (MPI_ERR_RANK, "%s: invalid rank %d", fname, rank);
  }
  if (w->held[(size_t) cr * (size_t) n + (size_t) rank]) {
    return sim_error (MPI_ERR_RMA_SYNC,
                      "%s: rank already holds a lock on rank %d of window %d",
                      fname, rank, w->id);
  }
  memset (&op, 0, sizeof (op));
  op.kind = (assert & MPI_MODE_NOCHECK) ? OP_STEP : OP_WINLOCK;
  op.fname = fname;
  op.comm = w->comm;
  op.crank = cr;
  op.win = w;
  op.target = rank;
  op.locktype = lock_type;
  yield_op (&op);
  touch_all (w->icomm);         /* others waiting for this lock become disabled */
  if ((assert & MPI_MODE_NOCHECK) && !lock_free_for (w, rank, lock_type, cr)) {
    sim_warn
      ("%s: MPI_MODE_NOCHECK asserted on window %d target %d but a conflicting lock is held (exclusive holder %d, shared holders %d)",
       fname, w->id, rank, w->excl[rank], w->nshared[rank]);
  }
  if (lock_type == MPI_LOCK_EXCLUSIVE) {
    w->excl[rank] = cr;
    w->held[(size_t) cr * (size_t) n + (size_t) rank] = 2;
  }
  else {
    w->nshared[rank]++;
    w->held[(size_t) cr * (size_t) n + (size_t) rank] = 1;
  }
  if (tr_begin (fname, w->comm)) {
    tr_i ("win", w->id);
    tr_s ("type", lock_type == MPI_LOCK_EXCLUSIVE ? "exclusive" : "shared");
    tr_i ("target", rank);
    tr_i ("assert", assert);
    tr_end ();
  }
  return MPI_SUCCESS;
}

int
MPI_Win_unlock (int rank, MPI_Win win)
{
  static const char  *fname = "MPI_Win_unlock";
  int                 cr = 0, n;
  sim_win            *w;
  char               *h;

  IN_RUN (fname);
  if ((w = win_get (win, &cr, fname)) == NULL) {
    return MPI_ERR_WIN;
  }
  n = w->icomm->n;
  if (rank < 0 || rank >= n) {
    return sim_error (MPI_ERR_RANK, "%s: invalid rank %d", fname, rank);
  }
  h = &w->held[(size_t) cr * (size_t) n + (size_t) rank];
  if (!*h) {
    return sim_error (MPI_ERR_RMA_SYNC,
                      "%s: no lock held on rank %d of window %d", fname, rank,
                      w->id);
  }
  yield_step (fname);
  touch_all (w->icomm);
  if (*h == 2) {
    if (w->excl[rank] == cr) {
      w->excl[rank] = -1;
    }
  }
  else {
    w->nshared[rank]--;
  }
  *h = 0;
  if (tr_begin (fname, w->comm)) {
    tr_i ("win", w->id);
    tr_i ("target", rank);
    tr_end ();
  }
  return MPI_SUCCESS;
}

/* mode 0 accumulate, 1 put, 2 get */
static int
do_rma (const char *fname, int mode, void *origin, int ocount,
        MPI_Datatype odth, int target, MPI_Aint tdisp, int tcount,
        MPI_Datatype tdth, MPI_Op op, MPI_Win win)
{
  int                 cr = 0, pre = 0, ok;
  sim_win            *w;
  sim_dtype          *odt, *tdt;
  sim_opx            *ux = NULL;
  size_t              nb;
  char               *taddr;

  IN_RUN (fname);
  if ((w = win_get (win, &cr, fname)) == NULL) {
    return MPI_ERR_WIN;
  }
  odt = dt_get (odth);
  tdt = dt_get (tdth);
  if (odt == NULL || tdt == NULL || ocount < 0 || tcount < 0) {
    return sim_error (MPI_ERR_TYPE, "%s: invalid datatype or count", fname);
  }
  if (target == MPI_PROC_NULL) {
    return MPI_SUCCESS;
  }
  if (target < 0 || target >= w->icomm->n) {
    return sim_error (MPI_ERR_RANK, "%s: invalid target rank %d", fname,
                      target);
  }
  nb = (size_t) ocount *odt->size;
  if (nb != (size_t) tcount * tdt->size || odt->kind != tdt->kind
      || odt->bsize != odt->bextent || tdt->bsize != tdt->bextent) {
    return sim_error (MPI_ERR_TYPE,
                      "%s: origin and target type signatures differ (or padded types)",
                      fname);
  }
  if (mode == 0) {
    ok = op_get (op, &pre, &ux);
    if (ok != 0) {
      return sim_error (MPI_ERR_OP, "%s: only predefined operations allowed",
                        fname);
    }
  }
  if (tdisp < 0
      || (size_t) tdisp * (size_t) w->disp[target] + nb >
      (size_t) w->size[target]) {
    return sim_error (MPI_ERR_RMA_RANGE,
                      "%s: displacement %ld (+%zu bytes) outside of the window of rank %d (%ld bytes)",
                      fname, (long) tdisp, nb, target,
                      (long) w->size[target]);
  }
  yield_step (fname);
  if (w->freed[target]) {
    return sim_error (MPI_ERR_WIN, "%s: target %d has freed the window",
                      fname, target);
  }
  taddr = (char *) w->base[target] + (size_t) tdisp *(size_t) w->disp[target];
  /* applied at once: one legal order of the accesses of this epoch */
  if (mode == 0) {
    int                 e =
      apply_builtin (pre, tdt, origin, taddr, (size_t) tcount);
    if (e != MPI_SUCCESS) {
      return sim_error (e, "%s: operation not defined for datatype %s", fname,
                        tdt->name);
    }
  }
  else if (mode == 1) {
    memcpy (taddr, origin, nb);
  }
  else {
    memcpy (origin, taddr, nb);
  }
  if (tr_begin (fname, w->comm)) {
    tr_i ("win", w->id);
    tr_i ("target", target);
    tr_i ("disp", (long) tdisp);
    if (mode == 0) {
      char                on[64];
      op_name (op, on, sizeof (on));
      tr_s ("op", on);
    }
    tr_s ("dt", tdt->name);
    tr_i ("count", tcount);
    tr_data ("d", origin, nb);
    tr_end ();
  }
  return MPI_SUCCESS;
}

int
MPI_Accumulate (const void *origin_addr, int origin_count,
                MPI_Datatype origin_datatype, int target_rank,
                MPI_Aint target_disp, int target_count,
                MPI_Datatype target_datatype, MPI_Op op, MPI_Win win)
{
  return do_rma ("MPI_Accumulate", 0, (void *) origin_addr, origin_count,
                 origin_datatype, target_rank, target_disp, target_count,
                 target_datatype, op, win);
}

int
MPI_Put (const void *origin_addr, int origin_count,
         MPI_Datatype origin_datatype, int target_rank, MPI_Aint target_disp,
         int target_count, MPI_Datatype target_datatype, MPI_Win win)
{
  return do_rma ("MPI_Put", 1, (void *) origin_addr, origin_count,
                 origin_datatype, target_rank, target_disp, target_count,
                 target_datatype, MPI_OP_NULL, win);
}

int
MPI_Get (void *origin_addr, int origin_count, MPI_Datatype origin_datatype,
         int target_rank, MPI_Aint target_disp, int target_count,
         MPI_Datatype target_datatype, MPI_Win win)
{
  return do_rma ("MPI_Get", 2, origin_addr, origin_count, origin_datatype,
                 target_rank, target_disp, target_count, target_datatype,
                 MPI_OP_NULL, win);
}

/* -------------------------------------------------------------- scheduler */

static int
classify (sim_rank * r)
{
  sim_op             *op = r->op;

  switch (op->kind) {
  case OP_STEP:
    return CL_PROD;
  case OP_RECV:
  case OP_PROBE:
    return have_candidate (op->comm, op->crank, op->src,
                           op->tag) ? CL_PROD : CL_DISABLED;
  case OP_IPROBE:
    return have_candidate (op->comm, op->crank, op->src,
                           op->tag) ? CL_PROD : CL_UPOLL;
  case OP_WAIT:
    return wait_ready (op->nreq, op->reqs, op->wmode) ? CL_PROD : CL_DISABLED;
  case OP_TEST:
    return wait_ready (op->nreq, op->reqs, op->wmode) ? CL_PROD : CL_UPOLL;
  case OP_COLL:
    return coll_sat (op->coll, op->need, op->upto) ? CL_PROD : CL_DISABLED;
  case OP_SENDWAIT:
    return op->req->complete ? CL_PROD : CL_DISABLED;
  case OP_WINLOCK:
    return lock_free_for (op->win, op->target, op->locktype,
                          op->crank) ? CL_PROD : CL_DISABLED;
  default:
    return CL_DISABLED;
  }
}

static void
describe_op (sbuf * b, sim_rank * r)
{
  sim_op             *op = r->op;
  int                 i;

  if (r->state == RS_DONE) {
    sb_puts (b, "finished");
    return;
  }
  if (op == NULL) {
    sb_puts (b, "running");
    return;
  }
  switch (op->kind) {
  case OP_STEP:
    sb_printf (b, "about to execute %s", op->fname);
    break;
  case OP_RECV:
  case OP_PROBE:
  case OP_IPROBE:
    sb_printf (b, "%s (source=%d, tag=%d, comm=%d): no matching message",
               op->fname, op->src, op->tag, op->comm->id);
    break;
  case OP_SENDWAIT:
    sb_printf (b,
               "%s (dest=%d, tag=%d, comm=%d, %zu bytes, %s): not matched by a receive",
               op->fname, op->src, op->tag, op->comm->id, op->req->nbytes,
               modenames[op->req->mode]);
    break;
  case OP_WAIT:
  case OP_TEST:
    sb_printf (b, "%s on %d request(s):", op->fname, op->nreq);
    for (i = 0; i < op->nreq; i++) {
      sim_req            *q =
        op->reqs[i] != MPI_REQUEST_NULL ? req_get (op->reqs[i]) : NULL;
      if (q == NULL) {
        continue;
      }
      if (q->complete) {
        sb_printf (b, " [%d: #%ld complete]", i, q->rseq);
      }
      else if (q->kind == RK_RECV) {
        sb_printf (b, " [%d: #%ld Irecv source=%d tag=%d comm=%d unmatched]",
                   i, q->rseq, q->src, q->tag, q->comm->id);
      }
      else if (q->kind == RK_SEND) {
        sb_printf (b,
                   " [%d: #%ld %s send dest=%d tag=%d comm=%d %zu bytes unmatched]",
                   i, q->rseq, modenames[q->mode], q->dest, q->stag,
                   q->comm->id, q->nbytes);
      }
      else {
        sb_printf (b, " [%d: #%ld Ibarrier comm=%d, %d of %d entered]", i,
                   q->rseq, q->comm->id, q->coll->nentered, q->comm->n);
      }
    }
    break;
  case OP_COLL:
    sb_printf (b, "%s on comm %d (collective #%ld): %d of %d ranks entered;",
               op->fname, op->comm->id, op->coll->seq, op->coll->nentered,
               op->comm->n);
    sb_puts (b, " missing world ranks");
    for (i = 0; i < op->comm->n; i++) {
      if (!op->coll->entered[i]) {
        sb_printf (b, " %d", op->comm->m[i]);
      }
    }
    break;
  case OP_WINLOCK:
    sb_printf (b, "%s (%s, target=%d, window %d): lock is held", op->fname,
               op->locktype == MPI_LOCK_EXCLUSIVE ? "exclusive" : "shared",
               op->target, op->win->id);
    break;
  default:
    sb_puts (b, "?");
  }
}

/* returns the terminal code of the scheduling phase */
static int
schedule (sbuf * rep)
{
  int                 P = S.P, i;
  sim_rank          **cand = (sim_rank **) xmalloc ((size_t) P * sizeof (*cand));
  sim_rank          **park = (sim_rank **) xmalloc ((size_t) P * sizeof (*park));
  int                *vals = (int *) xcalloc ((size_t) P, sizeof (int));
  int                 code = SIMMPI_OK;
  int                 budget = S.o.poll_budget > 0 ? S.o.poll_budget : 4;
  int                 lpolls = S.o.livelock_polls > 0 ? S.o.livelock_polls : 64;
  long                maxsteps = S.o.max_steps > 0 ? S.o.max_steps : 20000000L;

  /* decided for every adversary so that a decision log replays under any */
  S.victim = decide ("victim", P, -1);
  for (;;) {
    int                 nc = 0, np = 0, nblocked = 0, v, forced = -1;
    sim_rank           *r;

    if (S.nfinished == P) {
      break;
    }
    for (i = 0; i < P; i++) {
      r = &S.ranks[i];
      if (r->state != RS_READY) {
        continue;
      }
      if (r->dirty) {
        r->cl = classify (r);
        r->dirty = 0;
      }
#ifdef SIMMPI_PARANOID
      else if (r->cl != classify (r)) {
        fprintf (stderr, "simmpi: stale classification of rank %d (%s)\n",
                 r->world, r->op->fname);
        abort ();
      }
#endif
      if (r->cl == CL_PROD) {
        cand[nc++] = r;
      }
      else if (r->cl == CL_UPOLL) {
        if (r->upolls < budget) {
          cand[nc++] = r;
        }
        else {
          park[np++] = r;
        }
      }
      else {
        nblocked++;
      }
    }
    if (nc == 0) {
      if (np == 0) {
        code = SIMMPI_DEADLOCK;
        sb_printf (rep,
                   "[DEADLOCK] no rank can move at step %ld, %d of %d ranks finished\n",
                   S.steps, S.nfinished, P);
        break;
      }
      /* nothing productive is possible anywhere: the pools are frozen and
       * only polls that cannot succeed remain; let them spin a while to see
       * whether the pollers give up by themselves */
      for (i = 0; i < np; i++) {
        if (park[i]->upolls < lpolls) {
          cand[nc++] = park[i];
        }
      }
      if (nc == 0) {
        code = SIMMPI_LIVELOCK;
        sb_printf (rep,
                   "[LIVELOCK] at step %ld only polls that cannot succeed remain possible (%d polling, %d blocked, %d finished): each polling rank has repeated them %d times since the last change of state\n",
                   S.steps, np, nblocked, S.nfinished, lpolls);
        break;
      }
    }
    if (++S.steps > maxsteps) {
      code = SIMMPI_MAXSTEPS;
      sb_printf (rep, "[MAXSTEPS] step guard of %ld steps exceeded\n",
                 maxsteps);
      break;
    }
    /* (a) who moves: candidates are in rank order */
    switch (S.o.adversary) {
    case SIMMPI_ADV_LOWFIRST:
      forced = 0;
      break;
    case SIMMPI_ADV_HIGHFIRST:
      forced = nc - 1;
      break;
    case SIMMPI_ADV_STARVE:
      if (nc > 1) {
        /* choose among the others */
        int                 vi = -1;
        for (i = 0; i < nc; i++) {
          if (cand[i]->world == S.victim) {
            vi = i;
          }
        }
        if (vi >= 0) {
          int                 w = (int) (prng_next () % (u64) (nc - 1));
          forced = w >= vi ? w + 1 : w;
        }
      }
      break;
    default:
      break;
    }
    if (S.dlog != NULL && nc > 1) {
      for (i = 0; i < nc; i++) {
        vals[i] = cand[i]->world;
      }
    }
    v = decide_v ("run", nc, forced, vals);
    r = cand[v];
    if (r->cl == CL_UPOLL) {
      r->upolls++;
    }
    else {
      r->upolls = 0;
      S.epoch++;
    }
    S.wticks++;
    r->dirty = 1;
    switch_to_rank (r);
    if (S.term) {
      code = S.term;
      break;
    }
  }
  free (cand);
  free (park);
  free (vals);
  return code;
}

/* ------------------------------------------------------------ run, report */

static const char  *code_names[] =
  { "OK", "DEADLOCK", "LIVELOCK", "MAXSTEPS", "ABORT", "LEFTOVER", "ERROR",
  "REPLAY_DIVERGED", "LEAK", "BADOPTS"
};

const char         *
simmpi_code_name (int code)
{
  return code >= 0 && code <= SIMMPI_BADOPTS ? code_names[code] : "?";
}

void
simmpi_opts_default (simmpi_opts * o)
{
  memset (o, 0, sizeof (*o));
  o->nranks = 1;
  o->max_denials = -1;
  o->eager_limit = -1;
}

void
simmpi_report_free (simmpi_report * rep)
{
  if (rep != NULL) {
    free (rep->text);
    rep->text = NULL;
  }
}

void
simmpi_reset_keyvals (void)
{
  free (KV);
  KV = NULL;
  nKV = capKV = 0;
}

static struct sigaction old_sigabrt;

static void
on_sigabrt (int sig)
{
  (void) sig;
  if (S.active && S.cur != NULL) {
    S.abort_rank = S.cur->world;
    S.abort_code = 134;
    sb_printf (&S.errors, "[ABORT] rank %d raised SIGABRT (abort () called)\n",
               S.cur->world);
    sim_terminate (SIMMPI_ABORT);
  }
  signal (SIGABRT, SIG_DFL);
  raise (SIGABRT);
}

static int
load_replay (const char *path)
{
  FILE               *f = fopen (path, "r");
  char                line[256];
  long                cap = 0;

  if (f == NULL) {
    return -1;
  }
  while (fgets (line, sizeof (line), f) != NULL) {
    sim_replay          e;
    if (line[0] == '#' || line[0] == '\n') {
      continue;
    }
    memset (&e, 0, sizeof (e));
    if (sscanf (line, "%7s %d %d", e.kind, &e.n, &e.v) != 3) {
      if (strchr (line, '\n') == NULL) {
        break;                  /* cut off last line: the log is too short */
      }
      fclose (f);
      return -1;
    }
    if (S.nreplay == cap) {
      cap = cap ? 2 * cap : 1024;
      S.replay =
        (sim_replay *) xrealloc (S.replay, (size_t) cap * sizeof (sim_replay));
    }
    S.replay[S.nreplay++] = e;
  }
  fclose (f);
  return 0;
}

/* what is left in the pools and tables after all ranks returned (or at the
 * moment the run was stopped) */
static void
end_checks (sbuf * rep, simmpi_report * R, int completed)
{
  int                 i, j;

  for (i = 0; i < S.ncomms + S.P; i++) {
    sim_comm           *c =
      i < S.ncomms ? S.comms[i] : S.selfs[i - S.ncomms];
    sim_coll           *k;
    if (c == NULL) {
      continue;
    }
    for (j = 0; j < c->n; j++) {
      sim_msg            *m;
      sim_req            *q;
      for (m = c->uq_head[j]; m != NULL; m = m->next) {
        R->nleftover_msgs++;
        if (R->nleftover_msgs <= 50) {
          sb_printf (rep,
                     "[LEFTOVER] unreceived message: source=%d dest=%d tag=%d comm=%d bytes=%zu (world ranks %d -> %d)%s\n",
                     m->src, m->dst, m->tag, c->id, m->nbytes, c->m[m->src],
                     c->m[m->dst],
                     m->sreq != NULL ? " [sender still waits]" : "");
        }
      }
      for (q = c->pq_head[j]; q != NULL; q = q->pnext) {
        (void) q;               /* reported with the request table below */
      }
    }
    for (k = c->colls; k != NULL; k = k->next) {
      if (completed || k->nentered < c->n) {
        R->nleftover_colls++;
        sb_printf (rep,
                   "[LEFTOVER] collective %s #%ld on comm %d%s: entered by %d of %d ranks, left by %d; missing world ranks",
                   k->fname, k->seq, c->id, c->internal ? " (window)" : "",
                   k->nentered, c->n, k->nexited);
        for (j = 0; j < c->n; j++) {
          if (!k->entered[j]) {
            sb_printf (rep, " %d", c->m[j]);
          }
        }
        sb_puts (rep, "\n");
      }
    }
  }
  for (i = 0; i < S.nreqs; i++) {
    sim_req            *q = S.reqs[i];
    if (q == NULL || q->rseq < 0) {
      continue;
    }
    R->nleftover_reqs++;
    if (R->nleftover_reqs <= 50) {
      if (q->kind == RK_RECV) {
        sb_printf (rep,
                   "[LEFTOVER] request #%ld of rank %d: Irecv source=%d tag=%d comm=%d capacity=%zu %s\n",
                   q->rseq, q->owner, q->src, q->tag, q->comm->id,
                   (size_t) q->count * q->dt->size,
                   q->complete ? "matched but never completed by Wait/Test" :
                   "never matched");
      }
      else if (q->kind == RK_SEND) {
        sb_printf (rep,
                   "[LEFTOVER] request #%ld of rank %d: %s send dest=%d tag=%d comm=%d bytes=%zu %s\n",
                   q->rseq, q->owner, modenames[q->mode], q->dest, q->stag,
                   q->comm->id, q->nbytes,
                   q->complete ? "never completed by Wait/Test" :
                   "never matched");
      }
      else {
        sb_printf (rep,
                   "[LEFTOVER] request #%ld of rank %d: Ibarrier comm=%d never completed by Wait/Test\n",
                   q->rseq, q->owner, q->comm->id);
      }
    }
  }
  /* leaks */
  for (i = 2; i < S.ncomms; i++) {
    sim_comm           *c = S.comms[i];
    if (c == NULL || c->internal || c->nfreed == c->n) {
      continue;
    }
    R->nleaks++;
    sb_printf (rep,
               "[LEAK] communicator %d (%s of comm %d, size %d) not freed by world ranks",
               c->id, c->how, c->parent_id, c->n);
    for (j = 0; j < c->n; j++) {
      if (!c->freed[j]) {
        sb_printf (rep, " %d", c->m[j]);
      }
    }
    sb_puts (rep, "\n");
  }
  for (i = 0; i < S.nwins; i++) {
    sim_win            *w = S.wins[i];
    if (w->nfreed < w->icomm->n) {
      R->nleaks++;
      sb_printf (rep, "[LEAK] window %d on comm %d freed by %d of %d ranks\n",
                 w->id, w->comm->id, w->nfreed, w->icomm->n);
    }
  }
  for (i = 0; i < nKV; i++) {
    if (KV[i].alive && KV[i].run == sim_run_counter) {
      R->nleaks++;
      sb_printf (rep,
                 "[LEAK] attribute keyval %d created by rank %d not freed (kept for later runs)\n",
                 i, KV[i].owner);
    }
  }
  for (i = 0; i < S.nops; i++) {
    if (S.ops[i]->alive) {
      R->nleaks++;
      sb_printf (rep, "[LEAK] user operation %d created by rank %d not freed\n",
                 i, S.ops[i]->owner);
    }
  }
  for (i = 0; i < S.ndts; i++) {
    if (S.dts[i]->alive) {
      R->nleaks++;
      sb_printf (rep, "[LEAK] datatype %s created by rank %d not freed\n",
                 S.dts[i]->name, S.dts[i]->owner);
    }
  }
  for (i = 0; i < S.ngroups; i++) {
    if (S.groups[i]->alive) {
      R->nleaks++;
      sb_printf (rep, "[LEAK] group of size %d created by rank %d not freed\n",
                 S.groups[i]->n, S.groups[i]->owner);
    }
  }
  for (i = 0; i < S.ninfos; i++) {
    if (S.infos[i]) {
      R->nleaks++;
      sb_printf (rep, "[LEAK] info object %d not freed\n", i);
    }
  }
  for (i = 0; i < S.nallocs; i++) {
    R->nleaks++;
    sb_printf (rep,
               "[LEAK] MPI_Alloc_mem block of %zu bytes of rank %d not freed (released now)\n",
               S.allocs[i].n, S.allocs[i].owner);
  }
}

static void
cleanup (void)
{
  int                 i;

  for (i = 0; i < S.P && S.ranks != NULL; i++) {
    sim_rank           *r = &S.ranks[i];
    if (r->stack_map != NULL) {
      if (__asan_unpoison_memory_region) {
        __asan_unpoison_memory_region (r->stack, r->stack_size);
      }
      munmap (r->stack_map, r->stack_map_size);
    }
    while (r->nheld > 0) {
      free (r->held[--r->nheld]);
    }
    free (r->held);
  }
  free (S.ranks);
  for (i = 0; i < S.nreqs; i++) {
    if (S.reqs[i] != NULL) {
      if (S.reqs[i]->matched != NULL) {
        msg_free (S.reqs[i]->matched);
      }
      if (S.reqs[i]->lmsg != NULL) {
        S.reqs[i]->lmsg->ureq = NULL;
        S.reqs[i]->lmsg = NULL;
      }
      free (S.reqs[i]);
    }
  }
  free (S.reqs);
  for (i = 0; i < S.nwins; i++) {
    win_destroy (S.wins[i]);
  }
  free (S.wins);
  for (i = 0; i < S.ncomms; i++) {
    if (S.comms[i] != NULL) {
      comm_destroy (S.comms[i]);
    }
  }
  free (S.comms);
  for (i = 0; i < S.P && S.selfs != NULL; i++) {
    if (S.selfs[i] != NULL) {
      comm_destroy (S.selfs[i]);
    }
  }
  free (S.selfs);
  for (i = 0; i < S.ndts; i++) {
    free (S.dts[i]);
  }
  free (S.dts);
  for (i = 0; i < S.nops; i++) {
    free (S.ops[i]);
  }
  free (S.ops);
  for (i = 0; i < S.ngroups; i++) {
    free (S.groups[i]->m);
    free (S.groups[i]);
  }
  free (S.groups);
  free (S.infos);
  for (i = 0; i < S.nallocs; i++) {
    free (S.allocs[i].p);
  }
  free (S.allocs);
  free (S.stamp);
  free (S.replay);
  sb_free (&S.line);
  sb_free (&S.errors);
  sb_free (&S.warns);
  if (S.trace != NULL) {
    fclose (S.trace);
  }
  if (S.dlog != NULL) {
    fclose (S.dlog);
  }
  memset (&S, 0, sizeof (S));
}

int
simmpi_run (const simmpi_opts * o, simmpi_main_t fn, void *arg,
            simmpi_report * rep)
{
  simmpi_report       R;
  sbuf                text;
  int                 i, code, P;
  int                *members;
  size_t              stack_size, page = (size_t) sysconf (_SC_PAGESIZE);
  struct sigaction    sa;

  memset (&R, 0, sizeof (R));
  memset (&text, 0, sizeof (text));
  R.abort_rank = -1;
  if (S.active || o == NULL || fn == NULL || o->nranks < 1
      || o->adversary < 0 || o->adversary >= SIMMPI_NUM_ADVERSARIES) {
    R.code = SIMMPI_BADOPTS;
    sb_puts (&text,
             S.active ? "simmpi: BADOPTS: simmpi_run is not reentrant\n" :
             "simmpi: BADOPTS: invalid options\n");
    goto finish;
  }
  if (real_swapcontext == NULL) {
    /* go around ASan's swapcontext interceptor (we annotate the switches
     * ourselves, the interceptor only prints a warning) */
    if (__sanitizer_start_switch_fiber) {
      void               *h = dlopen ("libc.so.6", RTLD_LAZY | RTLD_NOLOAD);
      if (h != NULL) {
        *(void **) (&real_swapcontext) = dlsym (h, "swapcontext");
        dlclose (h);
      }
    }
    if (real_swapcontext == NULL) {
      real_swapcontext = swapcontext;
    }
  }
  predt_setup ();
  memset (&S, 0, sizeof (S));
  S.o = *o;
  S.P = P = o->nranks;
  S.fn = fn;
  S.arg = arg;
  S.prng = (u64) o->seed * 0x2545f4914f6cdd1dULL + 0x9e3779b97f4a7c15ULL;
  S.maxden = o->max_denials < 0 ? 8 : o->max_denials;
  S.abort_rank = -1;
  S.victim = -1;
  sim_run_counter++;

  if (o->replay_log != NULL) {
    if (load_replay (o->replay_log) != 0) {
      R.code = SIMMPI_BADOPTS;
      sb_printf (&text, "simmpi: BADOPTS: cannot read replay log %s\n",
                 o->replay_log);
      cleanup ();
      goto finish;
    }
    S.replaying = 1;
  }
  if (o->trace_path != NULL) {
    S.trace = fopen (o->trace_path, "w");
    if (S.trace == NULL) {
      R.code = SIMMPI_BADOPTS;
      sb_printf (&text, "simmpi: BADOPTS: cannot write trace %s: %s\n",
                 o->trace_path, strerror (errno));
      cleanup ();
      goto finish;
    }
    setvbuf (S.trace, NULL, _IOFBF, 1 << 16);
  }
  if (o->decision_log != NULL) {
    S.dlog = fopen (o->decision_log, "w");
    if (S.dlog == NULL) {
      R.code = SIMMPI_BADOPTS;
      sb_printf (&text, "simmpi: BADOPTS: cannot write decision log %s: %s\n",
                 o->decision_log, strerror (errno));
      cleanup ();
      goto finish;
    }
    setvbuf (S.dlog, NULL, _IOFBF, 1 << 16);
    fprintf (S.dlog,
             "# simmpi decision log v1 nranks=%d seed=%lu adversary=%d ppn=%d noncontig=%d\n",
             P, o->seed, o->adversary, o->ppn, o->noncontig_nodes);
  }

  S.stamp = (int *) xcalloc ((size_t) P, sizeof (int));
  members = (int *) xmalloc ((size_t) P * sizeof (int));
  for (i = 0; i < P; i++) {
    members[i] = i;
  }
  comm_new (P, members, -1, "MPI_COMM_WORLD", 0, 0);    /* idx 0, id 0 */
  free (members);
  S.selfs = (sim_comm **) xcalloc ((size_t) P, sizeof (sim_comm *));
  for (i = 0; i < P; i++) {
    S.selfs[i] = comm_new (1, &i, -1, "MPI_COMM_SELF", 0, 1);
  }

  stack_size = (o->stack_kib ? o->stack_kib : 2048) * 1024;
  stack_size = (stack_size + page - 1) / page * page;
  S.ranks = (sim_rank *) xcalloc ((size_t) P, sizeof (sim_rank));
  for (i = 0; i < P; i++) {
    sim_rank           *r = &S.ranks[i];
    r->world = i;
    r->state = RS_READY;
    r->start.kind = OP_STEP;
    r->start.fname = "start";
    r->op = &r->start;
    r->dirty = 1;
    r->stack_map_size = stack_size + page;
    r->stack_map =
      (char *) mmap (NULL, r->stack_map_size, PROT_READ | PROT_WRITE,
                     MAP_PRIVATE | MAP_ANONYMOUS | MAP_NORESERVE, -1, 0);
    if (r->stack_map == MAP_FAILED) {
      r->stack_map = NULL;
      R.code = SIMMPI_BADOPTS;
      sb_printf (&text, "simmpi: BADOPTS: cannot allocate stacks: %s\n",
                 strerror (errno));
      cleanup ();
      goto finish;
    }
    mprotect (r->stack_map, page, PROT_NONE);   /* guard page */
    r->stack = r->stack_map + page;
    r->stack_size = stack_size;
    if (__asan_unpoison_memory_region) {
      __asan_unpoison_memory_region (r->stack, r->stack_size);
    }
    getcontext (&r->ctx);
    r->ctx.uc_stack.ss_sp = r->stack;
    r->ctx.uc_stack.ss_size = r->stack_size;
    r->ctx.uc_link = NULL;
    makecontext (&r->ctx, rank_trampoline, 0);
  }

  if (!o->no_sigabrt) {
    memset (&sa, 0, sizeof (sa));
    sa.sa_handler = on_sigabrt;
    sigemptyset (&sa.sa_mask);
    sa.sa_flags = SA_NODEFER;
    sigaction (SIGABRT, &sa, &old_sigabrt);
  }

  S.active = 1;
  code = schedule (&text);
  S.active = 0;

  if (!o->no_sigabrt) {
    sigaction (SIGABRT, &old_sigabrt, NULL);
  }

  /* -------- report -------- */
  if (code == SIMMPI_ABORT) {
    sb_printf (&text, "[ABORT] rank %d aborted the run with code %d at step %ld\n",
               S.abort_rank, S.abort_code, S.steps);
  }
  if (code != SIMMPI_OK) {
    for (i = 0; i < P; i++) {
      sb_printf (&text, "  rank %d: ", i);
      describe_op (&text, &S.ranks[i]);
      sb_puts (&text, "\n");
    }
  }
  end_checks (&text, &R, code == SIMMPI_OK);
  if (S.errors.p != NULL) {
    sb_puts (&text, S.errors.p);
  }
  if (S.warns.p != NULL) {
    sb_puts (&text, S.warns.p);
  }
  if (S.replaying && !S.replay_diverged && code == SIMMPI_OK
      && S.ireplay < S.nreplay) {
    S.replay_diverged = 1;
    sb_printf (&text, "[REPLAY] run ended after %ld of %ld logged decisions\n",
               S.ireplay, S.nreplay);
  }
  if (code == SIMMPI_OK) {
    if (S.replay_diverged) {
      code = SIMMPI_REPLAY_DIVERGED;
    }
    else if (S.nerrors > 0) {
      code = SIMMPI_ERROR;
    }
    else if (R.nleftover_msgs + R.nleftover_reqs + R.nleftover_colls > 0) {
      code = SIMMPI_LEFTOVER;
    }
    else if (o->leak_is_error && R.nleaks > 0) {
      code = SIMMPI_LEAK;
    }
  }
  R.code = code;
  R.steps = S.steps;
  R.decisions = S.ndecisions;
  R.calls = S.ncalls;
  R.abort_rank = S.abort_rank;
  R.abort_code = S.abort_code;
  R.nerrors = S.nerrors;
  R.nwarnings = S.nwarns;
  R.replay_diverged = S.replay_diverged;
  {
    sbuf                head;
    memset (&head, 0, sizeof (head));
    sb_printf (&head,
               "simmpi: %s nranks=%d seed=%lu adversary=%d steps=%ld decisions=%ld calls=%ld errors=%d warnings=%d leftover=%d/%d/%d leaks=%d\n",
               simmpi_code_name (code), P, o->seed, o->adversary, S.steps,
               S.ndecisions, S.ncalls, S.nerrors, S.nwarns, R.nleftover_msgs,
               R.nleftover_reqs, R.nleftover_colls, R.nleaks);
    if (text.p != NULL) {
      sb_puts (&head, text.p);
    }
    sb_free (&text);
    text = head;
  }
  {
    int                 verbose = o->verbose;
    cleanup ();
    if (verbose && code != SIMMPI_OK) {
      fputs (text.p, stderr);
    }
  }

finish:
  if (rep != NULL) {
    *rep = R;
    rep->text = text.p != NULL ? text.p : (char *) xcalloc (1, 1);
  }
  else {
    sb_free (&text);
  }
  return R.code;
}
