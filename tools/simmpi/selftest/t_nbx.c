/* the NBX pattern: Issend to the receivers, loop { Iprobe/Recv; Testall of
 * the sends, then Ibarrier; Test of the barrier }, twice with a fence */
#include "realmain.h"

static int
talks (int i, int j, int round)
{
  return ((unsigned) (i * 7 + j * 13 + round * 5 + i * j) % 3) == 0;
}

int
test_main (void)
{
  int                 rank, size, i, round, total = 0;

  MPI_Comm_rank (MPI_COMM_WORLD, &rank);
  MPI_Comm_size (MPI_COMM_WORLD, &size);
  for (round = 0; round < 2; round++) {
    MPI_Request        *sreq = (MPI_Request *) malloc ((size_t) size * sizeof (MPI_Request));
    int                *pay = (int *) malloc ((size_t) size * sizeof (int));
    char               *seen = (char *) calloc ((size_t) size, 1);
    MPI_Request         breq = MPI_REQUEST_NULL;
    int                 ns = 0, barr = 0, done = 0, nseen = 0, all;

    for (i = 0; i < size; i++) {
      if (talks (rank, i, round)) {
        pay[ns] = 1000 * rank + i;
        MPI_Issend (&pay[ns], 1, MPI_INT, i, 42, MPI_COMM_WORLD, &sreq[ns]);
        ns++;
      }
    }
    while (!done) {
      int                 flag, v;
      MPI_Status          st;
      MPI_Iprobe (MPI_ANY_SOURCE, 42, MPI_COMM_WORLD, &flag, &st);
      if (flag) {
        MPI_Recv (&v, 1, MPI_INT, st.MPI_SOURCE, 42, MPI_COMM_WORLD, MPI_STATUS_IGNORE);
        TCHECK (v == 1000 * st.MPI_SOURCE + rank, "payload %d from %d", v, st.MPI_SOURCE);
        TCHECK (!seen[st.MPI_SOURCE], "duplicate from %d", st.MPI_SOURCE);
        seen[st.MPI_SOURCE] = 1;
        nseen++;
      }
      if (!barr) {
        int                 sent;
        MPI_Testall (ns, sreq, &sent, MPI_STATUSES_IGNORE);
        if (sent) {
          MPI_Ibarrier (MPI_COMM_WORLD, &breq);
          barr = 1;
        }
      }
      else {
        MPI_Test (&breq, &done, MPI_STATUS_IGNORE);
      }
    }
    for (i = 0; i < size; i++) {
      TCHECK (seen[i] == (char) talks (i, rank, round), "sender set wrong at %d", i);
    }
    MPI_Allreduce (&nseen, &all, 1, MPI_INT, MPI_SUM, MPI_COMM_WORLD);
    total += all;
    free (sreq);
    free (pay);
    free (seen);
    MPI_Barrier (MPI_COMM_WORLD);
  }
  if (rank == 0) {
    printf ("nbx size %d messages %d\n", size, total);
  }
  return 0;
}
