/* every collective against directly computed values */
#include "realmain.h"

static int
val (int r, int i)
{
  return (r + 1) * 37 + i * 11 + (r * i) % 5;
}

int
test_main (void)
{
  int                 rank, size, i, j, root;
  int                *a, *b, *cnt, *dsp;
  long                chk = 0;

  MPI_Comm_rank (MPI_COMM_WORLD, &rank);
  MPI_Comm_size (MPI_COMM_WORLD, &size);
  a = (int *) malloc ((size_t) (size * size + 8) * 4 * sizeof (int));
  b = (int *) malloc ((size_t) (size * size + 8) * 4 * sizeof (int));
  cnt = (int *) malloc ((size_t) size * sizeof (int));
  dsp = (int *) malloc ((size_t) size * sizeof (int));

  MPI_Barrier (MPI_COMM_WORLD);
  for (root = 0; root < size; root++) {
    /* Bcast */
    for (i = 0; i < 3; i++) {
      a[i] = rank == root ? val (root, i) : -1;
    }
    MPI_Bcast (a, 3, MPI_INT, root, MPI_COMM_WORLD);
    for (i = 0; i < 3; i++) {
      TCHECK (a[i] == val (root, i), "Bcast root %d", root);
    }
    /* Gather */
    a[0] = val (rank, 0);
    a[1] = val (rank, 1);
    memset (b, 0xff, (size_t) size * 2 * sizeof (int));
    MPI_Gather (a, 2, MPI_INT, b, 2, MPI_INT, root, MPI_COMM_WORLD);
    if (rank == root) {
      for (i = 0; i < size; i++) {
        TCHECK (b[2 * i] == val (i, 0) && b[2 * i + 1] == val (i, 1), "Gather");
      }
    }
    /* Gatherv: rank i contributes i % 3 items, gaps of one item */
    for (i = 0, j = 0; i < size; i++) {
      cnt[i] = i % 3;
      dsp[i] = j;
      j += cnt[i] + 1;
    }
    for (i = 0; i < 3; i++) {
      a[i] = val (rank, i + 3);
    }
    memset (b, 0xff, (size_t) (j + 1) * sizeof (int));
    MPI_Gatherv (a, rank % 3, MPI_INT, b, cnt, dsp, MPI_INT, root, MPI_COMM_WORLD);
    if (rank == root) {
      for (i = 0; i < size; i++) {
        for (j = 0; j < cnt[i]; j++) {
          TCHECK (b[dsp[i] + j] == val (i, j + 3), "Gatherv");
        }
        TCHECK (b[dsp[i] + cnt[i]] == -1, "Gatherv wrote into a gap");
      }
    }
    /* Scatter */
    if (rank == root) {
      for (i = 0; i < 2 * size; i++) {
        a[i] = val (root, i);
      }
    }
    b[0] = b[1] = -1;
    MPI_Scatter (a, 2, MPI_INT, b, 2, MPI_INT, root, MPI_COMM_WORLD);
    TCHECK (b[0] == val (root, 2 * rank) && b[1] == val (root, 2 * rank + 1), "Scatter");
    /* Reduce */
    for (i = 0; i < 4; i++) {
      a[i] = val (rank, i);
      b[i] = -1;
    }
    MPI_Reduce (a, b, 4, MPI_INT, MPI_SUM, root, MPI_COMM_WORLD);
    if (rank == root) {
      for (i = 0; i < 4; i++) {
        int                 s = 0;
        for (j = 0; j < size; j++) {
          s += val (j, i);
        }
        TCHECK (b[i] == s, "Reduce SUM");
        chk += s;
      }
    }
  }
  /* Allgather, Allgatherv */
  a[0] = val (rank, 7);
  MPI_Allgather (a, 1, MPI_INT, b, 1, MPI_INT, MPI_COMM_WORLD);
  for (i = 0; i < size; i++) {
    TCHECK (b[i] == val (i, 7), "Allgather");
  }
  for (i = 0, j = 0; i < size; i++) {
    cnt[i] = (i + 1) % 3;
    dsp[i] = j;
    j += cnt[i];
  }
  for (i = 0; i < 3; i++) {
    a[i] = val (rank, i + 20);
  }
  MPI_Allgatherv (a, (rank + 1) % 3, MPI_INT, b, cnt, dsp, MPI_INT, MPI_COMM_WORLD);
  for (i = 0; i < size; i++) {
    for (j = 0; j < cnt[i]; j++) {
      TCHECK (b[dsp[i] + j] == val (i, j + 20), "Allgatherv");
    }
  }
  /* Alltoall: item for rank j from rank i is val (i, j) */
  for (j = 0; j < size; j++) {
    a[2 * j] = val (rank, j);
    a[2 * j + 1] = -val (rank, j);
  }
  MPI_Alltoall (a, 2, MPI_INT, b, 2, MPI_INT, MPI_COMM_WORLD);
  for (i = 0; i < size; i++) {
    TCHECK (b[2 * i] == val (i, rank) && b[2 * i + 1] == -val (i, rank), "Alltoall");
  }
  /* Allreduce with several types and operations */
  {
    double              d[2], e[2], ds = 0., dm = -1e9;
    long                l = rank + 1, lp = 0, lexp = 1;
    unsigned            u = 1u << (rank % 20), uo = 0, ue = 0;
    struct { double v; int i; } li, lo;
    int                 band = ~(1 << (rank % 8)), bo = 0, be = ~0;
    d[0] = 0.5 * val (rank, 1);
    d[1] = -0.25 * val (rank, 2);
    MPI_Allreduce (d, e, 2, MPI_DOUBLE, MPI_SUM, MPI_COMM_WORLD);
    for (j = 0; j < size; j++) {
      ds += 0.5 * val (j, 1);
    }
    TCHECK (e[0] == ds, "Allreduce double SUM %g %g", e[0], ds);
    MPI_Allreduce (d, e, 2, MPI_DOUBLE, MPI_MAX, MPI_COMM_WORLD);
    for (j = 0; j < size; j++) {
      dm = dm > -0.25 * val (j, 2) ? dm : -0.25 * val (j, 2);
    }
    TCHECK (e[1] == dm, "Allreduce double MAX");
    if (size <= 12) {
      MPI_Allreduce (&l, &lp, 1, MPI_LONG, MPI_PROD, MPI_COMM_WORLD);
      for (j = 0; j < size; j++) {
        lexp *= j + 1;
      }
      TCHECK (lp == lexp, "Allreduce long PROD");
    }
    MPI_Allreduce (&u, &uo, 1, MPI_UNSIGNED, MPI_BOR, MPI_COMM_WORLD);
    for (j = 0; j < size; j++) {
      ue |= 1u << (j % 20);
      be &= ~(1 << (j % 8));
    }
    TCHECK (uo == ue, "Allreduce BOR");
    MPI_Allreduce (&band, &bo, 1, MPI_INT, MPI_BAND, MPI_COMM_WORLD);
    TCHECK (bo == be, "Allreduce BAND");
    band = rank % 2;
    MPI_Allreduce (&band, &bo, 1, MPI_INT, MPI_LOR, MPI_COMM_WORLD);
    TCHECK (bo == (size > 1), "Allreduce LOR");
    MPI_Allreduce (&band, &bo, 1, MPI_INT, MPI_LAND, MPI_COMM_WORLD);
    TCHECK (bo == 0, "Allreduce LAND");
    MPI_Allreduce (&band, &bo, 1, MPI_INT, MPI_LXOR, MPI_COMM_WORLD);
    TCHECK (bo == ((size / 2) % 2), "Allreduce LXOR");
    MPI_Allreduce (&band, &bo, 1, MPI_INT, MPI_BXOR, MPI_COMM_WORLD);
    TCHECK (bo == ((size / 2) % 2), "Allreduce BXOR");
    band = val (rank, 3);
    MPI_Allreduce (&band, &bo, 1, MPI_INT, MPI_MIN, MPI_COMM_WORLD);
    TCHECK (bo == val (0, 3), "Allreduce MIN");
    li.v = (double) ((rank * 5) % 7);
    li.i = rank;
    MPI_Allreduce (&li, &lo, 1, MPI_DOUBLE_INT, MPI_MAXLOC, MPI_COMM_WORLD);
    {
      double              bv = -1.;
      int                 bi = -1;
      for (j = 0; j < size; j++) {
        if ((double) ((j * 5) % 7) > bv) {
          bv = (double) ((j * 5) % 7);
          bi = j;
        }
      }
      TCHECK (lo.v == bv && lo.i == bi, "Allreduce MAXLOC %g %d, expected %g %d", lo.v, lo.i, bv, bi);
    }
    {
      int                 p2[2], q2[2];
      p2[0] = (rank * 3) % 4;
      p2[1] = rank;
      MPI_Allreduce (p2, q2, 1, MPI_2INT, MPI_MINLOC, MPI_COMM_WORLD);
      TCHECK (q2[0] == 0 && q2[1] == 0, "Allreduce MINLOC");
    }
    chk += (long) e[1] + uo;
  }
  /* Reduce_scatter_block, Scan, Exscan */
  for (j = 0; j < 2 * size; j++) {
    a[j] = val (rank, j);
  }
  MPI_Reduce_scatter_block (a, b, 2, MPI_INT, MPI_SUM, MPI_COMM_WORLD);
  for (i = 0; i < 2; i++) {
    int                 s = 0;
    for (j = 0; j < size; j++) {
      s += val (j, 2 * rank + i);
    }
    TCHECK (b[i] == s, "Reduce_scatter_block");
  }
  a[0] = val (rank, 9);
  a[1] = rank;
  MPI_Scan (a, b, 2, MPI_INT, MPI_SUM, MPI_COMM_WORLD);
  {
    int                 s = 0;
    for (j = 0; j <= rank; j++) {
      s += val (j, 9);
    }
    TCHECK (b[0] == s && b[1] == rank * (rank + 1) / 2, "Scan");
    b[0] = -5;
    MPI_Exscan (a, b, 1, MPI_INT, MPI_SUM, MPI_COMM_WORLD);
    if (rank > 0) {
      TCHECK (b[0] == s - val (rank, 9), "Exscan");
    }
    a[0] = val (rank, 9);
    MPI_Scan (a, b, 1, MPI_INT, MPI_MAX, MPI_COMM_WORLD);
    TCHECK (b[0] == val (rank, 9), "Scan MAX");
  }
  /* derived contiguous type in a data movement collective */
  {
    MPI_Datatype        t3;
    int                 sz;
    MPI_Type_contiguous (3, MPI_INT, &t3);
    MPI_Type_commit (&t3);
    MPI_Type_size (t3, &sz);
    TCHECK (sz == 3 * (int) sizeof (int), "Type_size");
    for (i = 0; i < 3; i++) {
      a[i] = val (rank, i + 30);
    }
    MPI_Allgather (a, 1, t3, b, 3, MPI_INT, MPI_COMM_WORLD);
    for (i = 0; i < size; i++) {
      TCHECK (b[3 * i + 2] == val (i, 32), "Allgather contiguous type");
    }
    MPI_Type_free (&t3);
    TCHECK (t3 == MPI_DATATYPE_NULL, "Type_free");
  }
  MPI_Allreduce (MPI_IN_PLACE, &chk, 1, MPI_LONG, MPI_SUM, MPI_COMM_WORLD);
  if (rank == 0) {
    printf ("coll size %d checksum %ld\n", size, chk);
  }
  free (a);
  free (b);
  free (cnt);
  free (dsp);
  return 0;
}
