/* included by the plain MPI selftest programs: with -DREAL_MPI they get a
 * main () for mpicc/mpirun, otherwise simmain.c drives test_main () */
#ifndef REALMAIN_H
#define REALMAIN_H
#include <mpi.h>
#include <stdio.h>
#include <stdlib.h>
#include <string.h>

int                 test_main (void);

#define TCHECK(cond, ...) do { if (!(cond)) { int r_; MPI_Comm_rank (MPI_COMM_WORLD, &r_); \
  fprintf (stderr, "%s:%d rank %d: ", __FILE__, __LINE__, r_); fprintf (stderr, __VA_ARGS__); \
  fprintf (stderr, "\n"); return 1; } } while (0)

#ifdef REAL_MPI
int
main (int argc, char **argv)
{
  int                 rc, all = 0;
  MPI_Init (&argc, &argv);
  rc = test_main ();
  MPI_Allreduce (&rc, &all, 1, MPI_INT, MPI_MAX, MPI_COMM_WORLD);
  MPI_Finalize ();
  return all;
}
#endif
#endif
