/* many runs in one process (state is reset, nothing leaks), a large run, and
 * a rough speed figure */
#include <mpi.h>
#include <simmpi.h>
#include <stdio.h>
#include <stdlib.h>
#include <time.h>

static void
fn (int rank, int size, void *arg)
{
  int                 i, v = rank, w = 0, n = *(int *) arg;
  MPI_Comm            c;

  for (i = 0; i < n; i++) {
    MPI_Request         rq[2];
    MPI_Irecv (&w, 1, MPI_INT, (rank + size - 1) % size, i, MPI_COMM_WORLD, &rq[0]);
    MPI_Isend (&v, 1, MPI_INT, (rank + 1) % size, i, MPI_COMM_WORLD, &rq[1]);
    MPI_Waitall (2, rq, MPI_STATUSES_IGNORE);
    v = w;
  }
  MPI_Comm_split (MPI_COMM_WORLD, rank % 3, rank, &c);
  MPI_Allreduce (&v, &w, 1, MPI_INT, MPI_SUM, c);
  MPI_Comm_free (&c);
  if (v != (rank + size * n - n) % size) {
    abort ();
  }
}

int
main (int argc, char **argv)
{
  int                 runs = argc > 1 ? atoi (argv[1]) : 2000, k, n = 4, bad = 0;
  long                steps = 0;
  clock_t             t0 = clock ();
  double              dt;

  for (k = 0; k < runs; k++) {
    simmpi_opts         o;
    simmpi_report       rep;
    simmpi_opts_default (&o);
    o.nranks = 1 + k % 9;
    o.seed = (unsigned long) k;
    o.adversary = k % SIMMPI_NUM_ADVERSARIES;
    if (simmpi_run (&o, fn, &n, &rep) != SIMMPI_OK || rep.nleaks) {
      bad++;
      fprintf (stderr, "%s", rep.text);
    }
    steps += rep.steps;
    simmpi_report_free (&rep);
  }
  dt = (double) (clock () - t0) / CLOCKS_PER_SEC;
  printf ("t_many: %d runs, %ld steps in %.2f s (%.0f runs/min)\n", runs, steps, dt, 60. * runs / (dt > 0 ? dt : 1));
  {
    simmpi_opts         o;
    simmpi_report       rep;
    n = 20;
    simmpi_opts_default (&o);
    o.nranks = 64;
    o.seed = 5;
    t0 = clock ();
    if (simmpi_run (&o, fn, &n, &rep) != SIMMPI_OK) {
      bad++;
      fprintf (stderr, "%s", rep.text);
    }
    dt = (double) (clock () - t0) / CLOCKS_PER_SEC;
    printf ("t_many: P=64 run, %ld steps in %.3f s\n", rep.steps, dt);
    simmpi_report_free (&rep);
  }
  return bad != 0;
}
