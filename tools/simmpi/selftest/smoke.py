#!/usr/bin/env python3
"""End-to-end smoke test of simmpi with the real libsc (see libsc_smoke.c).

  smoke.py [quick] [--keep]

1. libsc is built from /repo with vlib.build_variant(mpi='sim') (ASan+UBSan,
   SC_ENABLE_MPICOMMSHARED and SC_ENABLE_MPIWINSHARED on), libsc_smoke.c and
   simmpi.c are compiled with the same flags, and the strict run must pass:
   P in {1,2,3,5,8,9,17}, several seeds, every adversary.
2. The same without sanitizers, with empty sender sets and in-place payloads
   (libsc calls qsort (NULL, 0, ..) and memcpy (NULL, p, 0) there, which
   UBSan stops on).
3. When mpicc/mpirun exist: the same checks with libsc built by mpicc
   (vlib.build_variant(mpi='ompi')) under Open MPI for P in {1,2,3,5,8,9}.
4. Informational runs that are expected to expose libsc behaviour (they do
   not fail the smoke test): round-robin node partitions, no barrier between
   sc_notify calls.
Exit status 0 when 1-3 pass.  The scratch directory is removed.
"""
import os, sys, shutil, subprocess, tempfile, re

HERE = os.path.dirname(os.path.abspath(__file__))
TOP = os.path.dirname(HERE)
sys.path.insert(0, os.path.join(os.path.dirname(TOP), "lib"))
import vlib

CONFIG = ("SC_ENABLE_MPICOMMSHARED", "SC_ENABLE_MPIWINSHARED")


def build(scratch, san, name):
    v = vlib.build_variant(scratch, mpi="sim", san=san, config_defs=CONFIG)
    exe = os.path.join(scratch, name)
    cmd = [v.cc] + v.cflags + ["-w", os.path.join(HERE, "libsc_smoke.c"), os.path.join(TOP, "simmpi.c"),
                               v.lib] + v.ldflags + ["-o", exe]
    rc, out = vlib.sh(cmd)
    if rc != 0:
        raise RuntimeError("smoke harness does not compile:\n" + out[-3000:])
    return exe


def run(cmd, env=None, timeout=3000):
    e = dict(os.environ)
    e.update(env or {})
    rc, out = vlib.sh(cmd, env=e, timeout=timeout)
    return rc, out


def main():
    quick = "quick" in sys.argv[1:]
    keep = "--keep" in sys.argv[1:]
    nseeds = "1" if quick else "3"
    scratch = tempfile.mkdtemp(prefix="simmpi-smoke-", dir="/var/tmp")
    ok = True
    try:
        exe = build(scratch, True, "smoke_san")
        rc, out = run([exe, "-s", nseeds])
        print("[smoke] sanitized, strict:", out.strip().split("\n")[-1])
        if rc != 0:
            ok = False
            print(out[-6000:])

        exe2 = build(scratch, False, "smoke_plain")
        rc, out = run([exe2, "-s", nseeds, "-e", "-i"])
        print("[smoke] no sanitizers, empty sender sets, in-place payload:", out.strip().split("\n")[-1])
        if rc != 0:
            ok = False
            print(out[-6000:])

        if shutil.which("mpicc") and shutil.which("mpirun"):
            try:
                v = vlib.build_variant(scratch, mpi="ompi", san=False, config_defs=CONFIG)
                exe3 = os.path.join(scratch, "smoke_ompi")
                rc, out = vlib.sh([v.cc] + v.cflags + ["-w", "-DSMOKE_REAL_MPI", os.path.join(HERE, "libsc_smoke.c"),
                                                       v.lib] + v.ldflags + ["-o", exe3])
                if rc != 0:
                    raise RuntimeError(out[-2000:])
                for P in ([1, 3] if quick else [1, 2, 3, 5, 8, 9]):
                    # Open MPI here refuses MPI_Win_create on a single process: leave rsx out for P=1
                    extra = ["-x", "5"] if P == 1 else []
                    rc, out = run(["mpirun", "--allow-run-as-root", "--oversubscribe", "-np", str(P), exe3,
                                   "-s", nseeds, "-e"] + extra, timeout=900)
                    last = [l for l in out.strip().split("\n") if l.startswith("libsc_smoke")]
                    print("[smoke] Open MPI:", last[-1] if last else out[-400:])
                    if rc != 0:
                        ok = False
                        print(out[-3000:])
            except Exception as e:      # noqa
                print("[smoke] Open MPI cross-check could not be built/run: %s" % e)
        else:
            print("[smoke] mpicc/mpirun not found: no Open MPI cross-check")

        # informational
        noleak = {"ASAN_OPTIONS": "detect_leaks=0"}
        rc, out = run([exe2, "-s", nseeds, "-n", "-o", "32"], env=noleak)
        print("[smoke] info: round-robin node partitions (libsc shared-window arrays assume contiguous nodes):",
              out.strip().split("\n")[-1])
        rc, out = run([exe2, "-s", nseeds, "-b", "-o", "4", "-q"], env=noleak)
        fails = re.findall(r"RUN FAILED: (P=\d+ seed=\d+ adversary=\d+)", out)
        print("[smoke] info: sc_notify calls back to back without a barrier: %d runs misbehave%s" % (
            len(fails), (" (first: %s)" % fails[0]) if fails else ""))
        rc, out = run([exe, "-s", nseeds, "-w", "-o", "32", "-q"], env=noleak)
        warn = re.findall(r"MPI_MODE_NOCHECK asserted", out)
        print("[smoke] info: sc_shmem window type: MPI_MODE_NOCHECK asserted while a conflicting lock is held: %d times"
              % len(warn))
    finally:
        if keep:
            print("[smoke] scratch kept:", scratch)
        else:
            shutil.rmtree(scratch, ignore_errors=True)
    print("[smoke] %s" % ("PASSED" if ok else "FAILED"))
    return 0 if ok else 1


if __name__ == "__main__":
    sys.exit(main())
