/* Comm_split / Comm_dup / Comm_free / Comm_split_type, attribute caching with
 * copy and delete callbacks across Comm_dup */
#include "realmain.h"

static int          ncopy, ndelete;     /* per process (shared by all simulated ranks) */

static int
copy_cb (MPI_Comm old, int keyval, void *extra, void *in, void *out, int *flag)
{
  int                *v = (int *) malloc (sizeof (int));
  (void) old;
  (void) keyval;
  *v = *(int *) in + *(int *) extra;
  *(void **) out = v;
  *flag = 1;
  ncopy++;
  return MPI_SUCCESS;
}

static int
delete_cb (MPI_Comm comm, int keyval, void *val, void *extra)
{
  (void) comm;
  (void) keyval;
  (void) extra;
  free (val);
  ndelete++;
  return MPI_SUCCESS;
}

int
test_main (void)
{
  static int          extra = 1000;
  int                 rank, size, r2, s2, r3, s3, sum, flag, cmp;
  int                 kv_copy, kv_nocopy, kv_dup;
  int                *val, *got;
  MPI_Comm            half, dup, dup2, rev, node;
  static int          plain = 77;

  MPI_Comm_rank (MPI_COMM_WORLD, &rank);
  MPI_Comm_size (MPI_COMM_WORLD, &size);

  /* split in two halves by parity, reverse order inside */
  MPI_Comm_split (MPI_COMM_WORLD, rank % 2, -rank, &half);
  MPI_Comm_rank (half, &r2);
  MPI_Comm_size (half, &s2);
  TCHECK (s2 == (size + 1 - rank % 2) / 2, "split size %d", s2);
  TCHECK (r2 == s2 - 1 - rank / 2, "split rank %d", r2);
  MPI_Allreduce (&rank, &sum, 1, MPI_INT, MPI_SUM, half);
  {
    int                 e = 0, j;
    for (j = rank % 2; j < size; j += 2) {
      e += j;
    }
    TCHECK (sum == e, "Allreduce on split comm");
  }
  /* messages on different communicators do not mix */
  if (s2 > 1) {
    int                 a = 1, b = 2, x = 0, y = 0;
    if (r2 == 0) {
      MPI_Send (&a, 1, MPI_INT, 1, 3, half);
    }
    if (r2 == 1) {
      /* peer of half-rank 0 in the world */
      int                 peer = rank % 2 + 2 * (s2 - 1);
      MPI_Request         rq;
      MPI_Irecv (&y, 1, MPI_INT, peer, 3, MPI_COMM_WORLD, &rq);
      MPI_Recv (&x, 1, MPI_INT, 0, 3, half, MPI_STATUS_IGNORE);
      TCHECK (x == 1, "message on split comm");
      MPI_Wait (&rq, MPI_STATUS_IGNORE);
      TCHECK (y == 2, "message on world comm");
    }
    if (r2 == 0) {
      int                 peer = rank % 2 + 2 * (s2 - 2);
      MPI_Send (&b, 1, MPI_INT, peer, 3, MPI_COMM_WORLD);
    }
  }
  /* color MPI_UNDEFINED */
  MPI_Comm_split (MPI_COMM_WORLD, rank == 0 ? MPI_UNDEFINED : 5, rank, &rev);
  TCHECK ((rank == 0) == (rev == MPI_COMM_NULL), "MPI_UNDEFINED color");
  if (rev != MPI_COMM_NULL) {
    MPI_Comm_rank (rev, &r3);
    TCHECK (r3 == rank - 1, "rank in comm without 0");
    MPI_Comm_free (&rev);
  }

  /* attributes */
  MPI_Comm_create_keyval (copy_cb, delete_cb, &kv_copy, &extra);
  MPI_Comm_create_keyval (MPI_COMM_NULL_COPY_FN, delete_cb, &kv_nocopy, NULL);
  MPI_Comm_create_keyval (MPI_COMM_DUP_FN, MPI_COMM_NULL_DELETE_FN, &kv_dup, NULL);
  MPI_Comm_get_attr (half, kv_copy, &got, &flag);
  TCHECK (!flag, "attribute before set");
  val = (int *) malloc (sizeof (int));
  *val = rank;
  MPI_Comm_set_attr (half, kv_copy, val);
  val = (int *) malloc (sizeof (int));
  *val = -rank;
  MPI_Comm_set_attr (half, kv_nocopy, val);
  MPI_Comm_set_attr (half, kv_dup, &plain);
  MPI_Comm_get_attr (half, kv_copy, &got, &flag);
  TCHECK (flag && *got == rank, "attribute get");

  MPI_Comm_dup (half, &dup);
  MPI_Comm_compare (half, dup, &cmp);
  TCHECK (cmp == MPI_CONGRUENT, "dup is congruent");
  MPI_Comm_compare (half, half, &cmp);
  TCHECK (cmp == MPI_IDENT, "ident");
  MPI_Comm_compare (half, MPI_COMM_WORLD, &cmp);
  TCHECK (cmp == (size == 1 ? MPI_CONGRUENT : MPI_UNEQUAL), "unequal");
  MPI_Comm_get_attr (dup, kv_copy, &got, &flag);
  TCHECK (flag && *got == rank + 1000, "copied attribute %d", flag ? *got : -1);
  MPI_Comm_get_attr (dup, kv_nocopy, &got, &flag);
  TCHECK (!flag, "attribute with null copy function was copied");
  MPI_Comm_get_attr (dup, kv_dup, &got, &flag);
  TCHECK (flag && got == &plain, "MPI_COMM_DUP_FN");
  MPI_Comm_dup (dup, &dup2);
  MPI_Comm_get_attr (dup2, kv_copy, &got, &flag);
  TCHECK (flag && *got == rank + 2000, "attribute copied twice");
  /* replacing a value calls the delete callback */
  val = (int *) malloc (sizeof (int));
  *val = 5;
  MPI_Comm_set_attr (dup2, kv_copy, val);
  MPI_Comm_delete_attr (dup2, kv_copy);
  MPI_Comm_get_attr (dup2, kv_copy, &got, &flag);
  TCHECK (!flag, "deleted attribute");
  /* collectives on dup are independent of half */
  MPI_Comm_rank (dup, &r3);
  MPI_Comm_size (dup, &s3);
  TCHECK (r3 == r2 && s3 == s2, "dup rank/size");
  MPI_Allreduce (&r3, &sum, 1, MPI_INT, MPI_MAX, dup);
  TCHECK (sum == s2 - 1, "Allreduce on dup");
  MPI_Comm_free (&dup2);
  MPI_Comm_free (&dup);
  MPI_Comm_free (&half);
  TCHECK (half == MPI_COMM_NULL, "Comm_free resets the handle");
  MPI_Comm_free_keyval (&kv_copy);
  MPI_Comm_free_keyval (&kv_nocopy);
  MPI_Comm_free_keyval (&kv_dup);
  TCHECK (kv_copy == MPI_KEYVAL_INVALID, "free_keyval");

  /* shared memory split: everybody of a node */
  MPI_Comm_split_type (MPI_COMM_WORLD, MPI_COMM_TYPE_SHARED, rank, MPI_INFO_NULL, &node);
  MPI_Comm_size (node, &s3);
  TCHECK (s3 >= 1 && s3 <= size, "node comm size");
  MPI_Comm_free (&node);

  /* groups */
  {
    MPI_Group           gw, ge;
    int                 gs, gr, one = 0, tr;
    MPI_Comm_group (MPI_COMM_WORLD, &gw);
    MPI_Group_size (gw, &gs);
    MPI_Group_rank (gw, &gr);
    TCHECK (gs == size && gr == rank, "group of world");
    MPI_Group_incl (gw, 1, &rank, &ge);
    MPI_Group_translate_ranks (ge, 1, &one, gw, &tr);
    TCHECK (tr == rank, "translate ranks");
    MPI_Group_free (&ge);
    MPI_Group_free (&gw);
  }

  /* callbacks: 2 copies per rank (dup, dup2); deletes: values freed */
  MPI_Barrier (MPI_COMM_WORLD);
  sum = 0;
  flag = ncopy;
  MPI_Allreduce (&flag, &sum, 1, MPI_INT, MPI_MAX, MPI_COMM_WORLD);
  if (rank == 0) {
    printf ("comm size %d ok\n", size);
  }
  return 0;
}
