/* non-overtaking: wildcard receives see the messages of every single source
 * in the order they were sent, whatever the interleaving of the sources */
#include "realmain.h"

#define K 6

int
test_main (void)
{
  int                 rank, size, i, k;

  MPI_Comm_rank (MPI_COMM_WORLD, &rank);
  MPI_Comm_size (MPI_COMM_WORLD, &size);
  if (rank != 0) {
    MPI_Request         rq[K];
    int                 v[K];
    for (k = 0; k < K; k++) {
      v[k] = 100 * rank + k;
      /* tags alternate: a tag-specific receive may overtake other tags */
      if (k % 2) {
        MPI_Isend (&v[k], 1, MPI_INT, 0, k % 3, MPI_COMM_WORLD, &rq[k]);
      }
      else {
        MPI_Send (&v[k], 1, MPI_INT, 0, k % 3, MPI_COMM_WORLD);
        rq[k] = MPI_REQUEST_NULL;
      }
    }
    MPI_Waitall (K, rq, MPI_STATUSES_IGNORE);
    MPI_Barrier (MPI_COMM_WORLD);       /* fence: phase 1 receives use MPI_ANY_TAG */
    /* second phase: per-tag order */
    for (k = 0; k < K; k++) {
      v[k] = 100 * rank + k;
      /* nonblocking: the receiver takes tag 11 first, a blocking standard
       * send of tag 10 would only be correct if it is buffered */
      MPI_Isend (&v[k], 1, MPI_INT, 0, 10 + k % 2, MPI_COMM_WORLD, &rq[k]);
    }
    MPI_Waitall (K, rq, MPI_STATUSES_IGNORE);
  }
  else {
    int                *next = (int *) calloc ((size_t) size, sizeof (int));
    int                 got = 0;
    for (i = 0; i < (size - 1) * K; i++) {
      int                 v = -1;
      MPI_Status          st;
      if (i % 3 == 0) {
        MPI_Probe (MPI_ANY_SOURCE, MPI_ANY_TAG, MPI_COMM_WORLD, &st);
        MPI_Recv (&v, 1, MPI_INT, st.MPI_SOURCE, st.MPI_TAG, MPI_COMM_WORLD, &st);
      }
      else if (i % 3 == 1) {
        MPI_Request         rq;
        MPI_Irecv (&v, 1, MPI_INT, MPI_ANY_SOURCE, MPI_ANY_TAG, MPI_COMM_WORLD, &rq);
        MPI_Wait (&rq, &st);
      }
      else {
        MPI_Recv (&v, 1, MPI_INT, MPI_ANY_SOURCE, MPI_ANY_TAG, MPI_COMM_WORLD, &st);
      }
      TCHECK (v == 100 * st.MPI_SOURCE + next[st.MPI_SOURCE],
              "message %d from %d overtook (expected seq %d)", v, st.MPI_SOURCE,
              next[st.MPI_SOURCE]);
      TCHECK (st.MPI_TAG == next[st.MPI_SOURCE] % 3, "tag");
      next[st.MPI_SOURCE]++;
      got++;
    }
    MPI_Barrier (MPI_COMM_WORLD);
    /* tag 11 first (odd k), then tag 10: order within a tag is kept */
    for (k = 0; k < 2; k++) {
      memset (next, 0, (size_t) size * sizeof (int));
      for (i = 0; i < (size - 1) * K / 2; i++) {
        int                 v = -1;
        MPI_Status          st;
        MPI_Recv (&v, 1, MPI_INT, MPI_ANY_SOURCE, 11 - k, MPI_COMM_WORLD, &st);
        TCHECK (v == 100 * st.MPI_SOURCE + 2 * next[st.MPI_SOURCE] + (1 - k),
                "per-tag order: %d from %d", v, st.MPI_SOURCE);
        next[st.MPI_SOURCE]++;
        got++;
      }
    }
    free (next);
    printf ("wildcard size %d received %d\n", size, got);
  }
  return 0;
}
