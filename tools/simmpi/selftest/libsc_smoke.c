/*
 * End-to-end smoke test of simmpi with the real libsc: the parallel
 * algorithms of libsc run on simulated ranks under every adversary and their
 * results are compared with directly computed expectations.
 *
 * usage: libsc_smoke [-q] [-P list] [-s nseeds] [-a adversary] [-t trace]
 */
#include <sc.h>
#include <sc_allgather.h>
#include <sc_reduce.h>
#include <sc_notify.h>
#include <sc_sort.h>
#include <sc_statistics.h>
#include <sc_shmem.h>
#ifndef SMOKE_REAL_MPI
#include <simmpi.h>
#else
/* the same checks under a real MPI (mpicc -DSMOKE_REAL_MPI, mpirun) */
static int
simmpi_current_rank (void)
{
  int                 r = -1;
  MPI_Comm_rank (MPI_COMM_WORLD, &r);
  return r;
}
#endif

static int          nfail = 0;
static int          quiet = 0;
static int          back_to_back = 0;   /* -b: no barrier between sc_notify calls */
static int          noncontig = 0;      /* -n: also use round-robin node partitions */
static int          warnfail = 0;       /* -w: simmpi warnings fail the run */
static long         nwarn = 0;
static int          exclude_type = -1;  /* -x: notify type to leave out */
static long         nknown = 0;        /* occurrences of known libsc misbehaviour that are tolerated */
static int          inplace = 0;        /* -i: in-place payload (libsc memcpy (NULL, p, 0) with no senders) */
static char         where[256];

#define CHECK(cond, ...) do { if (!(cond)) { nfail++; if (nfail <= 40) { \
  fprintf (stderr, "FAIL [%s] rank %d line %d: ", where, simmpi_current_rank (), __LINE__); \
  fprintf (stderr, __VA_ARGS__); fprintf (stderr, "\n"); } } } while (0)

typedef struct
{
  int                 P;
  unsigned long       seed;
  int                 only;     /* -1 all parts, else bit mask */
}
ctx_t;

static unsigned
mix (unsigned long seed, unsigned a, unsigned b)
{
  unsigned long long  z = seed * 0x9e3779b97f4a7c15ULL + a * 0x1000193ULL + b;
  z = (z ^ (z >> 30)) * 0xbf58476d1ce4e5b9ULL;
  z = (z ^ (z >> 27)) * 0x94d049bb133111ebULL;
  return (unsigned) (z >> 33);
}

/* does rank i notify rank j? */
static int          allow_empty = 0;    /* -e: ranks without any sender (libsc then calls qsort (NULL, 0, ..)) */
static int          nprocs = 1;

static int
notifies (unsigned long seed, int i, int j)
{
  if (!allow_empty && j == (i + 1) % nprocs) {
    return 1;                   /* everybody has at least one sender */
  }
  return mix (seed, (unsigned) i, (unsigned) j) % 3 == 0;
}

static void
compute_superset_trivial (sc_array_t * receivers,
                          sc_array_t * extra_receivers,
                          sc_array_t * super_senders, sc_notify_t * notify,
                          void *ctx)
{
  sc_MPI_Comm         comm = sc_notify_get_comm (notify);
  int                 size, i;

  sc_MPI_Comm_size (comm, &size);
  sc_array_resize (super_senders, (size_t) size);
  sc_array_resize (extra_receivers, 0);
  for (i = 0; i < size; i++) {
    *(int *) sc_array_index_int (super_senders, i) = i;
    if (sc_array_bsearch (receivers, &i, sc_int_compare) < 0) {
      *((int *) sc_array_push (extra_receivers)) = i;
    }
  }
}

static void
test_allgather (ctx_t * c, int rank, int size, sc_MPI_Comm comm)
{
  int                 mine[2], i;
  int                *all = SC_ALLOC (int, 2 * size);

  mine[0] = rank;
  mine[1] = (int) (mix (c->seed, 77, (unsigned) rank) & 0xffff);
  sc_allgather (mine, 2, sc_MPI_INT, all, 2, sc_MPI_INT, comm);
  for (i = 0; i < size; i++) {
    CHECK (all[2 * i] == i
           && all[2 * i + 1] == (int) (mix (c->seed, 77, (unsigned) i) & 0xffff),
           "sc_allgather entry %d is (%d,%d)", i, all[2 * i], all[2 * i + 1]);
  }
  SC_FREE (all);
}

static void
test_reduce (ctx_t * c, int rank, int size, sc_MPI_Comm comm)
{
  int                 iv[3], ir[3], i, target = (size - 1) / 2;
  double              dv[2], dr[2];
  long                esum = 0;
  int                 emax = -1, emin = 1 << 30;
  double              dsum = 0., dmax = -1.;

  for (i = 0; i < size; i++) {
    int                 v = (int) (mix (c->seed, 5, (unsigned) i) % 1000);
    double              d = 0.25 * (double) (mix (c->seed, 6, (unsigned) i) % 64);
    esum += v;
    emax = SC_MAX (emax, v);
    emin = SC_MIN (emin, v);
    dsum += d;
    dmax = SC_MAX (dmax, d);
  }
  iv[0] = iv[1] = iv[2] = (int) (mix (c->seed, 5, (unsigned) rank) % 1000);
  dv[0] = dv[1] = 0.25 * (double) (mix (c->seed, 6, (unsigned) rank) % 64);

  ir[0] = -7;
  sc_allreduce (iv, ir, 1, sc_MPI_INT, sc_MPI_SUM, comm);
  CHECK (ir[0] == (int) esum, "sc_allreduce SUM %d expected %ld", ir[0], esum);
  sc_allreduce (iv, ir, 1, sc_MPI_INT, sc_MPI_MAX, comm);
  CHECK (ir[0] == emax, "sc_allreduce MAX %d expected %d", ir[0], emax);
  sc_allreduce (dv, dr, 2, sc_MPI_DOUBLE, sc_MPI_SUM, comm);
  CHECK (dr[0] == dsum && dr[1] == dsum, "sc_allreduce double SUM %g expected %g",
         dr[0], dsum);
  ir[0] = ir[1] = ir[2] = -7;
  sc_reduce (iv, ir, 3, sc_MPI_INT, sc_MPI_MIN, target, comm);
  if (rank == target) {
    CHECK (ir[0] == emin && ir[2] == emin, "sc_reduce MIN %d expected %d",
           ir[0], emin);
  }
  dr[0] = -7.;
  sc_reduce (dv, dr, 1, sc_MPI_DOUBLE, sc_MPI_MAX, 0, comm);
  if (rank == 0) {
    CHECK (dr[0] == dmax, "sc_reduce double MAX %g expected %g", dr[0], dmax);
  }
}

static void
test_notify (ctx_t * c, int rank, int size, sc_MPI_Comm comm)
{
  int                 t, i, pass;

  for (t = 0; t < SC_NOTIFY_NUM_TYPES; t++) {
    for (pass = 0; pass < 2 && t != exclude_type; pass++) {
      sc_notify_t        *notify = sc_notify_new (comm);
      sc_array_t         *rec = sc_array_new (sizeof (int));
      sc_array_t         *snd = sc_array_new (sizeof (int));
      sc_array_t         *pay = NULL;
      int                 k = 0;

      if (!back_to_back) {
        /* without a fence a fast rank's next call can be captured by the
         * wildcard probes of a rank still in this call (nary, nbx, superset) */
        sc_MPI_Barrier (comm);
      }
      snprintf (where, sizeof (where), "P=%d seed=%lu notify %s %s", size,
                c->seed, sc_notify_type_strings[t],
                pass ? "payload" : "plain");
      sc_notify_set_type (notify, (sc_notify_type_t) t);
      if (t == SC_NOTIFY_NARY) {
        sc_notify_nary_set_widths (notify, sc_notify_nary_ntop_default,
                                   sc_notify_nary_nint_default,
                                   sc_notify_nary_nbot_default);
      }
      if (t == SC_NOTIFY_SUPERSET) {
        sc_notify_superset_set_callback (notify, compute_superset_trivial,
                                         NULL);
      }
      for (i = 0; i < size; i++) {
        if (notifies (c->seed + (unsigned long) pass, rank, i)) {
          *(int *) sc_array_push (rec) = i;
        }
      }
      if (pass) {
        pay = sc_array_new_count (sizeof (int), rec->elem_count);
        for (i = 0; i < (int) rec->elem_count; i++) {
          *(int *) sc_array_index_int (pay, i) =
            1000 * rank + *(int *) sc_array_index_int (rec, i);
        }
        if (inplace) {
          /* senders and payload are returned in place */
          sc_notify_payload (rec, NULL, pay, NULL, 1, notify);
          sc_array_destroy (snd);
          snd = rec;
          rec = NULL;
        }
        else {
          sc_array_t         *out = sc_array_new (sizeof (int));
          sc_notify_payload (rec, snd, pay, out, 1, notify);
          sc_array_destroy (pay);
          pay = out;
        }
      }
      else {
        sc_notify_payload (rec, snd, NULL, NULL, 1, notify);
      }
      for (i = 0; i < size; i++) {
        if (notifies (c->seed + (unsigned long) pass, i, rank)) {
          if (k < (int) snd->elem_count) {
            int                 got = *(int *) sc_array_index_int (snd, k);
            CHECK (got == i, "sender %d is %d, expected %d", k, got, i);
            if (pass && k < (int) pay->elem_count) {
              int                 pv = *(int *) sc_array_index_int (pay, k);
              CHECK (pv == 1000 * i + rank, "payload %d is %d, expected %d",
                     k, pv, 1000 * i + rank);
            }
          }
          k++;
        }
      }
      CHECK (k == (int) snd->elem_count, "number of senders %d, expected %d",
             (int) snd->elem_count, k);
      if (pass) {
        if (size == 1 && t == SC_NOTIFY_NARY
            && pay->elem_count != snd->elem_count) {
          /* libsc: sc_notify_payload_nary returns early for mpisize == 1
           * and never delivers the payload (sc_notify.c:1491-1504) */
          nknown++;
        }
        else {
          CHECK (pay->elem_count == snd->elem_count,
                 "payload count %d, senders %d", (int) pay->elem_count,
                 (int) snd->elem_count);
        }
        sc_array_destroy (pay);
      }
      if (rec != NULL) {
        sc_array_destroy (rec);
      }
      sc_array_destroy (snd);
      sc_notify_destroy (notify);
    }
  }
  snprintf (where, sizeof (where), "P=%d seed=%lu", size, c->seed);
}

static int
dcompare (const void *a, const void *b)
{
  double              x = *(const double *) a, y = *(const double *) b;
  return x < y ? -1 : x > y;
}

static void
test_psort (ctx_t * c, int rank, int size, sc_MPI_Comm comm)
{
  size_t             *nmemb = SC_ALLOC (size_t, size);
  int                *counts = SC_ALLOC (int, size);
  int                *displs = SC_ALLOC (int, size);
  int                 i, total = 0, off = 0;
  double             *mine, *all, *sorted;

  for (i = 0; i < size; i++) {
    nmemb[i] = mix (c->seed, 11, (unsigned) i) % 6;
    counts[i] = (int) nmemb[i];
    displs[i] = total;
    total += counts[i];
  }
  all = SC_ALLOC (double, total + 1);
  sorted = SC_ALLOC (double, total + 1);
  for (i = 0; i < total; i++) {
    all[i] = sorted[i] = (double) (mix (c->seed, 12, (unsigned) i) % 50);
  }
  qsort (sorted, (size_t) total, sizeof (double), dcompare);
  off = displs[rank];
  mine = SC_ALLOC (double, nmemb[rank] + 1);
  for (i = 0; i < counts[rank]; i++) {
    mine[i] = all[off + i];
  }
  sc_psort (comm, mine, nmemb, sizeof (double), dcompare);
  for (i = 0; i < counts[rank]; i++) {
    CHECK (mine[i] == sorted[off + i], "sc_psort item %d is %g, expected %g",
           off + i, mine[i], sorted[off + i]);
  }
  SC_FREE (mine);
  SC_FREE (all);
  SC_FREE (sorted);
  SC_FREE (nmemb);
  SC_FREE (counts);
  SC_FREE (displs);
}

static void
test_stats (ctx_t * c, int rank, int size, sc_MPI_Comm comm)
{
  sc_statinfo_t       st[2];
  int                 i, minat = 0, maxat = 0;
  double              sum = 0., mn = 1e300, mx = -1e300;

  for (i = 0; i < size; i++) {
    double              v = 1. + (double) (mix (c->seed, 21, (unsigned) i) % 97);
    sum += v;
    if (v < mn) {
      mn = v;
      minat = i;
    }
    if (v > mx) {
      mx = v;
      maxat = i;
    }
  }
  sc_stats_set1 (&st[0], 1. + (double) (mix (c->seed, 21, (unsigned) rank) % 97),
                 "a");
  sc_stats_set1 (&st[1], 3., "b");
  sc_stats_compute (comm, 2, st);
  CHECK (st[0].count == size, "stats count %ld", st[0].count);
  CHECK (st[0].min == mn && st[0].max == mx, "stats min/max %g %g expected %g %g",
         st[0].min, st[0].max, mn, mx);
  CHECK (st[0].sum_values == sum, "stats sum %g expected %g", st[0].sum_values,
         sum);
  CHECK (st[0].min_at_rank == minat
         || 1. + (double) (mix (c->seed, 21, (unsigned) st[0].min_at_rank) % 97) == mn,
         "stats min_at_rank %d expected %d", st[0].min_at_rank, minat);
  CHECK (st[0].max_at_rank == maxat
         || 1. + (double) (mix (c->seed, 21, (unsigned) st[0].max_at_rank) % 97) == mx,
         "stats max_at_rank %d expected %d", st[0].max_at_rank, maxat);
  CHECK (st[1].average == 3. && st[1].min == 3. && st[1].max == 3.,
         "stats of constant: %g %g %g", st[1].average, st[1].min, st[1].max);
}

static void
test_shmem (ctx_t * c, int rank, int size, sc_MPI_Comm world)
{
  int                 t, i, mpiret;
  sc_MPI_Comm         comm;

  for (t = 0; t < (int) SC_SHMEM_NUM_TYPES; t++) {
    long               *arr, mine, *pre;
    long                one;

    snprintf (where, sizeof (where), "P=%d seed=%lu shmem type %d", size,
              c->seed, t);
    mpiret = sc_MPI_Comm_dup (world, &comm);
    SC_CHECK_MPI (mpiret);
    sc_mpi_comm_attach_node_comms (comm, 0);
    sc_shmem_set_type (comm, (sc_shmem_type_t) t);
    CHECK (sc_shmem_get_type (comm) == (sc_shmem_type_t) t, "shmem type");

    arr = SC_SHMEM_ALLOC (long, (size_t) size, comm);
    mine = 5 + (long) (mix (c->seed, 31, (unsigned) rank) % 1000);
    sc_shmem_allgather (&mine, 1, sc_MPI_LONG, arr, 1, sc_MPI_LONG, comm);
    for (i = 0; i < size; i++) {
      CHECK (arr[i] == 5 + (long) (mix (c->seed, 31, (unsigned) i) % 1000),
             "sc_shmem_allgather entry %d is %ld", i, arr[i]);
    }
    SC_SHMEM_FREE (arr, comm);

    pre = SC_SHMEM_ALLOC (long, (size_t) size + 1, comm);
    one = rank + 1;
    sc_shmem_prefix (&one, pre, 1, sc_MPI_LONG, sc_MPI_SUM, comm);
    for (i = 0; i <= size; i++) {
      CHECK (pre[i] == (long) i * (i + 1) / 2, "sc_shmem_prefix entry %d is %ld",
             i, pre[i]);
    }
    SC_SHMEM_FREE (pre, comm);

    sc_mpi_comm_detach_node_comms (comm);
    mpiret = sc_MPI_Comm_free (&comm);
    SC_CHECK_MPI (mpiret);
  }
  snprintf (where, sizeof (where), "P=%d seed=%lu", size, c->seed);
}

static void
rank_main (int rank, int size, void *arg)
{
  ctx_t              *c = (ctx_t *) arg;
  sc_MPI_Comm         comm = sc_MPI_COMM_WORLD;

  if (c->only & 1) {
    test_allgather (c, rank, size, comm);
  }
  if (c->only & 2) {
    test_reduce (c, rank, size, comm);
  }
  if (c->only & 4) {
    test_notify (c, rank, size, comm);
  }
  if (c->only & 8) {
    test_psort (c, rank, size, comm);
  }
  if (c->only & 16) {
    test_stats (c, rank, size, comm);
  }
  if (c->only & 32) {
    test_shmem (c, rank, size, comm);
  }
}

#ifdef SMOKE_REAL_MPI
int
main (int argc, char **argv)
{
  int                 rank, size, s, nseeds = 3, opt, allfail = 0;
  long                allknown = 0;
  ctx_t               c;

  MPI_Init (&argc, &argv);
  MPI_Comm_rank (MPI_COMM_WORLD, &rank);
  MPI_Comm_size (MPI_COMM_WORLD, &size);
  c.only = -1;
  while ((opt = getopt (argc, argv, "qiebs:o:x:")) != -1) {
    switch (opt) {
    case 'i':
      inplace = 1;
      break;
    case 'e':
      allow_empty = 1;
      break;
    case 'b':
      back_to_back = 1;
      break;
    case 's':
      nseeds = atoi (optarg);
      break;
    case 'o':
      c.only = atoi (optarg);
      break;
    case 'x':
      exclude_type = atoi (optarg);
      break;
    default:
      break;
    }
  }
  sc_init (MPI_COMM_WORLD, 0, 0, NULL, SC_LP_SILENT);
  nprocs = size;
  for (s = 0; s < nseeds; s++) {
    c.P = size;
    c.seed = 1000UL * (unsigned long) s + (unsigned long) size;
    snprintf (where, sizeof (where), "P=%d seed=%lu", size, c.seed);
    rank_main (rank, size, &c);
  }
  MPI_Allreduce (&nfail, &allfail, 1, MPI_INT, MPI_SUM, MPI_COMM_WORLD);
  MPI_Allreduce (&nknown, &allknown, 1, MPI_LONG, MPI_SUM, MPI_COMM_WORLD);
  if (rank == 0) {
    printf ("libsc_smoke (real MPI): P=%d, %d seeds, %d failed checks, %ld tolerated known libsc findings\n",
            size, nseeds, allfail, allknown);
  }
  sc_finalize ();
  MPI_Finalize ();
  return allfail ? 1 : 0;
}
#else
int
main (int argc, char **argv)
{
  static const int    defP[] = { 1, 2, 3, 5, 8, 9, 17 };
  int                 Plist[64], nP = 0, nseeds = 3, adv = -1, i, a, s, opt;
  int                 runs = 0, bad = 0, only = -1;
  long                steps = 0;
  const char         *trace = NULL;
  ctx_t               c;

  while ((opt = getopt (argc, argv, "qienwbP:s:a:t:o:x:")) != -1) {
    switch (opt) {
    case 'q':
      quiet = 1;
      break;
    case 'i':
      inplace = 1;
      break;
    case 'e':
      allow_empty = 1;
      break;
    case 'b':
      back_to_back = 1;
      break;
    case 'n':
      noncontig = 1;
      break;
    case 'w':
      warnfail = 1;
      break;
    case 'P':
      {
        char               *p = optarg;
        while (*p && nP < 64) {
          Plist[nP++] = (int) strtol (p, &p, 10);
          if (*p == ',') {
            p++;
          }
        }
      }
      break;
    case 's':
      nseeds = atoi (optarg);
      break;
    case 'a':
      adv = atoi (optarg);
      break;
    case 't':
      trace = optarg;
      break;
    case 'o':
      only = atoi (optarg);
      break;
    case 'x':
      exclude_type = atoi (optarg);
      break;
    default:
      return 2;
    }
  }
  if (nP == 0) {
    for (i = 0; i < (int) (sizeof (defP) / sizeof (defP[0])); i++) {
      Plist[nP++] = defP[i];
    }
  }
  sc_init (sc_MPI_COMM_NULL, 0, 0, NULL, SC_LP_SILENT);
  sc_set_abort_handler (simmpi_abort_handler);

  for (i = 0; i < nP; i++) {
    for (s = 0; s < nseeds; s++) {
      for (a = 0; a < SIMMPI_NUM_ADVERSARIES; a++) {
        simmpi_opts         o;
        simmpi_report       rep;
        int                 rc, P = Plist[i], before = nfail;
        int                 membefore = sc_memory_status (-1);

        if (adv >= 0 && a != adv) {
          continue;
        }
        simmpi_opts_default (&o);
        o.nranks = P;
        o.seed = 1000UL * (unsigned long) s + (unsigned long) P;
        o.adversary = a;
        o.trace_path = trace;
        /* node layout: vary with the seed, keep equal node sizes possible */
        o.ppn = s % 3 == 0 ? 0 : (P % 4 == 0 ? 4 : (P % 3 == 0 ? 3 : 1));
        o.noncontig_nodes = noncontig ? s % 2 == 0 : 0;
        nprocs = P;
        c.P = P;
        c.seed = o.seed;
        c.only = only;
        snprintf (where, sizeof (where), "P=%d seed=%lu", P, c.seed);
        rc = simmpi_run (&o, rank_main, &c, &rep);
        runs++;
        steps += rep.steps;
        nwarn += rep.nwarnings;
        if (rc != SIMMPI_OK || nfail != before || (warnfail && rep.nwarnings > 0)) {
          bad++;
          fprintf (stderr,
                   "RUN FAILED: P=%d seed=%lu adversary=%d ppn=%d noncontig=%d rc=%s checks failed=%d\n%s\n",
                   P, o.seed, a, o.ppn, o.noncontig_nodes,
                   simmpi_code_name (rc), nfail - before, rep.text);
        }
        if (rc == SIMMPI_OK && sc_memory_status (-1) != membefore) {
          bad++;
          fprintf (stderr, "libsc allocations left after run P=%d seed=%lu adversary=%d\n",
                   P, o.seed, a);
        }
        simmpi_report_free (&rep);
      }
    }
  }
  if (!quiet || bad) {
    printf ("libsc_smoke: %d runs, %ld scheduler steps, %d failed runs, %d failed checks, %ld simmpi warnings, %ld tolerated known libsc findings\n",
            runs, steps, bad, nfail, nwarn, nknown);
  }
  if (bad == 0) {
    sc_finalize ();
  }
  return bad ? 1 : 0;
}
#endif /* !SMOKE_REAL_MPI */
