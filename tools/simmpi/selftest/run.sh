#!/bin/sh
# Selftests of simmpi.  Exit status 0 when everything passes.
#   selftest/run.sh [quick]
# 1. plain MPI programs under simmpi (P = 1..7, every adversary, several seeds,
#    ASan+UBSan) and, when mpicc/mpirun exist, under Open MPI: outputs must agree
# 2. simmpi specific tests: detection of broken programs, replay, many runs
# 3. the libsc smoke test (selftest/smoke.py)
set -u
HERE=$(cd "$(dirname "$0")" && pwd)
TOP=$(dirname "$HERE")
B=$TOP/build/selftest
QUICK=${1:-}
mkdir -p "$B"
CC=${CC:-gcc}
CFL="-std=gnu99 -g -O1 -Wall -Wextra -fsanitize=address,undefined -fno-sanitize-recover=undefined -I$TOP"
fail=0
note() { echo "[selftest] $*"; }

$CC $CFL -c "$TOP/simmpi.c" -o "$B/simmpi.o" || exit 1
$CC $CFL -c "$HERE/simmain.c" -o "$B/simmain.o" || exit 1

PLAIN="t_pingpong t_wildcard t_nbx t_coll t_userop t_comm t_win t_pack"
HAVE_MPI=0
if command -v mpicc >/dev/null 2>&1 && command -v mpirun >/dev/null 2>&1; then HAVE_MPI=1; fi
if [ "$QUICK" = quick ]; then SEEDS="1 2"; else SEEDS="1 2 3 4 5"; fi

for t in $PLAIN; do
  $CC $CFL "$HERE/$t.c" "$B/simmain.o" "$B/simmpi.o" -o "$B/$t" || { fail=1; continue; }
  if [ $HAVE_MPI = 1 ]; then
    mpicc -std=gnu99 -O1 -g -DREAL_MPI "$HERE/$t.c" -o "$B/$t.real" 2>"$B/$t.mpicc.log" || { note "$t: mpicc failed"; cat "$B/$t.mpicc.log"; fail=1; }
  fi
  nrun=0
  for P in 1 2 3 4 5 6 7; do
    ref=""
    for a in 0 1 2 3 4 5 6 7; do
      for s in $SEEDS; do
        out=$("$B/$t" -n $P -s $s -a $a -p $(( (s % 3) )) 2>"$B/$t.err")
        rc=$?
        nrun=$((nrun + 1))
        if [ $rc != 0 ]; then
          note "$t FAILED: P=$P adversary=$a seed=$s rc=$rc"; cat "$B/$t.err"; fail=1
        fi
        if [ -z "$ref" ]; then ref=$out; fi
        if [ "$out" != "$ref" ]; then
          note "$t: output differs between schedules: P=$P adversary=$a seed=$s: '$out' vs '$ref'"; fail=1
        fi
      done
    done
    if [ $HAVE_MPI = 1 ] && [ $t = t_win ] && [ $P = 1 ]; then
      : # Open MPI's one-sided component refuses MPI_Win_create on a single process in this sandbox
    elif [ $HAVE_MPI = 1 ] && [ -x "$B/$t.real" ]; then
      real=$(mpirun --allow-run-as-root --oversubscribe -np $P "$B/$t.real" 2>"$B/$t.real.err")
      rc=$?
      if [ $rc != 0 ]; then
        note "$t under Open MPI FAILED: P=$P rc=$rc"; cat "$B/$t.real.err"; fail=1
      elif [ "$real" != "$ref" ]; then
        note "$t: simmpi and Open MPI disagree for P=$P: '$ref' vs '$real'"; fail=1
      fi
    fi
  done
  note "$t: $nrun simulated runs, P=1..7$( [ $HAVE_MPI = 1 ] && echo ', output equal to Open MPI')"
done

# NBX and wildcard patterns on larger and odd sizes
for P in 13 32; do
  for a in 0 1 2 3 4 5 6 7; do
    "$B/t_nbx" -n $P -s $a -a $a >/dev/null 2>"$B/t_nbx.err" || { note "t_nbx FAILED P=$P adversary=$a"; cat "$B/t_nbx.err"; fail=1; }
    "$B/t_wildcard" -n $P -s $a -a $a >/dev/null 2>"$B/t_wildcard.err" || { note "t_wildcard FAILED P=$P adversary=$a"; cat "$B/t_wildcard.err"; fail=1; }
  done
done
note "t_nbx, t_wildcard: P=13,32 under every adversary"

# node layouts for the shared memory tests
for opt in "-p 2" "-p 2 -r" "-p 3" "-p 3 -r" "-p 1"; do
  for P in 4 6 7; do
    "$B/t_win" -n $P -s 3 $opt >/dev/null 2>"$B/t_win.err" || { note "t_win FAILED P=$P $opt"; cat "$B/t_win.err"; fail=1; }
    "$B/t_comm" -n $P -s 3 $opt >/dev/null 2>"$B/t_comm.err" || { note "t_comm FAILED P=$P $opt"; cat "$B/t_comm.err"; fail=1; }
  done
done
note "t_win, t_comm: node layouts ppn=1,2,3 contiguous and round robin"

for t in t_detect t_replay t_many; do
  $CC $CFL "$HERE/$t.c" "$B/simmpi.o" -o "$B/$t" || { fail=1; continue; }
done
"$B/t_detect" 2>&1 || { note "t_detect FAILED"; fail=1; }
"$B/t_replay" "$B" 2>&1 || { note "t_replay FAILED"; fail=1; }
if [ "$QUICK" = quick ]; then "$B/t_many" 300 || fail=1; else "$B/t_many" 2000 || { note "t_many FAILED"; fail=1; }; fi

# simmpi.c without sanitizers as well
$CC -std=gnu99 -O2 -g -I"$TOP" "$HERE/t_many.c" "$TOP/simmpi.c" -o "$B/t_many_fast" && "$B/t_many_fast" 3000 || { note "t_many (no sanitizers) FAILED"; fail=1; }

if [ -z "${SIMMPI_SKIP_LIBSC:-}" ]; then
  python3 "$HERE/smoke.py" $QUICK || { note "libsc smoke test FAILED"; fail=1; }
fi

if [ $fail = 0 ]; then note "ALL SELFTESTS PASSED"; else note "SELFTESTS FAILED"; fi
exit $fail
