/* user-defined reduction operations: commutative (any order/association must
 * give the same result) and non-commutative (rank order is kept) */
#include "realmain.h"

typedef struct
{
  long                mn, mx, sum, cnt;
}
acc_t;

static void
acc_fn (void *in, void *inout, int *len, MPI_Datatype * dt)
{
  acc_t              *a = (acc_t *) in, *b = (acc_t *) inout;
  int                 i;
  (void) dt;
  for (i = 0; i < *len; i++) {
    b[i].mn = a[i].mn < b[i].mn ? a[i].mn : b[i].mn;
    b[i].mx = a[i].mx > b[i].mx ? a[i].mx : b[i].mx;
    b[i].sum += a[i].sum;
    b[i].cnt += a[i].cnt;
  }
}

/* composition of affine maps x -> p*x + q modulo M: associative, not
 * commutative.  inout = in o inout means: apply in first?  MPI computes
 * inout[i] = in[i] op inout[i] with in the lower ranks. */
#define M 1000003L
static void
aff_fn (void *in, void *inout, int *len, MPI_Datatype * dt)
{
  long               *a = (long *) in, *b = (long *) inout;
  int                 i;
  (void) dt;
  for (i = 0; i < *len; i++) {
    /* (a op b)(x) = b (a (x)) */
    long                p = (a[2 * i] * b[2 * i]) % M;
    long                q = (b[2 * i] * a[2 * i + 1] + b[2 * i + 1]) % M;
    b[2 * i] = p;
    b[2 * i + 1] = q;
  }
}

int
test_main (void)
{
  int                 rank, size, j;
  MPI_Datatype        tacc, taff;
  MPI_Op              oacc, oaff;
  acc_t               a[2], r[2];
  long                f[2], g[2], p, q;

  MPI_Comm_rank (MPI_COMM_WORLD, &rank);
  MPI_Comm_size (MPI_COMM_WORLD, &size);
  MPI_Type_contiguous (4, MPI_LONG, &tacc);
  MPI_Type_commit (&tacc);
  MPI_Type_contiguous (2, MPI_LONG, &taff);
  MPI_Type_commit (&taff);
  MPI_Op_create (acc_fn, 1, &oacc);
  MPI_Op_create (aff_fn, 0, &oaff);

  for (j = 0; j < 2; j++) {
    long                v = (rank * 17 + j * 5) % 23 - 7;
    a[j].mn = a[j].mx = a[j].sum = v;
    a[j].cnt = 1;
  }
  MPI_Allreduce (a, r, 2, tacc, oacc, MPI_COMM_WORLD);
  for (j = 0; j < 2; j++) {
    long                mn = 1 << 30, mx = -(1 << 30), sum = 0;
    int                 k;
    for (k = 0; k < size; k++) {
      long                v = (k * 17 + j * 5) % 23 - 7;
      mn = v < mn ? v : mn;
      mx = v > mx ? v : mx;
      sum += v;
    }
    TCHECK (r[j].mn == mn && r[j].mx == mx && r[j].sum == sum && r[j].cnt == size,
            "commutative user op: %ld %ld %ld %ld", r[j].mn, r[j].mx, r[j].sum, r[j].cnt);
  }
  memset (r, 0, sizeof (r));
  MPI_Reduce (a, r, 2, tacc, oacc, size - 1, MPI_COMM_WORLD);
  if (rank == size - 1) {
    TCHECK (r[0].cnt == size && r[1].cnt == size, "Reduce user op");
  }
  MPI_Scan (a, r, 1, tacc, oacc, MPI_COMM_WORLD);
  TCHECK (r[0].cnt == rank + 1, "Scan user op");

  /* non-commutative: the result must be f_{size-1} o ... o f_0 */
  f[0] = rank + 2;
  f[1] = 3 * rank + 1;
  MPI_Allreduce (f, g, 1, taff, oaff, MPI_COMM_WORLD);
  p = 1;
  q = 0;
  for (j = 0; j < size; j++) {
    long                fp = j + 2, fq = 3 * j + 1;
    q = (fp * q + fq) % M;
    p = (p * fp) % M;
  }
  TCHECK (g[0] == p && g[1] == q, "non-commutative user op: %ld %ld, expected %ld %ld",
          g[0], g[1], p, q);
  MPI_Scan (f, g, 1, taff, oaff, MPI_COMM_WORLD);
  p = 1;
  q = 0;
  for (j = 0; j <= rank; j++) {
    long                fp = j + 2, fq = 3 * j + 1;
    q = (fp * q + fq) % M;
    p = (p * fp) % M;
  }
  TCHECK (g[0] == p && g[1] == q, "non-commutative Scan");

  MPI_Op_free (&oacc);
  MPI_Op_free (&oaff);
  MPI_Type_free (&tacc);
  MPI_Type_free (&taff);
  TCHECK (oacc == MPI_OP_NULL, "Op_free");
  if (rank == 0) {
    printf ("userop size %d result %ld %ld\n", size, p, r[0].cnt);
  }
  return 0;
}
