/* one-sided: Win_create + fence + Accumulate; Win_allocate_shared +
 * Win_shared_query + Win_lock/unlock */
#include "realmain.h"

int
test_main (void)
{
  int                 rank, size, i, nrank, nsize;
  int                *cnt;
  MPI_Win             win;
  MPI_Comm            node;

  MPI_Comm_rank (MPI_COMM_WORLD, &rank);
  MPI_Comm_size (MPI_COMM_WORLD, &size);

  /* remote summation: rank i adds i+1 to the counter of every j with (i+j) even */
  MPI_Alloc_mem (2 * sizeof (int), MPI_INFO_NULL, &cnt);
  cnt[0] = cnt[1] = 0;
  MPI_Win_create (cnt, 2 * sizeof (int), sizeof (int), MPI_INFO_NULL, MPI_COMM_WORLD, &win);
  MPI_Win_fence (MPI_MODE_NOPRECEDE, win);
  for (i = 0; i < size; i++) {
    if ((i + rank) % 2 == 0) {
      int                 v[2];
      v[0] = rank + 1;
      v[1] = 1;
      MPI_Accumulate (v, 2, MPI_INT, i, 0, 2, MPI_INT, MPI_SUM, win);
    }
  }
  MPI_Win_fence (MPI_MODE_NOSTORE | MPI_MODE_NOSUCCEED, win);
  {
    int                 es = 0, ec = 0;
    for (i = 0; i < size; i++) {
      if ((i + rank) % 2 == 0) {
        es += i + 1;
        ec++;
      }
    }
    TCHECK (cnt[0] == es && cnt[1] == ec, "Accumulate: %d %d expected %d %d", cnt[0], cnt[1], es, ec);
  }
  MPI_Win_free (&win);
  TCHECK (win == MPI_WIN_NULL, "Win_free");
  MPI_Free_mem (cnt);

  /* shared window on the node: rank 0 of the node owns the memory */
  MPI_Comm_split_type (MPI_COMM_WORLD, MPI_COMM_TYPE_SHARED, rank, MPI_INFO_NULL, &node);
  MPI_Comm_rank (node, &nrank);
  MPI_Comm_size (node, &nsize);
  {
    long               *base = NULL, *shared = NULL;
    MPI_Aint            sz = 0;
    int                 du = 0;
    MPI_Win_allocate_shared (nrank == 0 ? (MPI_Aint) (nsize * sizeof (long)) : 0, sizeof (long),
                             MPI_INFO_NULL, node, &base, &win);
    MPI_Win_shared_query (win, 0, &sz, &du, &shared);
    TCHECK (sz == (MPI_Aint) (nsize * sizeof (long)) && du == (int) sizeof (long), "shared query");
    TCHECK (nrank != 0 || shared == base, "base of the owner");
    /* everybody writes its slot under an exclusive lock, in turn */
    MPI_Win_lock (MPI_LOCK_EXCLUSIVE, 0, 0, win);
    shared[nrank] = 100 + rank;
    MPI_Win_unlock (0, win);
    MPI_Barrier (node);
    MPI_Win_lock (MPI_LOCK_SHARED, 0, MPI_MODE_NOCHECK, win);
    for (i = 0; i < nsize; i++) {
      TCHECK (shared[i] >= 100 && shared[i] < 100 + size, "shared memory content");
    }
    TCHECK (shared[nrank] == 100 + rank, "own slot");
    MPI_Win_unlock (0, win);
    MPI_Barrier (node);
    MPI_Win_free (&win);
  }
  MPI_Comm_free (&node);
  MPI_Barrier (MPI_COMM_WORLD);
  if (rank == 0) {
    printf ("win size %d ok\n", size);
  }
  return 0;
}
