/* same seed => byte-identical trace; a decision log replays a run exactly,
 * whatever seed and adversary are given to the replaying run */
#include <mpi.h>
#include <simmpi.h>
#include <stdio.h>
#include <stdlib.h>
#include <string.h>

static void
fn (int rank, int size, void *arg)
{
  int                 i, sum = 0, v;
  MPI_Request        *rq = (MPI_Request *) malloc ((size_t) (2 * size) * sizeof (MPI_Request));
  int                *in = (int *) malloc ((size_t) size * sizeof (int));
  int                 out = rank * 3 + 1, nd = 0;

  (void) arg;
  /* wildcard receives, Waitsome, polls, collectives: all decision kinds */
  for (i = 0; i < size; i++) {
    MPI_Irecv (&in[i], 1, MPI_INT, MPI_ANY_SOURCE, 1, MPI_COMM_WORLD, &rq[i]);
    MPI_Isend (&out, 1, MPI_INT, i, 1, MPI_COMM_WORLD, &rq[size + i]);
  }
  while (nd < 2 * size) {
    int                 oc, *idx = (int *) malloc ((size_t) (2 * size) * sizeof (int));
    MPI_Waitsome (2 * size, rq, &oc, idx, MPI_STATUSES_IGNORE);
    nd += oc;
    free (idx);
  }
  for (i = 0; i < size; i++) {
    sum += in[i];
  }
  MPI_Allreduce (&sum, &v, 1, MPI_INT, MPI_SUM, MPI_COMM_WORLD);
  if (rank == 0) {
    for (i = 1; i < size; i++) {
      MPI_Status          st;
      int                 flag = 0;
      while (!flag) {
        MPI_Iprobe (MPI_ANY_SOURCE, 2, MPI_COMM_WORLD, &flag, &st);
      }
      MPI_Recv (&v, 1, MPI_INT, st.MPI_SOURCE, 2, MPI_COMM_WORLD, MPI_STATUS_IGNORE);
    }
  }
  else {
    MPI_Send (&rank, 1, MPI_INT, 0, 2, MPI_COMM_WORLD);
  }
  MPI_Bcast (&v, 1, MPI_INT, 0, MPI_COMM_WORLD);
  free (rq);
  free (in);
}

static char        *
slurp (const char *path, long *n)
{
  FILE               *f = fopen (path, "rb");
  char               *p;
  if (f == NULL) {
    *n = -1;
    return NULL;
  }
  fseek (f, 0, SEEK_END);
  *n = ftell (f);
  fseek (f, 0, SEEK_SET);
  p = (char *) malloc ((size_t) *n + 1);
  if (fread (p, 1, (size_t) *n, f) != (size_t) *n) {
    *n = -1;
  }
  fclose (f);
  return p;
}

static int
same (const char *a, const char *b)
{
  long                na, nb;
  char               *pa = slurp (a, &na), *pb = slurp (b, &nb);
  int                 eq = na >= 0 && na == nb && memcmp (pa, pb, (size_t) na) == 0 && na > 0;
  free (pa);
  free (pb);
  return eq;
}

int
main (int argc, char **argv)
{
  const char         *dir = argc > 1 ? argv[1] : "/tmp";
  char                t1[512], t2[512], t3[512], d1[512], d3[512], dbad[512];
  int                 bad = 0, P, adv;
  unsigned long       seed;

  snprintf (t1, sizeof (t1), "%s/replay_t1.jsonl", dir);
  snprintf (t2, sizeof (t2), "%s/replay_t2.jsonl", dir);
  snprintf (t3, sizeof (t3), "%s/replay_t3.jsonl", dir);
  snprintf (d1, sizeof (d1), "%s/replay_d1.log", dir);
  snprintf (d3, sizeof (d3), "%s/replay_d3.log", dir);
  snprintf (dbad, sizeof (dbad), "%s/replay_dbad.log", dir);
  for (P = 1; P <= 6; P++) {
    for (adv = 0; adv < SIMMPI_NUM_ADVERSARIES; adv++) {
      for (seed = 1; seed <= 3; seed++) {
        simmpi_opts         o;
        simmpi_report       rep;
        int                 rc;
        long                dec;

        simmpi_opts_default (&o);
        o.nranks = P;
        o.seed = seed * 77;
        o.adversary = adv;
        o.trace_path = t1;
        o.decision_log = d1;
        rc = simmpi_run (&o, fn, NULL, &rep);
        dec = rep.decisions;
        if (rc != SIMMPI_OK) {
          bad++;
          fprintf (stderr, "t_replay: first run failed\n%s", rep.text);
        }
        simmpi_report_free (&rep);
        /* same seed again */
        o.trace_path = t2;
        o.decision_log = NULL;
        rc = simmpi_run (&o, fn, NULL, &rep);
        if (rc != SIMMPI_OK || !same (t1, t2)) {
          bad++;
          fprintf (stderr, "t_replay: same seed, different trace (P=%d adv=%d seed=%lu)\n", P, adv, o.seed);
        }
        simmpi_report_free (&rep);
        /* replay with another seed and adversary */
        o.seed = 999999;
        o.adversary = (adv + 3) % SIMMPI_NUM_ADVERSARIES;
        o.trace_path = t3;
        o.decision_log = d3;
        o.replay_log = d1;
        rc = simmpi_run (&o, fn, NULL, &rep);
        if (rc != SIMMPI_OK || !same (t1, t3) || rep.decisions != dec) {
          bad++;
          fprintf (stderr, "t_replay: replay differs (P=%d adv=%d seed=%lu) rc=%s\n%s", P, adv, seed * 77,
                   simmpi_code_name (rc), rep.text);
        }
        simmpi_report_free (&rep);
        /* a different seed without replay gives (for P > 2) another schedule */
        /* a truncated log is detected */
        if (P >= 3 && dec > 10) {
          long                n;
          char               *p = slurp (d1, &n);
          FILE               *f = fopen (dbad, "wb");
          fwrite (p, 1, (size_t) (n / 2), f);
          fclose (f);
          free (p);
          o.replay_log = dbad;
          o.trace_path = NULL;
          o.decision_log = NULL;
          rc = simmpi_run (&o, fn, NULL, &rep);
          if (rc != SIMMPI_REPLAY_DIVERGED) {
            bad++;
            fprintf (stderr, "t_replay: truncated log not detected: %s\n", simmpi_code_name (rc));
          }
          simmpi_report_free (&rep);
        }
      }
    }
  }
  remove (t1);
  remove (t2);
  remove (t3);
  remove (d1);
  remove (d3);
  remove (dbad);
  if (!bad) {
    printf ("t_replay ok\n");
  }
  return bad != 0;
}
