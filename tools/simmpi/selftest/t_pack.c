/* Pack / Unpack / Pack_size, message sent as MPI_PACKED */
#include "realmain.h"

int
test_main (void)
{
  int                 rank, size, pos = 0, psz = 0, tot = 0;
  char                buf[256], c = 'x', c2 = 0;
  int                 iv[3] = { 1, -2, 3 }, iw[3] = { 0, 0, 0 };
  double              d = 2.5, d2 = 0.;

  MPI_Comm_rank (MPI_COMM_WORLD, &rank);
  MPI_Comm_size (MPI_COMM_WORLD, &size);
  MPI_Pack_size (3, MPI_INT, MPI_COMM_WORLD, &psz);
  tot += psz;
  TCHECK (psz >= 12, "Pack_size");
  MPI_Pack_size (1, MPI_DOUBLE, MPI_COMM_WORLD, &psz);
  tot += psz;
  MPI_Pack_size (1, MPI_CHAR, MPI_COMM_WORLD, &psz);
  tot += psz;
  TCHECK (tot <= (int) sizeof (buf), "buffer");
  iv[0] = rank;
  MPI_Pack (iv, 3, MPI_INT, buf, sizeof (buf), &pos, MPI_COMM_WORLD);
  MPI_Pack (&d, 1, MPI_DOUBLE, buf, sizeof (buf), &pos, MPI_COMM_WORLD);
  MPI_Pack (&c, 1, MPI_CHAR, buf, sizeof (buf), &pos, MPI_COMM_WORLD);
  TCHECK (pos <= tot, "position %d", pos);
  {
    char                rbuf[256];
    MPI_Request         rq;
    MPI_Status          st;
    int                 n, p2 = 0, from = (rank + size - 1) % size;
    MPI_Irecv (rbuf, sizeof (rbuf), MPI_PACKED, from, 9, MPI_COMM_WORLD, &rq);
    MPI_Send (buf, pos, MPI_PACKED, (rank + 1) % size, 9, MPI_COMM_WORLD);
    MPI_Wait (&rq, &st);
    MPI_Get_count (&st, MPI_PACKED, &n);
    TCHECK (n == pos, "packed size %d", n);
    MPI_Unpack (rbuf, n, &p2, iw, 3, MPI_INT, MPI_COMM_WORLD);
    MPI_Unpack (rbuf, n, &p2, &d2, 1, MPI_DOUBLE, MPI_COMM_WORLD);
    MPI_Unpack (rbuf, n, &p2, &c2, 1, MPI_CHAR, MPI_COMM_WORLD);
    TCHECK (iw[0] == from && iw[1] == -2 && iw[2] == 3 && d2 == 2.5 && c2 == 'x' && p2 == n, "unpacked values");
  }
  if (rank == 0) {
    printf ("pack size %d ok\n", size);
  }
  return 0;
}
