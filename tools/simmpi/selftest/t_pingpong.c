/* ping-pong between rank 0 and every other rank, blocking and nonblocking */
#include "realmain.h"

int
test_main (void)
{
  int                 rank, size, i, k;
  long                sum = 0;

  MPI_Comm_rank (MPI_COMM_WORLD, &rank);
  MPI_Comm_size (MPI_COMM_WORLD, &size);
  for (k = 0; k < 3; k++) {
    if (rank == 0) {
      for (i = 1; i < size; i++) {
        int                 v[2], w[2];
        MPI_Status          st;
        v[0] = k;
        v[1] = i;
        MPI_Send (v, 2, MPI_INT, i, 10 + k, MPI_COMM_WORLD);
        MPI_Recv (w, 2, MPI_INT, i, 20 + k, MPI_COMM_WORLD, &st);
        TCHECK (w[0] == k + 1000 && w[1] == i * i, "bad pong %d %d", w[0], w[1]);
        TCHECK (st.MPI_SOURCE == i && st.MPI_TAG == 20 + k, "bad status");
        sum += w[1];
      }
    }
    else {
      int                 v[2], cnt;
      MPI_Status          st;
      MPI_Request         rq;
      MPI_Irecv (v, 2, MPI_INT, 0, 10 + k, MPI_COMM_WORLD, &rq);
      MPI_Wait (&rq, &st);
      MPI_Get_count (&st, MPI_INT, &cnt);
      TCHECK (cnt == 2 && v[0] == k && v[1] == rank, "bad ping");
      TCHECK (rq == MPI_REQUEST_NULL, "request not reset");
      v[0] += 1000;
      v[1] = rank * rank;
      MPI_Isend (v, 2, MPI_INT, 0, 20 + k, MPI_COMM_WORLD, &rq);
      MPI_Wait (&rq, MPI_STATUS_IGNORE);
    }
  }
  /* zero-size messages, MPI_PROC_NULL, self messages */
  {
    MPI_Request         rq[2];
    int                 a = rank, b = -1;
    MPI_Status          st;
    MPI_Send (NULL, 0, MPI_BYTE, MPI_PROC_NULL, 1, MPI_COMM_WORLD);
    MPI_Recv (NULL, 0, MPI_BYTE, MPI_PROC_NULL, 1, MPI_COMM_WORLD, &st);
    TCHECK (st.MPI_SOURCE == MPI_PROC_NULL, "proc null status");
    MPI_Irecv (&b, 1, MPI_INT, rank, 5, MPI_COMM_WORLD, &rq[0]);
    MPI_Isend (&a, 1, MPI_INT, rank, 5, MPI_COMM_WORLD, &rq[1]);
    MPI_Waitall (2, rq, MPI_STATUSES_IGNORE);
    TCHECK (b == rank, "self message");
    MPI_Isend (NULL, 0, MPI_BYTE, (rank + 1) % size, 6, MPI_COMM_WORLD, &rq[0]);
    MPI_Recv (NULL, 0, MPI_BYTE, (rank + size - 1) % size, 6, MPI_COMM_WORLD, &st);
    MPI_Get_count (&st, MPI_BYTE, &b);
    TCHECK (b == 0, "zero size count");
    MPI_Wait (&rq[0], MPI_STATUS_IGNORE);
  }
  if (rank == 0) {
    printf ("pingpong size %d sum %ld\n", size, sum);
  }
  return 0;
}
