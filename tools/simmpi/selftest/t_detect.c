/* simmpi must recognise broken programs: deadlock, endless polling, leftover
 * messages and requests, aborts, leaks, collective mismatches, step guard */
#include <mpi.h>
#include <simmpi.h>
#include <stdio.h>
#include <stdlib.h>
#include <string.h>

static int          bad = 0;

static void
expect (const char *name, simmpi_main_t fn, int P, int adversary, int want,
        const char *needle)
{
  unsigned long       seed;

  for (seed = 0; seed < 6; seed++) {
    simmpi_opts         o;
    simmpi_report       rep;
    int                 rc;

    simmpi_opts_default (&o);
    o.nranks = P;
    o.seed = seed;
    o.adversary = adversary >= 0 ? adversary : (int) (seed % SIMMPI_NUM_ADVERSARIES);
    o.max_steps = 200000;
    rc = simmpi_run (&o, fn, NULL, &rep);
    if (rc != want || (needle != NULL && strstr (rep.text, needle) == NULL)) {
      bad++;
      fprintf (stderr, "t_detect %s (P=%d seed=%lu adversary=%d): got %s, want %s%s%s\n%s\n",
               name, P, seed, o.adversary, simmpi_code_name (rc), simmpi_code_name (want),
               needle ? " with text " : "", needle ? needle : "", rep.text);
    }
    simmpi_report_free (&rep);
  }
}

static void
f_deadlock_recv (int rank, int size, void *arg)
{
  int                 v = rank, w;
  (void) arg;
  if (rank < 2) {
    MPI_Recv (&w, 1, MPI_INT, 1 - rank, 0, MPI_COMM_WORLD, MPI_STATUS_IGNORE);
    MPI_Send (&v, 1, MPI_INT, 1 - rank, 0, MPI_COMM_WORLD);
  }
  (void) size;
}

static void
f_deadlock_ssend (int rank, int size, void *arg)
{
  int                 v = rank, w;
  (void) arg;
  (void) size;
  if (rank < 2) {
    /* head to head synchronous sends */
    MPI_Ssend (&v, 1, MPI_INT, 1 - rank, 0, MPI_COMM_WORLD);
    MPI_Recv (&w, 1, MPI_INT, 1 - rank, 0, MPI_COMM_WORLD, MPI_STATUS_IGNORE);
  }
}

static void
f_unsafe_send (int rank, int size, void *arg)
{
  int                 v = rank, w;
  (void) arg;
  (void) size;
  /* head to head standard sends: correct only if the sends are buffered */
  MPI_Send (&v, 1, MPI_INT, 1 - rank, 0, MPI_COMM_WORLD);
  MPI_Recv (&w, 1, MPI_INT, 1 - rank, 0, MPI_COMM_WORLD, MPI_STATUS_IGNORE);
}

static void
f_deadlock_barrier (int rank, int size, void *arg)
{
  (void) arg;
  (void) size;
  if (rank != 1) {
    MPI_Barrier (MPI_COMM_WORLD);
  }
}

static void
f_deadlock_wait (int rank, int size, void *arg)
{
  int                 w;
  MPI_Request         rq;
  (void) arg;
  (void) size;
  if (rank == 0) {
    MPI_Irecv (&w, 1, MPI_INT, 1, 7, MPI_COMM_WORLD, &rq);
    MPI_Wait (&rq, MPI_STATUS_IGNORE);
  }
}

static void
f_livelock (int rank, int size, void *arg)
{
  (void) arg;
  (void) size;
  if (rank == 0) {
    int                 flag = 0;
    while (!flag) {
      MPI_Iprobe (MPI_ANY_SOURCE, 3, MPI_COMM_WORLD, &flag, MPI_STATUS_IGNORE);
    }
  }
  else {
    MPI_Barrier (MPI_COMM_WORLD);       /* rank 0 never comes */
  }
}

static void
f_livelock_test (int rank, int size, void *arg)
{
  (void) arg;
  (void) size;
  if (rank == 0) {
    /* Ibarrier that the others never enter, polled for ever */
    MPI_Request         rq;
    int                 flag = 0;
    MPI_Ibarrier (MPI_COMM_WORLD, &rq);
    while (!flag) {
      MPI_Test (&rq, &flag, MPI_STATUS_IGNORE);
    }
  }
}

static void
f_polls_then_gives_up (int rank, int size, void *arg)
{
  (void) arg;
  (void) size;
  if (rank == 0) {
    /* hopeless polls, but only a few: not a livelock */
    int                 flag = 0, i;
    for (i = 0; i < 10 && !flag; i++) {
      MPI_Iprobe (MPI_ANY_SOURCE, 3, MPI_COMM_WORLD, &flag, MPI_STATUS_IGNORE);
    }
  }
  MPI_Barrier (MPI_COMM_WORLD);
}

static void
f_leftover_msg (int rank, int size, void *arg)
{
  int                 v = 5;
  MPI_Request         rq;
  (void) arg;
  (void) size;
  if (rank == 0) {
    MPI_Isend (&v, 1, MPI_INT, 1, 9, MPI_COMM_WORLD, &rq);
    MPI_Barrier (MPI_COMM_WORLD);
  }
  else {
    MPI_Barrier (MPI_COMM_WORLD);
  }
}

static int          lo_buf;

static void
f_leftover_req (int rank, int size, void *arg)
{
  MPI_Request         rq;
  (void) arg;
  (void) size;
  if (rank == 0) {
    MPI_Irecv (&lo_buf, 1, MPI_INT, 1, 9, MPI_COMM_WORLD, &rq);
  }
}

static void
f_abort (int rank, int size, void *arg)
{
  (void) arg;
  (void) size;
  MPI_Barrier (MPI_COMM_WORLD);
  if (rank == 1) {
    MPI_Abort (MPI_COMM_WORLD, 17);
  }
  MPI_Barrier (MPI_COMM_WORLD);
}

static void
f_sigabrt (int rank, int size, void *arg)
{
  (void) arg;
  (void) size;
  if (rank == 0) {
    abort ();
  }
  MPI_Barrier (MPI_COMM_WORLD);
}

static void
f_handler (int rank, int size, void *arg)
{
  (void) arg;
  (void) size;
  if (rank == 2) {
    simmpi_abort_handler ();
  }
  MPI_Barrier (MPI_COMM_WORLD);
}

static void
f_leak (int rank, int size, void *arg)
{
  MPI_Comm            c;
  (void) arg;
  (void) size;
  MPI_Comm_dup (MPI_COMM_WORLD, &c);
  if (rank != 0) {
    MPI_Comm_free (&c);
  }
}

static void
f_mismatch (int rank, int size, void *arg)
{
  int                 v = 0;
  (void) arg;
  (void) size;
  if (rank == 0) {
    MPI_Bcast (&v, 1, MPI_INT, 0, MPI_COMM_WORLD);
  }
  else {
    MPI_Barrier (MPI_COMM_WORLD);
  }
}

static void
f_truncate (int rank, int size, void *arg)
{
  int                 v[2] = { 1, 2 }, w = 0;
  (void) arg;
  (void) size;
  if (rank == 0) {
    MPI_Send (v, 2, MPI_INT, 1, 0, MPI_COMM_WORLD);
  }
  else if (rank == 1) {
    MPI_Recv (&w, 1, MPI_INT, 0, 0, MPI_COMM_WORLD, MPI_STATUS_IGNORE);
  }
}

static void
f_endless (int rank, int size, void *arg)
{
  int                 v = 0;
  (void) arg;
  (void) rank;
  (void) size;
  for (;;) {
    MPI_Allreduce (MPI_IN_PLACE, &v, 1, MPI_INT, MPI_SUM, MPI_COMM_WORLD);
  }
}

static void
f_ok (int rank, int size, void *arg)
{
  (void) arg;
  (void) rank;
  (void) size;
  MPI_Barrier (MPI_COMM_WORLD);
}

int
main (void)
{
  expect ("deadlock: both receive first", f_deadlock_recv, 2, -1, SIMMPI_DEADLOCK, "MPI_Recv (source=1, tag=0, comm=0)");
  expect ("deadlock: both receive first", f_deadlock_recv, 5, -1, SIMMPI_DEADLOCK, "no matching message");
  expect ("deadlock: head to head Ssend", f_deadlock_ssend, 3, -1, SIMMPI_DEADLOCK, "not matched by a receive");
  expect ("unsafe sends, rendezvous", f_unsafe_send, 2, SIMMPI_ADV_RENDEZVOUS, SIMMPI_DEADLOCK, "MPI_Send");
  expect ("unsafe sends, buffered", f_unsafe_send, 2, SIMMPI_ADV_EAGER, SIMMPI_OK, NULL);
  expect ("deadlock: barrier not entered", f_deadlock_barrier, 4, -1, SIMMPI_DEADLOCK, "missing world ranks 1");
  expect ("deadlock: wait for nothing", f_deadlock_wait, 2, -1, SIMMPI_DEADLOCK, "Irecv source=1 tag=7");
  expect ("livelock: Iprobe for ever", f_livelock, 3, -1, SIMMPI_LIVELOCK, "MPI_Iprobe (source=-2, tag=3");
  expect ("livelock: Test for ever", f_livelock_test, 2, -1, SIMMPI_LIVELOCK, "Ibarrier comm=0, 1 of 2 entered");
  expect ("finite polling is fine", f_polls_then_gives_up, 3, -1, SIMMPI_OK, NULL);
  expect ("leftover message", f_leftover_msg, 2, -1, SIMMPI_LEFTOVER, "unreceived message: source=0 dest=1 tag=9 comm=0 bytes=4");
  expect ("leftover request", f_leftover_req, 2, -1, SIMMPI_LEFTOVER, "Irecv source=1 tag=9 comm=0");
  expect ("MPI_Abort", f_abort, 3, -1, SIMMPI_ABORT, "rank 1 aborted the run with code 17");
  expect ("abort ()", f_sigabrt, 2, -1, SIMMPI_ABORT, "SIGABRT");
  expect ("abort handler", f_handler, 3, -1, SIMMPI_ABORT, "rank 2 aborted");
  expect ("leak", f_leak, 3, -1, SIMMPI_OK, "[LEAK] communicator 1 (MPI_Comm_dup of comm 0, size 3) not freed by world ranks 0");
  expect ("collective mismatch", f_mismatch, 2, -1, SIMMPI_ERROR, "collective mismatch");
  expect ("truncation", f_truncate, 2, -1, SIMMPI_ERROR, "truncated");
  expect ("step guard", f_endless, 2, -1, SIMMPI_MAXSTEPS, "step guard");
  expect ("sanity", f_ok, 4, -1, SIMMPI_OK, NULL);
  if (bad == 0) {
    printf ("t_detect ok\n");
  }
  return bad != 0;
}
