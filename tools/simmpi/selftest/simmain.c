/*
 * Generic simmpi driver for the plain MPI selftest programs: they define
 * test_main (), which is run on every simulated rank (or, compiled with
 * -DREAL_MPI and mpicc, by a real MPI through realmain.h).
 *
 * usage: prog [-n ranks] [-s seed] [-a adversary] [-p ppn] [-r] [-t trace]
 *             [-d decisionlog] [-R replaylog] [-N repeat]
 */
#include <mpi.h>
#include <simmpi.h>
#include <stdio.h>
#include <stdlib.h>
#include <unistd.h>

int                 test_main (void);

static int          rank_result[1024];

static void
rank_fn (int rank, int size, void *arg)
{
  (void) size;
  (void) arg;
  rank_result[rank % 1024] = test_main ();
}

int
main (int argc, char **argv)
{
  simmpi_opts         o;
  simmpi_report       rep;
  int                 opt, rc = 0, i, repeat = 1, k;

  simmpi_opts_default (&o);
  o.nranks = 2;
  while ((opt = getopt (argc, argv, "n:s:a:p:rt:d:R:N:")) != -1) {
    switch (opt) {
    case 'n':
      o.nranks = atoi (optarg);
      break;
    case 's':
      o.seed = strtoul (optarg, NULL, 10);
      break;
    case 'a':
      o.adversary = atoi (optarg);
      break;
    case 'p':
      o.ppn = atoi (optarg);
      break;
    case 'r':
      o.noncontig_nodes = 1;
      break;
    case 't':
      o.trace_path = optarg;
      break;
    case 'd':
      o.decision_log = optarg;
      break;
    case 'R':
      o.replay_log = optarg;
      break;
    case 'N':
      repeat = atoi (optarg);
      break;
    default:
      return 2;
    }
  }
  for (k = 0; k < repeat; k++) {
    rc = simmpi_run (&o, rank_fn, NULL, &rep);
    if (rc != SIMMPI_OK) {
      fprintf (stderr, "%s", rep.text);
      simmpi_report_free (&rep);
      return 10 + rc;
    }
    if (rep.nleaks > 0 || rep.nwarnings > 0) {
      fprintf (stderr, "%s", rep.text);
      simmpi_report_free (&rep);
      return 9;
    }
    simmpi_report_free (&rep);
    for (i = 0; i < o.nranks && i < 1024; i++) {
      if (rank_result[i] != 0) {
        fprintf (stderr, "rank %d returned %d\n", i, rank_result[i]);
        return 1;
      }
    }
    o.seed++;
  }
  return 0;
}
