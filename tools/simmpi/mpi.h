/*
 * simmpi - a deterministic, adversarial, single-process simulation of MPI.
 *
 * This header is the <mpi.h> seen by code compiled against simmpi (libsc with
 * -DSC_ENABLE_MPI and the test harnesses).  It declares the subset of MPI-3
 * that libsc references, with MPICH-like handle encodings (all handles are
 * plain ints so they can be stored in byte arrays, compared and copied
 * freely; handle values are valid on every simulated rank).
 *
 * See README.md for the semantics that the runtime (simmpi.c) gives to these
 * calls and simmpi.h for the harness API.
 */
#ifndef SIMMPI_MPI_H
#define SIMMPI_MPI_H

#include <stddef.h>
#include <stdint.h>

#ifdef __cplusplus
extern              "C"
{
#endif

#define SIMMPI                 1
#define MPI_VERSION            3
#define MPI_SUBVERSION         1

/* ------------------------------------------------------------------ types */

typedef int         MPI_Comm;
typedef int         MPI_Group;
typedef int         MPI_Datatype;
typedef int         MPI_Op;
typedef int         MPI_Request;
#ifdef SIMMPI_SMALL_WIN
typedef int         MPI_Win;    /* 4-byte handle as in MPICH */
#else
typedef long        MPI_Win;    /* pointer-sized handle as in Open MPI (default) */
#endif
typedef int         MPI_Info;
typedef int         MPI_Errhandler;
typedef long        MPI_Aint;
typedef long long   MPI_Offset;
typedef long long   MPI_Count;

typedef struct MPI_Status
{
  int                 MPI_SOURCE;
  int                 MPI_TAG;
  int                 MPI_ERROR;
  int                 simmpi_cancelled;
  size_t              simmpi_nbytes;    /* size of the (matched) message in bytes */
}
MPI_Status;

typedef void        (MPI_User_function) (void *invec, void *inoutvec,
                                         int *len, MPI_Datatype * datatype);
typedef int         (MPI_Comm_copy_attr_function) (MPI_Comm oldcomm,
                                                   int comm_keyval,
                                                   void *extra_state,
                                                   void *attribute_val_in,
                                                   void *attribute_val_out,
                                                   int *flag);
typedef int         (MPI_Comm_delete_attr_function) (MPI_Comm comm,
                                                     int comm_keyval,
                                                     void *attribute_val,
                                                     void *extra_state);
typedef MPI_Comm_copy_attr_function MPI_Copy_function;
typedef MPI_Comm_delete_attr_function MPI_Delete_function;

/* ---------------------------------------------------------------- handles */

#define MPI_COMM_NULL          ((MPI_Comm) 0x04000000)
#define MPI_COMM_WORLD         ((MPI_Comm) 0x44000000)
#define MPI_COMM_SELF          ((MPI_Comm) 0x44000001)

#define MPI_GROUP_NULL         ((MPI_Group) 0x08000000)
#define MPI_GROUP_EMPTY        ((MPI_Group) 0x48000000)

#define MPI_REQUEST_NULL       ((MPI_Request) 0x2c000000)
#define MPI_WIN_NULL           ((MPI_Win) 0x20000000)
#define MPI_INFO_NULL          ((MPI_Info) 0x1c000000)
#define MPI_INFO_ENV           ((MPI_Info) 0x5c000001)
#define MPI_ERRHANDLER_NULL    ((MPI_Errhandler) 0x14000000)
#define MPI_ERRORS_ARE_FATAL   ((MPI_Errhandler) 0x54000000)
#define MPI_ERRORS_RETURN      ((MPI_Errhandler) 0x54000001)

#define MPI_KEYVAL_INVALID     0x24000000
#define MPI_TAG_UB             0x64400001
#define MPI_WTIME_IS_GLOBAL    0x64400002

#define MPI_DATATYPE_NULL      ((MPI_Datatype) 0x0c000000)
#define MPI_CHAR               ((MPI_Datatype) 0x4c000001)
#define MPI_SIGNED_CHAR        ((MPI_Datatype) 0x4c000002)
#define MPI_UNSIGNED_CHAR      ((MPI_Datatype) 0x4c000003)
#define MPI_BYTE               ((MPI_Datatype) 0x4c000004)
#define MPI_WCHAR              ((MPI_Datatype) 0x4c000005)
#define MPI_SHORT              ((MPI_Datatype) 0x4c000006)
#define MPI_UNSIGNED_SHORT     ((MPI_Datatype) 0x4c000007)
#define MPI_INT                ((MPI_Datatype) 0x4c000008)
#define MPI_UNSIGNED           ((MPI_Datatype) 0x4c000009)
#define MPI_LONG               ((MPI_Datatype) 0x4c00000a)
#define MPI_UNSIGNED_LONG      ((MPI_Datatype) 0x4c00000b)
#define MPI_LONG_LONG_INT      ((MPI_Datatype) 0x4c00000c)
#define MPI_LONG_LONG          MPI_LONG_LONG_INT
#define MPI_UNSIGNED_LONG_LONG ((MPI_Datatype) 0x4c00000d)
#define MPI_FLOAT              ((MPI_Datatype) 0x4c00000e)
#define MPI_DOUBLE             ((MPI_Datatype) 0x4c00000f)
#define MPI_LONG_DOUBLE        ((MPI_Datatype) 0x4c000010)
#define MPI_INT8_T             ((MPI_Datatype) 0x4c000011)
#define MPI_INT16_T            ((MPI_Datatype) 0x4c000012)
#define MPI_INT32_T            ((MPI_Datatype) 0x4c000013)
#define MPI_INT64_T            ((MPI_Datatype) 0x4c000014)
#define MPI_UINT8_T            ((MPI_Datatype) 0x4c000015)
#define MPI_UINT16_T           ((MPI_Datatype) 0x4c000016)
#define MPI_UINT32_T           ((MPI_Datatype) 0x4c000017)
#define MPI_UINT64_T           ((MPI_Datatype) 0x4c000018)
#define MPI_C_BOOL             ((MPI_Datatype) 0x4c000019)
#define MPI_AINT               ((MPI_Datatype) 0x4c00001a)
#define MPI_OFFSET             ((MPI_Datatype) 0x4c00001b)
#define MPI_COUNT              ((MPI_Datatype) 0x4c00001c)
#define MPI_2INT               ((MPI_Datatype) 0x4c00001d)
#define MPI_DOUBLE_INT         ((MPI_Datatype) 0x4c00001e)
#define MPI_FLOAT_INT          ((MPI_Datatype) 0x4c00001f)
#define MPI_LONG_INT           ((MPI_Datatype) 0x4c000020)
#define MPI_PACKED             ((MPI_Datatype) 0x4c000021)

#define MPI_OP_NULL            ((MPI_Op) 0x18000000)
#define MPI_MAX                ((MPI_Op) 0x58000001)
#define MPI_MIN                ((MPI_Op) 0x58000002)
#define MPI_SUM                ((MPI_Op) 0x58000003)
#define MPI_PROD               ((MPI_Op) 0x58000004)
#define MPI_LAND               ((MPI_Op) 0x58000005)
#define MPI_BAND               ((MPI_Op) 0x58000006)
#define MPI_LOR                ((MPI_Op) 0x58000007)
#define MPI_BOR                ((MPI_Op) 0x58000008)
#define MPI_LXOR               ((MPI_Op) 0x58000009)
#define MPI_BXOR               ((MPI_Op) 0x5800000a)
#define MPI_MINLOC             ((MPI_Op) 0x5800000b)
#define MPI_MAXLOC             ((MPI_Op) 0x5800000c)
#define MPI_REPLACE            ((MPI_Op) 0x5800000d)
#define MPI_NO_OP              ((MPI_Op) 0x5800000e)

/* -------------------------------------------------------------- constants */

#define MPI_SUCCESS            0
#define MPI_ERR_BUFFER         1
#define MPI_ERR_COUNT          2
#define MPI_ERR_TYPE           3
#define MPI_ERR_TAG            4
#define MPI_ERR_COMM           5
#define MPI_ERR_RANK           6
#define MPI_ERR_ROOT           7
#define MPI_ERR_GROUP          8
#define MPI_ERR_OP             9
#define MPI_ERR_TOPOLOGY       10
#define MPI_ERR_DIMS           11
#define MPI_ERR_ARG            12
#define MPI_ERR_UNKNOWN        13
#define MPI_ERR_TRUNCATE       14
#define MPI_ERR_OTHER          15
#define MPI_ERR_INTERN         16
#define MPI_ERR_IN_STATUS      17
#define MPI_ERR_PENDING        18
#define MPI_ERR_REQUEST        19
#define MPI_ERR_ACCESS         20
#define MPI_ERR_AMODE          21
#define MPI_ERR_BAD_FILE       22
#define MPI_ERR_CONVERSION     23
#define MPI_ERR_DUP_DATAREP    24
#define MPI_ERR_FILE_EXISTS    25
#define MPI_ERR_FILE_IN_USE    26
#define MPI_ERR_FILE           27
#define MPI_ERR_INFO           28
#define MPI_ERR_IO             32
#define MPI_ERR_KEYVAL         33
#define MPI_ERR_NO_MEM         34
#define MPI_ERR_NO_SPACE       36
#define MPI_ERR_NO_SUCH_FILE   37
#define MPI_ERR_NOT_SAME       35
#define MPI_ERR_QUOTA          39
#define MPI_ERR_READ_ONLY      40
#define MPI_ERR_UNSUPPORTED_DATAREP    43
#define MPI_ERR_UNSUPPORTED_OPERATION  44
#define MPI_ERR_WIN            45
#define MPI_ERR_BASE           46
#define MPI_ERR_LOCKTYPE       47
#define MPI_ERR_RMA_CONFLICT   49
#define MPI_ERR_RMA_SYNC       50
#define MPI_ERR_SIZE           51
#define MPI_ERR_DISP           52
#define MPI_ERR_ASSERT         53
#define MPI_ERR_RMA_RANGE      55
#define MPI_ERR_LASTCODE       0x3fffffff

#define MPI_MAX_ERROR_STRING   512
#define MPI_MAX_PROCESSOR_NAME 128
#define MPI_MAX_OBJECT_NAME    128

#define MPI_PROC_NULL          (-1)
#define MPI_ANY_SOURCE         (-2)
#define MPI_ROOT               (-3)
#define MPI_ANY_TAG            (-1)
#define MPI_UNDEFINED          (-32766)

#define MPI_IDENT              0
#define MPI_CONGRUENT          1
#define MPI_SIMILAR            2
#define MPI_UNEQUAL            3

#define MPI_THREAD_SINGLE      0
#define MPI_THREAD_FUNNELED    1
#define MPI_THREAD_SERIALIZED  2
#define MPI_THREAD_MULTIPLE    3

#define MPI_COMM_TYPE_SHARED   1

#define MPI_LOCK_EXCLUSIVE     234
#define MPI_LOCK_SHARED        235

#define MPI_MODE_NOCHECK       1024
#define MPI_MODE_NOSTORE       2048
#define MPI_MODE_NOPUT         4096
#define MPI_MODE_NOPRECEDE     8192
#define MPI_MODE_NOSUCCEED     16384

#define MPI_BOTTOM             ((void *) 0)
#define MPI_IN_PLACE           ((void *) -1)
#define MPI_STATUS_IGNORE      ((MPI_Status *) 1)
#define MPI_STATUSES_IGNORE    ((MPI_Status *) 1)

#define MPI_COMM_NULL_COPY_FN   ((MPI_Comm_copy_attr_function *) 0)
#define MPI_COMM_NULL_DELETE_FN ((MPI_Comm_delete_attr_function *) 0)
#define MPI_COMM_DUP_FN         simmpi_comm_dup_fn
#define MPI_NULL_COPY_FN        MPI_COMM_NULL_COPY_FN
#define MPI_NULL_DELETE_FN      MPI_COMM_NULL_DELETE_FN
#define MPI_DUP_FN              MPI_COMM_DUP_FN

int                 simmpi_comm_dup_fn (MPI_Comm, int, void *, void *, void *,
                                        int *);

/* -------------------------------------------------------------- functions */

/* environment */
int                 MPI_Init (int *argc, char ***argv);
int                 MPI_Init_thread (int *argc, char ***argv, int required,
                                     int *provided);
int                 MPI_Initialized (int *flag);
int                 MPI_Finalize (void);
int                 MPI_Finalized (int *flag);
int                 MPI_Abort (MPI_Comm comm, int errorcode)
  __attribute__ ((noreturn));
double              MPI_Wtime (void);
double              MPI_Wtick (void);
int                 MPI_Get_processor_name (char *name, int *resultlen);
int                 MPI_Get_version (int *version, int *subversion);
int                 MPI_Error_class (int errorcode, int *errorclass);
int                 MPI_Error_string (int errorcode, char *string,
                                      int *resultlen);
int                 MPI_Alloc_mem (MPI_Aint size, MPI_Info info,
                                   void *baseptr);
int                 MPI_Free_mem (void *base);
int                 MPI_Info_create (MPI_Info * info);
int                 MPI_Info_set (MPI_Info info, const char *key,
                                  const char *value);
int                 MPI_Info_free (MPI_Info * info);
int                 MPI_Comm_set_errhandler (MPI_Comm comm,
                                             MPI_Errhandler errhandler);

/* communicators, groups, attributes */
int                 MPI_Comm_size (MPI_Comm comm, int *size);
int                 MPI_Comm_rank (MPI_Comm comm, int *rank);
int                 MPI_Comm_compare (MPI_Comm comm1, MPI_Comm comm2,
                                      int *result);
int                 MPI_Comm_dup (MPI_Comm comm, MPI_Comm * newcomm);
int                 MPI_Comm_create (MPI_Comm comm, MPI_Group group,
                                     MPI_Comm * newcomm);
int                 MPI_Comm_split (MPI_Comm comm, int color, int key,
                                    MPI_Comm * newcomm);
int                 MPI_Comm_split_type (MPI_Comm comm, int split_type,
                                         int key, MPI_Info info,
                                         MPI_Comm * newcomm);
int                 MPI_Comm_free (MPI_Comm * comm);
int                 MPI_Comm_group (MPI_Comm comm, MPI_Group * group);
int                 MPI_Group_free (MPI_Group * group);
int                 MPI_Group_size (MPI_Group group, int *size);
int                 MPI_Group_rank (MPI_Group group, int *rank);
int                 MPI_Group_translate_ranks (MPI_Group group1, int n,
                                               const int ranks1[],
                                               MPI_Group group2,
                                               int ranks2[]);
int                 MPI_Group_compare (MPI_Group group1, MPI_Group group2,
                                       int *result);
int                 MPI_Group_union (MPI_Group group1, MPI_Group group2,
                                     MPI_Group * newgroup);
int                 MPI_Group_intersection (MPI_Group group1,
                                            MPI_Group group2,
                                            MPI_Group * newgroup);
int                 MPI_Group_difference (MPI_Group group1, MPI_Group group2,
                                          MPI_Group * newgroup);
int                 MPI_Group_incl (MPI_Group group, int n,
                                    const int ranks[], MPI_Group * newgroup);
int                 MPI_Group_excl (MPI_Group group, int n,
                                    const int ranks[], MPI_Group * newgroup);
int                 MPI_Group_range_incl (MPI_Group group, int n,
                                          int ranges[][3],
                                          MPI_Group * newgroup);
int                 MPI_Group_range_excl (MPI_Group group, int n,
                                          int ranges[][3],
                                          MPI_Group * newgroup);
int                 MPI_Comm_create_keyval (MPI_Comm_copy_attr_function *
                                            copy_fn,
                                            MPI_Comm_delete_attr_function *
                                            delete_fn, int *comm_keyval,
                                            void *extra_state);
int                 MPI_Comm_free_keyval (int *comm_keyval);
int                 MPI_Comm_set_attr (MPI_Comm comm, int comm_keyval,
                                       void *attribute_val);
int                 MPI_Comm_get_attr (MPI_Comm comm, int comm_keyval,
                                       void *attribute_val, int *flag);
int                 MPI_Comm_delete_attr (MPI_Comm comm, int comm_keyval);

/* point to point */
int                 MPI_Send (const void *buf, int count,
                              MPI_Datatype datatype, int dest, int tag,
                              MPI_Comm comm);
int                 MPI_Ssend (const void *buf, int count,
                               MPI_Datatype datatype, int dest, int tag,
                               MPI_Comm comm);
int                 MPI_Isend (const void *buf, int count,
                               MPI_Datatype datatype, int dest, int tag,
                               MPI_Comm comm, MPI_Request * request);
int                 MPI_Issend (const void *buf, int count,
                                MPI_Datatype datatype, int dest, int tag,
                                MPI_Comm comm, MPI_Request * request);
int                 MPI_Recv (void *buf, int count, MPI_Datatype datatype,
                              int source, int tag, MPI_Comm comm,
                              MPI_Status * status);
int                 MPI_Irecv (void *buf, int count, MPI_Datatype datatype,
                               int source, int tag, MPI_Comm comm,
                               MPI_Request * request);
int                 MPI_Probe (int source, int tag, MPI_Comm comm,
                               MPI_Status * status);
int                 MPI_Iprobe (int source, int tag, MPI_Comm comm,
                                int *flag, MPI_Status * status);
int                 MPI_Get_count (const MPI_Status * status,
                                   MPI_Datatype datatype, int *count);
int                 MPI_Wait (MPI_Request * request, MPI_Status * status);
int                 MPI_Waitall (int count, MPI_Request array_of_requests[],
                                 MPI_Status * array_of_statuses);
int                 MPI_Waitany (int count, MPI_Request array_of_requests[],
                                 int *indx, MPI_Status * status);
int                 MPI_Waitsome (int incount,
                                  MPI_Request array_of_requests[],
                                  int *outcount, int array_of_indices[],
                                  MPI_Status * array_of_statuses);
int                 MPI_Test (MPI_Request * request, int *flag,
                              MPI_Status * status);
int                 MPI_Testall (int count, MPI_Request array_of_requests[],
                                 int *flag, MPI_Status * array_of_statuses);
int                 MPI_Testany (int count, MPI_Request array_of_requests[],
                                 int *indx, int *flag, MPI_Status * status);
int                 MPI_Testsome (int incount,
                                  MPI_Request array_of_requests[],
                                  int *outcount, int array_of_indices[],
                                  MPI_Status * array_of_statuses);

/* collectives */
int                 MPI_Barrier (MPI_Comm comm);
int                 MPI_Ibarrier (MPI_Comm comm, MPI_Request * request);
int                 MPI_Bcast (void *buffer, int count, MPI_Datatype datatype,
                               int root, MPI_Comm comm);
int                 MPI_Gather (const void *sendbuf, int sendcount,
                                MPI_Datatype sendtype, void *recvbuf,
                                int recvcount, MPI_Datatype recvtype,
                                int root, MPI_Comm comm);
int                 MPI_Gatherv (const void *sendbuf, int sendcount,
                                 MPI_Datatype sendtype, void *recvbuf,
                                 const int recvcounts[], const int displs[],
                                 MPI_Datatype recvtype, int root,
                                 MPI_Comm comm);
int                 MPI_Scatter (const void *sendbuf, int sendcount,
                                 MPI_Datatype sendtype, void *recvbuf,
                                 int recvcount, MPI_Datatype recvtype,
                                 int root, MPI_Comm comm);
int                 MPI_Allgather (const void *sendbuf, int sendcount,
                                   MPI_Datatype sendtype, void *recvbuf,
                                   int recvcount, MPI_Datatype recvtype,
                                   MPI_Comm comm);
int                 MPI_Allgatherv (const void *sendbuf, int sendcount,
                                    MPI_Datatype sendtype, void *recvbuf,
                                    const int recvcounts[],
                                    const int displs[],
                                    MPI_Datatype recvtype, MPI_Comm comm);
int                 MPI_Alltoall (const void *sendbuf, int sendcount,
                                  MPI_Datatype sendtype, void *recvbuf,
                                  int recvcount, MPI_Datatype recvtype,
                                  MPI_Comm comm);
int                 MPI_Alltoallv (const void *sendbuf,
                                   const int sendcounts[],
                                   const int sdispls[],
                                   MPI_Datatype sendtype, void *recvbuf,
                                   const int recvcounts[],
                                   const int rdispls[],
                                   MPI_Datatype recvtype, MPI_Comm comm);
int                 MPI_Reduce (const void *sendbuf, void *recvbuf, int count,
                                MPI_Datatype datatype, MPI_Op op, int root,
                                MPI_Comm comm);
int                 MPI_Allreduce (const void *sendbuf, void *recvbuf,
                                   int count, MPI_Datatype datatype,
                                   MPI_Op op, MPI_Comm comm);
int                 MPI_Reduce_scatter_block (const void *sendbuf,
                                              void *recvbuf, int recvcount,
                                              MPI_Datatype datatype,
                                              MPI_Op op, MPI_Comm comm);
int                 MPI_Scan (const void *sendbuf, void *recvbuf, int count,
                              MPI_Datatype datatype, MPI_Op op,
                              MPI_Comm comm);
int                 MPI_Exscan (const void *sendbuf, void *recvbuf, int count,
                                MPI_Datatype datatype, MPI_Op op,
                                MPI_Comm comm);
int                 MPI_Op_create (MPI_User_function * user_fn, int commute,
                                   MPI_Op * op);
int                 MPI_Op_free (MPI_Op * op);

/* datatypes */
int                 MPI_Type_contiguous (int count, MPI_Datatype oldtype,
                                         MPI_Datatype * newtype);
int                 MPI_Type_commit (MPI_Datatype * datatype);
int                 MPI_Type_free (MPI_Datatype * datatype);
int                 MPI_Type_size (MPI_Datatype datatype, int *size);
int                 MPI_Type_get_extent (MPI_Datatype datatype,
                                         MPI_Aint * lb, MPI_Aint * extent);
int                 MPI_Pack (const void *inbuf, int incount,
                              MPI_Datatype datatype, void *outbuf,
                              int outsize, int *position, MPI_Comm comm);
int                 MPI_Unpack (const void *inbuf, int insize, int *position,
                                void *outbuf, int outcount,
                                MPI_Datatype datatype, MPI_Comm comm);
int                 MPI_Pack_size (int incount, MPI_Datatype datatype,
                                   MPI_Comm comm, int *size);

/* one-sided */
int                 MPI_Win_create (void *base, MPI_Aint size, int disp_unit,
                                    MPI_Info info, MPI_Comm comm,
                                    MPI_Win * win);
int                 MPI_Win_allocate_shared (MPI_Aint size, int disp_unit,
                                             MPI_Info info, MPI_Comm comm,
                                             void *baseptr, MPI_Win * win);
int                 MPI_Win_shared_query (MPI_Win win, int rank,
                                          MPI_Aint * size, int *disp_unit,
                                          void *baseptr);
int                 MPI_Win_free (MPI_Win * win);
int                 MPI_Win_fence (int assert, MPI_Win win);
int                 MPI_Win_lock (int lock_type, int rank, int assert,
                                  MPI_Win win);
int                 MPI_Win_unlock (int rank, MPI_Win win);
int                 MPI_Accumulate (const void *origin_addr, int origin_count,
                                    MPI_Datatype origin_datatype,
                                    int target_rank, MPI_Aint target_disp,
                                    int target_count,
                                    MPI_Datatype target_datatype, MPI_Op op,
                                    MPI_Win win);
int                 MPI_Put (const void *origin_addr, int origin_count,
                             MPI_Datatype origin_datatype, int target_rank,
                             MPI_Aint target_disp, int target_count,
                             MPI_Datatype target_datatype, MPI_Win win);
int                 MPI_Get (void *origin_addr, int origin_count,
                             MPI_Datatype origin_datatype, int target_rank,
                             MPI_Aint target_disp, int target_count,
                             MPI_Datatype target_datatype, MPI_Win win);

#ifdef __cplusplus
}
#endif

#endif /* !SIMMPI_MPI_H */
