#!/bin/bash
# Intake of a seeded change produced by a sub-agent in /tmp/seed-<tag>: copy seed_out to seeded/<name>, remove the
# agent's worktree, confirm the change independently (tools/seedverify.sh) and run the property's check against it.
# Usage: tools/seedintake.sh <tag of /tmp/seed-<tag>> <name under seeded/> [property ids]
set -u
TAG=$1; NAME=$2; shift 2
mkdir -p /verif/seeded/$NAME
cp -r /tmp/seed-$TAG/seed_out/* /verif/seeded/$NAME/ || exit 2
rm -rf /verif/seeded/$NAME/_b* /verif/seeded/$NAME/*.o
git -C /repo worktree remove --force /tmp/seed-$TAG
/verif/tools/seedverify.sh $NAME | tee /verif/seeded/$NAME/verify.txt
/verif/tools/seedrun.sh $NAME "$@"
