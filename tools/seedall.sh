#!/bin/bash
# Regression over all seeded changes: runs the property's quick check against every seeded/<id>/patch.diff (scratch
# copy, VERIF_REPO) and prints one line per seed: CAUGHT (violation with a failing input), CAUGHT-NO-INPUT
# (VIOLATION ... no-failing-input-found) or MISSED.  Usage: tools/seedall.sh [ids...]
cd /verif
ids="$*"; [ -n "$ids" ] || ids=$(ls seeded)
for id in $ids; do
  pid=$(python3 -c "import json;print(json.load(open('seeded/$id/meta.json'))['property'])")
  extra=""; [ "$id" = "C10" ] && extra="C07"
  tools/seedrun.sh $id $pid $extra >/dev/null 2>&1
  f=seeded/$id/check_$pid.txt
  if grep -q "^VIOLATION.*no-failing-input-found" $f; then v="CAUGHT-NO-INPUT"
  elif grep -q "^VIOLATION" $f; then v="CAUGHT"
  else v="MISSED"; fi
  echo "$id ($pid): $v  $(grep -m1 '^VIOLATION' $f | cut -c1-160)"
done
