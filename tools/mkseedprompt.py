#!/usr/bin/env python3
"""Write the prompt of a seeding sub-agent: property text + scratch worktree, nothing of /verif's machinery.
usage: mkseedprompt.py <tag> <property-id> [extra constraint text]   (prompt -> /var/tmp/seedprompt-<tag>.txt)
The summaries of the changes already kept for the property (seeded/<id>*/meta.json) are listed so that the
new change is a different one."""
import json, sys, glob, os
tag, pid = sys.argv[1], sys.argv[2]
extra = sys.argv[3] if len(sys.argv) > 3 else ""
here = os.path.dirname(os.path.dirname(os.path.abspath(__file__)))
prop = [json.loads(l) for l in open(os.path.join(here, "properties.jsonl")) if l.strip()]
p = [x for x in prop if x["id"] == pid][0]
prev = []
for d in sorted(glob.glob(os.path.join(here, "seeded", pid + "*", "meta.json"))):
    try:
        s = json.load(open(d)).get("summary", "")
    except Exception:
        continue
    prev.append("- " + s[:420].replace("\n", " ") + ("..." if len(s) > 420 else ""))
tmpl = open("/var/tmp/seedprompt-C13d.txt").read()
head, rest = tmpl.split("PROPERTY C13", 1)
_, tail = rest.split("YOUR TASK:", 1)
body = "PROPERTY %s - %s\n%s\n\nWhy ordinary tests do not settle it: %s\n\n" % (pid, p["title"], p["statement"], p["why_tests_cant"])
body += "ADDITIONAL CONSTRAINT: the following changes were already made by others; make a DIFFERENT one, in other functions or other branches:\n" + "\n".join(prev) + "\n"
body += ("For this round prefer a defect that is the product of TWO COOPERATING SITES that each look fine alone, one that depends on a multi-step HISTORY of calls, "
         "or one in a code path that is rarely taken (an unusual configuration, size class, error return, boundary). " + extra + "\n\n")
out = (head + body + "YOUR TASK:" + tail).replace("seed-C13d", "seed-" + tag).replace('("C13")', '("%s")' % pid)
open("/var/tmp/seedprompt-%s.txt" % tag, "w").write(out)
print("/var/tmp/seedprompt-%s.txt" % tag, len(out))
