#!/usr/bin/env python3
"""Writes MANIFEST.json from the table below (single source of truth for the interface)."""
import json, os
HERE = os.path.dirname(os.path.dirname(os.path.abspath(__file__)))
ALL = ["C%02d" % i for i in range(1, 21)]

# property id -> dict(text, note, technique, design_ref)   (only properties with a working check)
CLAIMED = {
 "C18": dict(
   text="Unbounded theorems (33) about definitions that tools/c2g regenerates from /repo's C source on every run: 128-bit add/sub/shift/bit/compare/logic = arithmetic mod 2^128 for all operands and all shift counts 0 <= s < 2^31, tree bias = closest member of its interval and intervals partition, lower-bound and range search correct for every sorted array, length and initial guess (loop invariant + fuel bound), integer powers = base^exp mod word size, log2/round-up macros (256-entry table decided entry by entry). A code change alters the generated definitions, so the kernel re-checks the theorems against what the code says now; translator validation runs the extracted generated functions against the compiled C functions on ~39k grid/random cases and an independent oracle judges every C output.",
   note="Trusted: Coq kernel, the c2g translator + clang AST (validated differentially on every run), extraction, harness. Assumes parameters in the range of their C types, distinct pointer parameters do not alias, signed overflow wraps (intpow squaring is UB in C; harness built with -fwrapv). sc_bsearch_range's comparison callback is abstracted as two functions consistent with a sorted integer array.",
   technique="Rocq proof over translator-generated Gallina (T1) + differential translator validation"),
 "C01": dict(
   text="Theorems (unbounded in communicator size, widths, receiver families) about slices of sc_notify_recursive_nary that tools/c2g regenerates from /repo on every run: MATCHING - the ranks that send to a rank at a level are exactly the nrecv ranks the code waits for (so no hang and no leftover message), each exists, and the receive slot computed from a message's source is its index (distinct slots inside the buffer array for every arrival order); ROUTING - every record is handed to an existing rank congruent to its addressee modulo the group length; DELIVERY through all levels for any widths >= 2 whose product covers the communicator; PATTERN INVERSION - every rank ends with exactly the ranks that listed it, for every receiver family (empty lists, self-notification). Tie: T1 plus the real code - all nine algorithms and the legacy entry points - on the simulated MPI under 8 adversarial schedulers with the transposed pattern as oracle, single calls and calls back to back; the simulator detects deadlock, endless polling and leftover messages.",
   note="Trusted: Coq kernel, c2g slices (anchored on source text), simmpi. Partial: the theorems are for the n-ary algorithm (arithmetic + level composition under the round abstraction 'a wildcard receive on a level's tag sees that level's messages'); the other eight algorithms and all schedules are covered by simulated runs + oracle, not by theorems. Recorded findings: consecutive calls without barrier of nary/nbx/superset (wildcard capture across calls).",
   technique="Rocq proof over translator-generated Gallina (T1) + adversarial simulated-MPI runs with oracle"),
 "C02": dict(
   text="Theorems (unbounded): the payload slot formula - GENERATED from its four copies in sc_notify.c - reserves exactly ceil(size/sizeof(int)) int slots for every item size >= 1 (no truncation, no write beyond the record), all four copies agree, pack/unpack round trip for arbitrary padding, output offsets of variable-size payloads are the prefix sums (start 0, differences = lengths), sorting (sender, payload) records with any sorting routine keeps each payload with its sender. Tie: T1 + real code on the simulated MPI: all 9 algorithms, item sizes 1..17,24,31,40, eager threshold below/at/above the item size (both phases), variable slices, sorted 0/1, in-place/separate outputs, with an oracle that recomputes per (sender, receiver) the bytes that must arrive at the position of that sender; ASan for writes outside arrays.",
   note="Trusted: Coq kernel, c2g slices, simmpi. Partial: the transport of payloads through the algorithms under all schedules is covered by simulated runs + oracle, not by theorems; UBSan's alignment check is off (census packs ints at unaligned offsets for sizes that are not multiples of 4). Recorded findings as for C01 (consecutive calls of nary/nbx/superset).",
   technique="Rocq proof over translator-generated Gallina (T1) + adversarial simulated-MPI runs with byte oracle"),
 "C03": dict(
   text="Theorems (unbounded in P, inputs, operation): the global tree model of sc_reduce/sc_allreduce - built on the GENERATED sc_search_bias/maxlevel macro - equals the fold of the operands in rank order for every associative operation (no commutativity needed), at every node of the balanced tree, and never mentions the target; hence one association for all targets and ranks. Tie T3: the real code runs on the simulated MPI under 8 scheduler adversaries; every rank's trace is co-simulated against the extracted per-rank program (symbolic payloads evaluated with the concrete operation, compared bit for bit with what was sent/returned), the model's tree and an independent balanced-tree oracle are compared with the bits of every rank, and the same data is reduced to several targets / all-reduced under different schedules with bitwise comparison.",
   note="Trusted: Coq kernel, c2g (bias, log2 macro, constants), extraction, simmpi and its trace, Python IEEE arithmetic for float/double evaluation. Partial: the step from the per-rank programs to the global tree model under all schedules is validated by co-simulation, not proved (receives name their source, so matching is deterministic); long double not exercised; IEEE '+' commutativity is used implicitly only in that the model's orientation is fixed (rank order), so it is not needed any more after the repair of sc_reduce.",
   technique="Rocq proof of the tree model + per-rank trace co-simulation on a simulated MPI"),
 "C04": dict(
   text="Theorems (unbounded): for every P, block type and subgroup (g, base) the global dataflow model of sc_allgather_recursive/alltoall leaves blocks base..base+g-1 in order in every member's buffer and touches nothing else (strong induction over the bisection with odd halves), every posted receive has exactly one matching send with equal tag, slot range and size, and no rank posts two receives for the same (source, tag) in a step (deterministic matching, so completion order is irrelevant). Tie T3: the real sc_allgather and the subgroup routine run on the simulated MPI under 8 adversaries; every rank's trace is co-simulated against the extracted per-rank program (peers, tags, payload bytes, final buffer); an independent oracle judges every receive buffer; deadlock, leftover messages and memory balance are checked.",
   note="Trusted: Coq kernel, generated constants (tags, SC_ALLGATHER_ALLTOALL_MAX), extraction, simmpi. Partial: the step from per-rank programs to the global model under all interleavings is validated by co-simulation, not proved; MPI's delivery guarantees are assumed.",
   technique="Rocq proof of the dataflow model + per-rank trace co-simulation on a simulated MPI"),
 "C13": dict(
   text="Theorems (unbounded): the record combination GENERATED from sc_stats_mpifunc computes, for EVERY binary reduction tree over EVERY permutation of the ranks' records, the total count, exact sums and - when a sample exists - the minimum/maximum over all contributing ranks with the lowest rank attaining each; the specification determines every reported number (so all ranks agree whatever tree each result came from); operands without samples and clean variables are neutral in both operand positions; local records describe their samples. Tie: T1 (combine regenerated from source) + T3: real sc_stats_compute on the simulated MPI whose Allreduce applies the user op along random trees over random permutations; the packed records (from the trace) are folded by the extracted model and compared with every rank's result; an independent oracle computes the statistics of the union including mean/variance/standard errors bit for bit.",
   note="Trusted: Coq kernel, c2g (doubles read as exact numbers; the runs use integer-valued samples so all sums are exact in binary64), extraction, simmpi. Sums of general doubles agree only up to rounding of another order and are not judged bitwise.",
   technique="Rocq proof over translator-generated Gallina (T1) + simulated-MPI correspondence with adversarial reduction trees"),
}

NOT_YET = "machinery for this property is not built yet in this revision (planned, see DESIGN.md section 6); no claim is made"

def main():
    checks = []
    for pid in ALL:
        if pid in CLAIMED:
            c = CLAIMED[pid]
            checks.append(dict(
                property_id=pid,
                quick_cmd="./check %s --tier quick" % pid,
                thorough_cmd="./check %s --tier thorough" % pid,
                evidence_file="evidence/%s.json" % pid,
                replay_cmd_template="./check %s --replay {path}" % pid,
                engine="rocq",
                level_claimed=dict(category="proof", text=c["text"], design_ref=c.get("design_ref", "DESIGN.md section 6, " + pid)),
                level_note=c["note"],
                technique=c["technique"]))
    m = dict(
        version=1,
        setup_cmd="make -C /verif setup",
        hooks=dict(guard="SC_VERIF_HOOKS",
                   enable="checks compile /repo's sources themselves with -DSC_VERIF_HOOKS (tools/lib/vlib.py build_variant); no source hook exists so far, instrumentation goes through the public API, --wrap of libc symbols and the simulated MPI header",
                   baseline_off_cmd="cmake --build /repo/_build && ctest --test-dir /repo/_build -j8 --timeout 900",
                   source_commits=[], add_only=True),
        engines=[dict(name="rocq", path="coq/", serves_properties=sorted(CLAIMED),
                      kind_free_text="Coq 8.16.1 development (-Q coq ScV): translator-generated definitions (coq/Gen, regenerated from /repo on every run), hand-written executable models, property theorems in coq/Props; extraction to OCaml for the correspondence runs")],
        checks=checks,
        notes="Every check rebuilds what it needs from /repo's working tree into /var/tmp scratch and removes it. See DESIGN.md.",
        not_applicable=[dict(property_id=p, reason=NOT_YET) for p in ALL if p not in CLAIMED])
    json.dump(m, open(os.path.join(HERE, "MANIFEST.json"), "w"), indent=1)

if __name__ == "__main__":
    main()
