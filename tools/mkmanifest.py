#!/usr/bin/env python3
"""Writes MANIFEST.json from the table below (single source of truth for the interface)."""
import json, os
HERE = os.path.dirname(os.path.dirname(os.path.abspath(__file__)))
ALL = ["C%02d" % i for i in range(1, 21)]

# property id -> dict(text, note, technique, design_ref)   (only properties with a working check)
CLAIMED = {
 "C18": dict(
   text="Unbounded theorems (33) about definitions that tools/c2g regenerates from /repo's C source on every run: 128-bit add/sub/shift/bit/compare/logic = arithmetic mod 2^128 for all operands and all shift counts 0 <= s < 2^31, tree bias = closest member of its interval and intervals partition, lower-bound and range search correct for every sorted array, length and initial guess (loop invariant + fuel bound), integer powers = base^exp mod word size, log2/round-up macros (256-entry table decided entry by entry). A code change alters the generated definitions, so the kernel re-checks the theorems against what the code says now; translator validation runs the extracted generated functions against the compiled C functions on ~39k grid/random cases and an independent oracle judges every C output.",
   note="Trusted: Coq kernel, the c2g translator + clang AST (validated differentially on every run), extraction, harness. Assumes parameters in the range of their C types, distinct pointer parameters do not alias, signed overflow wraps (intpow squaring is UB in C; harness built with -fwrapv). sc_bsearch_range's comparison callback is abstracted as two functions consistent with a sorted integer array.",
   technique="Rocq proof over translator-generated Gallina (T1) + differential translator validation"),
}

NOT_YET = "machinery for this property is not built yet in this revision (planned, see DESIGN.md section 6); no claim is made"

def main():
    checks = []
    for pid in ALL:
        if pid in CLAIMED:
            c = CLAIMED[pid]
            checks.append(dict(
                property_id=pid,
                quick_cmd="./check %s --tier quick" % pid,
                thorough_cmd="./check %s --tier thorough" % pid,
                evidence_file="evidence/%s.json" % pid,
                replay_cmd_template="./check %s --replay {path}" % pid,
                engine="rocq",
                level_claimed=dict(category="proof", text=c["text"], design_ref=c.get("design_ref", "DESIGN.md section 6, " + pid)),
                level_note=c["note"],
                technique=c["technique"]))
    m = dict(
        version=1,
        setup_cmd="make -C /verif setup",
        hooks=dict(guard="SC_VERIF_HOOKS",
                   enable="checks compile /repo's sources themselves with -DSC_VERIF_HOOKS (tools/lib/vlib.py build_variant); no source hook exists so far, instrumentation goes through the public API, --wrap of libc symbols and the simulated MPI header",
                   baseline_off_cmd="cmake --build /repo/_build && ctest --test-dir /repo/_build -j8 --timeout 900",
                   source_commits=[], add_only=True),
        engines=[dict(name="rocq", path="coq/", serves_properties=sorted(CLAIMED),
                      kind_free_text="Coq 8.16.1 development (-Q coq ScV): translator-generated definitions (coq/Gen, regenerated from /repo on every run), hand-written executable models, property theorems in coq/Props; extraction to OCaml for the correspondence runs")],
        checks=checks,
        notes="Every check rebuilds what it needs from /repo's working tree into /var/tmp scratch and removes it. See DESIGN.md.",
        not_applicable=[dict(property_id=p, reason=NOT_YET) for p in ALL if p not in CLAIMED])
    json.dump(m, open(os.path.join(HERE, "MANIFEST.json"), "w"), indent=1)

if __name__ == "__main__":
    main()
