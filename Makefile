# Top-level build of the verification framework (offline).
#   make setup   : translator output, full .vo build, extraction, OCaml drivers, simulated MPI
SHELL := /bin/bash
.PHONY: setup gen coq-makefile coq ocaml simmpi clean

setup: gen coq-makefile coq ocaml simmpi

gen:
	python3 tools/c2g/genall.py

coq-makefile:
	cd coq && { echo "-Q . ScV"; echo "-arg -w -arg -notation-overridden,-deprecated-hint-without-locality,-deprecated-instance-without-locality"; \
	  find . -name '*.v' | sed 's|^\./||' | LC_ALL=C sort; } > _CoqProject.new && \
	  if ! cmp -s _CoqProject.new _CoqProject || [ ! -f Makefile.coq ]; then mv _CoqProject.new _CoqProject; coq_makefile -f _CoqProject -o Makefile.coq; else rm _CoqProject.new; fi

coq: coq-makefile
	-cd coq && timeout 7200 $(MAKE) -k -f Makefile.coq -j16

ocaml:
	-$(MAKE) -k -C tools/ocaml all

simmpi:
	@if [ -f tools/simmpi/Makefile ]; then $(MAKE) -C tools/simmpi; fi

clean:
	cd coq && if [ -f Makefile.coq ]; then $(MAKE) -f Makefile.coq cleanall; fi; rm -f Makefile.coq Makefile.coq.conf _CoqProject *_model.ml *_model.mli
	rm -rf tools/ocaml/_build
