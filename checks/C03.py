"""C03 - reduce/allreduce replacement.  Proof: the global tree model folds the operands in rank order for every
associative operation and does not depend on the target.  Tie T3: the real code runs on the simulated MPI; every
rank's trace is co-simulated (token mode) against the extracted per-rank program, the symbolic payloads are
evaluated with the concrete operation and compared bit for bit; the global model's symbolic tree and an independent
balanced-tree oracle are evaluated against the bits every rank obtains.
SEQUENCES of 2-5 calls (sc_reduce / sc_allreduce / sc_reduce_custom / sc_allreduce_custom, changing count / datatype / operator /
target) run back to back with no barrier on one communicator; every call is judged on its own (oracle tree of ITS buffers), and the
whole trace of every rank is co-simulated against the extracted HISTORY program hist_prog of C03/ReduceHist.v (the program of the
theorems C03_hist_*), payloads and outputs evaluated with the operator and datatype of the call they belong to."""
import os, sys, json, struct
import vlib, mpitrace
sys.path.insert(0, os.path.join(vlib.TOOLS, "c2g"))

SZ = [4, 4, 8, 4, 8, 1, 2, 8, 8]
DTN = ["int", "unsigned", "long", "float", "double", "char", "short", "unsigned long", "long long"]
SIGNED = [True, False, True, None, None, True, True, False, True]


def f32(x):
    try:
        return struct.unpack("<f", struct.pack("<f", x))[0]
    except OverflowError:
        return float("inf") if x > 0 else float("-inf")


def dec(dt, bits):
    """bit pattern -> python value"""
    if dt == 3:
        return struct.unpack("<f", struct.pack("<I", bits & 0xffffffff))[0]
    if dt == 4:
        return struct.unpack("<d", struct.pack("<Q", bits & (2 ** 64 - 1)))[0]
    n = SZ[dt] * 8
    v = bits & ((1 << n) - 1)
    if SIGNED[dt] and v >> (n - 1):
        v -= 1 << n
    return v


def enc(dt, v):
    if dt == 3:
        return struct.unpack("<I", struct.pack("<f", v))[0]
    if dt == 4:
        return struct.unpack("<Q", struct.pack("<d", v))[0]
    return v & ((1 << (SZ[dt] * 8)) - 1)


def apply_op(op, dt, s, r):
    """reduce_fn (sendbuf s, recvbuf r) on element vectors of bit patterns -> new r"""
    if op == 3:
        out = list(r)
        for i in range(0, len(r) - 1, 2):
            a, b, c, d = r[i], r[i + 1], s[i], s[i + 1]
            out[i] = (a * c) & 0xffffffff
            out[i + 1] = (a * d + b) & 0xffffffff
        return out
    if op == 4:
        out = list(r)
        for i in range(0, len(r) - 2, 3):
            a, b, c, x, y, z = r[i], r[i + 1], r[i + 2], s[i], s[i + 1], s[i + 2]
            out[i] = (a * x) & 0xffffffff
            out[i + 1] = (a * y + b * z) & 0xffffffff
            out[i + 2] = (c * z) & 0xffffffff
        return out
    out = []
    for x, y in zip(s, r):
        sv, rv = dec(dt, x), dec(dt, y)
        if op == 0:
            out.append(x if sv < rv else y)
        elif op == 1:
            out.append(x if sv > rv else y)
        else:
            if dt == 3:
                out.append(enc(dt, f32(rv + sv)))
            elif dt == 4:
                out.append(enc(dt, rv + sv))
            else:
                out.append(enc(dt, rv + sv))
    return out


def eval_sym(expr, op, dt, leaf, tokens, start=0, want_pos=False):
    """expr: list of ints (prefix code).  leaf(r) / tokens[k] give element vectors.  Reads ONE tree beginning at `start`
    (the outputs of a history of calls are several trees in a row); with want_pos also returns where it ends."""
    pos = [start]

    def go():
        t = expr[pos[0]]
        pos[0] += 1
        if t == 0:
            r = expr[pos[0]]
            pos[0] += 1
            return leaf(r)
        if t == 2:
            k = expr[pos[0]]
            pos[0] += 1
            return tokens[k]
        s = go()
        r = go()
        return apply_op(op, dt, s, r)
    v = go()
    return (v, pos[0]) if want_pos else v


def oracle_tree(op, dt, xs, P):
    """independent: balanced binary tree over rank order, depending on P only"""
    m = 0
    while (1 << m) < P:
        m += 1

    def val(lo, size):
        if size == 1:
            return xs[lo]
        left = val(lo, size // 2)
        if lo + size // 2 < P:
            return apply_op(op, dt, val(lo + size // 2, size // 2), left)
        return left
    return val(0, 1 << m)


def words_of(b, esz):
    return [int.from_bytes(b[k:k + esz], "little") for k in range(0, len(b), esz)]


SPECIAL_D = [0.0, -0.0, 1.0, -1.0, 1e16, -1e16, 1e-30, 3.0, 0.1, 0.2, 1e300, -1e300, 5e-324, 2.0 ** 53, 1.0 + 2.0 ** -52]
SPECIAL_F = [0.0, -0.0, 1.0, -1.0, 1e8, -1e8, 1e-30, 0.1, 3.0, 16777216.0, 16777217.0, 1e30, -1e30]


def gen_value(rng, dt):
    if dt == 4:
        v = rng.choice(SPECIAL_D) if rng.random() < 0.5 else rng.uniform(-1, 1) * 10 ** rng.randrange(-5, 17)
        return enc(4, v)
    if dt == 3:
        v = rng.choice(SPECIAL_F) if rng.random() < 0.5 else rng.uniform(-1, 1) * 10 ** rng.randrange(-5, 9)
        return enc(3, f32(v))
    n = SZ[dt] * 8
    k = rng.random()
    if k < 0.3:
        return rng.choice([0, 1, (1 << n) - 1, 1 << (n - 1), (1 << (n - 1)) - 1, 2, 3])
    return rng.getrandbits(n)


def gen_cases(ctx):
    rng = ctx.rng
    cases = []
    Ps = [1, 2, 3, 4, 5, 7, 8, 9, 10, 12, 15, 16, 17, 20, 24, 31, 32, 33] if ctx.quick else list(range(1, 40)) + [63, 64, 65, 100, 128, 129]
    for P in Ps:
        for rep in range(2 if ctx.quick else 5):
            op = rng.choice([0, 1, 2, 3, 4])
            dt = 1 if op >= 3 else rng.choice(range(9))
            count = rng.choice([0, 1, 2, 3, 5]) if op < 3 else (rng.choice([2, 4]) if op == 3 else rng.choice([3, 6]))
            vals = [gen_value(rng, dt) for _ in range(P * count)]
            dseed = rng.randrange(1 << 16)
            # the same data: allreduce, and reduce to several targets, under different schedules
            targets = [-1] + sorted(set([0, P - 1, rng.randrange(P), rng.randrange(P), min(1, P - 1)]))
            for t in targets:
                cases.append((P, rng.randrange(1 << 30), rng.randrange(8), op, dt, count, t, dseed, tuple(vals)))
    # every (datatype, built-in operation) pair on every run, with values on both sides of the sign bit of the type
    # (a kernel that treats an unsigned type as signed, or the reverse, shows only there)
    for dt in range(9):
        for op in (0, 1, 2):
            for P in ((2, 9) if ctx.quick else (2, 3, 9, 17)):
                count = 3
                n = SZ[dt] * 8
                if dt in (3, 4):
                    vals = [gen_value(rng, dt) for _ in range(P * count)]
                else:
                    pool = [0, 1, (1 << n) - 1, 1 << (n - 1), (1 << (n - 1)) - 1, (1 << (n - 1)) + 1, 5]
                    vals = [rng.choice(pool) if rng.random() < 0.8 else rng.getrandbits(n) for _ in range(P * count)]
                dseed = rng.randrange(1 << 16)
                for t in (-1, 0, P - 1):
                    cases.append((P, rng.randrange(1 << 30), rng.randrange(8), op, dt, count, t, dseed, tuple(vals)))
    # MIN / MAX on floating-point types where the operands compare EQUAL but differ in their bits (+0.0 / -0.0): the result
    # is the bit pattern that the fixed tree over rank order selects (on a tie the accumulator wins), the same on every
    # rank, for every target and under every schedule - an implementation that folds in arrival order shows here
    for dt in (3, 4):
        z = [enc(dt, 0.0), enc(dt, -0.0)]
        for op in (0, 1):
            for P in ((2, 3, 5, 9) if ctx.quick else (2, 3, 4, 5, 6, 7, 8, 9, 12, 17)):
                count = 4
                vals = [rng.choice(z) for _ in range(P * count)]
                vals[0], vals[count] = z[0], z[1]                 # ranks 0 and 1 differ in the first item
                dseed = rng.randrange(1 << 16)
                for t in [-1, -1, 0, P - 1, P // 2]:
                    cases.append((P, rng.randrange(1 << 30), rng.randrange(8), op, dt, count, t, dseed, tuple(vals)))
    # LONG buffers with a custom operator whose operand spans three items: the operator must see the buffer as a whole
    # (or at least in pieces that respect its operands); 65538 unsigned = 262152 bytes, just above 256 KiB, and a
    # second length in the megabyte range in the thorough tier
    for P in ((2, 3, 9) if ctx.quick else (2, 3, 5, 8, 9, 17)):
        for count in ((65538,) if ctx.quick else (65538, 3 * 100001)):
            if P * count > 1600000:
                continue
            vals = [rng.getrandbits(32) | 1 for _ in range(P * count)]
            dseed = rng.randrange(1 << 16)
            for t in (-1, P - 1):
                cases.append((P, rng.randrange(1 << 30), rng.randrange(8), 4, 1, count, t, dseed, tuple(vals)))
    return cases


KIND = ["sc_reduce", "sc_allreduce", "sc_reduce_custom", "sc_allreduce_custom"]


def gen_seqs(ctx):
    """SEQUENCES of 2-5 calls on one communicator, back to back with no barrier: all four entry points, count / datatype /
    operator / target changing from call to call; the same target twice in a row with different counts (two messages of
    different lengths from the same sender in one channel), targets moving, allreduce between reduces.  Adversaries that let
    single ranks run ahead (starve, low-first, high-first) are over-represented.  A sequence = (P, seed, adv, [(op, dt, count, target, vals)])."""
    rng = ctx.rng
    seqs = []
    Ps = [2, 3, 5, 8, 9, 12, 17, 33] if ctx.quick else [2, 3, 4, 5, 7, 8, 9, 10, 12, 16, 17, 24, 31, 32, 33, 40, 64, 65]

    def one_call(P, kind, target=None, count=None):
        if kind < 2:
            op, dt = rng.choice([0, 1, 2]), rng.randrange(9)
            cnt = rng.choice([0, 1, 2, 3, 5, 8]) if count is None else count
        else:
            op, dt = rng.choice([3, 4]), 1
            cnt = (rng.choice([2, 4, 6]) if op == 3 else rng.choice([3, 6, 9])) if count is None else count * (2 if op == 3 else 3)
        t = -1 if kind in (1, 3) else (rng.randrange(P) if target is None else target)
        vals = tuple(gen_value(rng, dt) for _ in range(P * cnt))
        return (op, dt, cnt, t, vals)
    for P in Ps:
        for rep_ in range(4 if ctx.quick else 8):
            n = rng.randrange(2, 6)
            if rep_ == 0:
                # all four entry points in one sequence, in random order, plus one more call
                kinds = rng.sample(range(4), 4) + [rng.randrange(4)]
                calls = [one_call(P, k) for k in kinds]
            elif rep_ == 1:
                # the same target again and again with growing buffers, then another target: FIFO per (source, destination, tag)
                t = rng.randrange(P)
                calls = [one_call(P, rng.choice([0, 2]), target=t, count=c) for c in (1, 3, 2)[:max(2, n - 1)]] + [one_call(P, 0, target=(t + 1) % P)]
            else:
                calls = [one_call(P, rng.randrange(4)) for _ in range(n)]
            adv = rng.choice([0, 1, 1, 1, 2, 3, 4, 5, 6, 6, 7, 7])
            seqs.append((P, rng.randrange(1 << 30), adv, calls))
    return seqs


def seq_text(q):
    P, seed, adv, calls = q
    t = "seq %d %d %d %d\n" % (P, seed, adv, len(calls))
    for (op, dt, count, target, vals) in calls:
        t += "%d %d %d %d\n%s\n" % (op, dt, count, target, " ".join("%x" % x for x in vals))
    return t


def split_calls(trace, P, ncalls):
    """the trace of a sequence run cut at the "call-end" notes of every rank: one sub-trace per call; and how far ahead of the
    slowest unfinished rank the fastest one got (in calls), following the global completion order of the trace"""
    cur = [0] * P
    parts = [[] for _ in range(ncalls + 1)]
    lag = 0
    for e in trace:
        r = e.get("r", -1)
        if not 0 <= r < P:
            continue
        if e.get("f") == "note":
            cur[r] += 1
            continue
        parts[min(cur[r], ncalls)].append(e)
        active = [c for c in cur if c < ncalls]
        if active:
            lag = max(lag, max(active) - min(active))
    return parts, lag


def run(ctx):
    import genall
    # T1: Gen/Consts.v, Gen/Search.v, Gen/Macros.v and Gen/ReduceC03.v (the arithmetic of sc_reduce_recursive / _alltoall / _custom_dispatch
    # and the dispatch tables of the typed kernels; proved equal to the model in coq/C03/ReduceGen.v) are regenerated from the working
    # tree before the theorems are checked; coq/Gen is shared: if another process regenerated a group meanwhile, the step is repeated
    GROUPS = ["Consts", "Search", "Macros", "ReduceC03"]
    for attempt in range(3):
        st = genall.run(GROUPS)
        nb, ob, di = len(ctx.broken), ctx.cov["obligations"], ctx.cov["discharged"]
        for g, s in st.items():
            ctx.log("c2g", g, s)
            if s.startswith("FAILED"):
                ctx.tie_broken("translator group " + g, s)
        ctx.props()
        st2 = genall.run(GROUPS)
        if not any("(changed)" in v_ for v_ in st2.values()):
            break
        ctx.log("coq/Gen was regenerated by another process during the proof step: repeating")
        del ctx.broken[nb:]
        ctx.cov["obligations"], ctx.cov["discharged"] = ob, di
    # the oracle's datatype tables (SZ, SIGNED above) against the generated dispatch tables of sc_reduce_max / _min / _sum:
    # harness datatype k (DTN[k]) is the MPI datatype HARNESS_DT[k] of the numbering in Gen/ReduceC03.v
    HARNESS_DT = ["sc_MPI_INT", "sc_MPI_UNSIGNED", "sc_MPI_LONG", "sc_MPI_FLOAT", "sc_MPI_DOUBLE", "sc_MPI_CHAR", "sc_MPI_SHORT",
                  "sc_MPI_UNSIGNED_LONG", "sc_MPI_LONG_LONG_INT"]
    try:
        infos = json.load(open(os.path.join(vlib.COQ, "Gen", "ReduceC03.status"))).get("infos", [])
        for op in ("max", "min", "sum"):
            tab = [i for i in infos if i.get("name") == "reduce_%s_types" % op]
            if len(tab) != 1:
                if not st.get("ReduceC03", "").startswith("FAILED"):
                    ctx.tie_broken("kernel table", "no generated table reduce_%s_types" % op)
                continue
            names = tab[0]["names"]
            rows = dict((names[r[0]], (r[1], r[2], r[3])) for r in reversed(tab[0]["table"]))   # the FIRST branch that tests a datatype decides
            for k, nm in enumerate(HARNESS_DT):
                want = (SZ[k], 1 if SIGNED[k] in (True, None) else 0, 1 if SIGNED[k] is None else 0)
                if rows.get(nm) != want:
                    ctx.tie_broken("kernel table sc_reduce_%s" % op, "%s is reduced over (bytes, signed, floating) = %s, the oracle assumes %s for '%s'" % (
                        nm, rows.get(nm), want, DTN[k]))
    except (OSError, ValueError, KeyError, IndexError) as e:
        ctx.tie_broken("kernel table", "cannot read the generated tables: %s" % e)
    v = ctx.variant(mpi="sim", san=True, cflags_extra=("-fno-sanitize=nonnull-attribute", "-fwrapv", "-fno-sanitize=signed-integer-overflow"))
    exe = ctx.cc([os.path.join(vlib.TOOLS, "harness", "c03_harness.c"), os.path.join(vlib.TOOLS, "simmpi", "simmpi.c")],
                 os.path.join(ctx.scratch, "c03_harness"), v, extra=("-DTRACE_MAXPAYLOAD=8388608",))   # long buffers are co-simulated too
    cases = gen_cases(ctx)
    seqs = gen_seqs(ctx)
    if ctx.replay:
        rp = json.load(open(ctx.replay)).get("replay", {})
        if "case" in rp:
            c = rp["case"]
            cases = [tuple(c[:8]) + (tuple(c[8]),)] + cases[:5]
            seqs = seqs[:2]
        if "seq" in rp:
            q = rp["seq"]
            seqs = [(q[0], q[1], q[2], [tuple(c[:4]) + (tuple(c[4]),) for c in q[3]])] + seqs[:2]
            cases = cases[:5]
    text = "".join(" ".join(str(x) for x in c[:8]) + "\n" + " ".join("%x" % x for x in c[8]) + "\n" for c in cases)
    text += "".join(seq_text(q) for q in seqs)
    env = dict(os.environ, VERIF_SCRATCH=ctx.scratch, ASAN_OPTIONS="detect_leaks=0")
    rc, lines, err = ctx.run_lines([exe], text, timeout=1500, env=env)
    if rc != 0:
        ctx.violation("harness-crash", "c03 harness ended with status %s: %s" % (rc, err[-800:]), dict(stderr=err[-3000:]))
    runs = mpitrace.parse_runs(lines)
    mlines, mindex = [], []
    trees = {}
    for P in sorted(set(c[0] for c in cases)):
        mlines.append("tree %x" % P)
        mindex.append(("tree", P))
    dist = {"P": {}, "op": {}, "dt": {}, "target": {"allreduce": 0, "reduce": 0}}
    groups = {}
    nbad = 0
    per_run = {}
    for i, c in enumerate(cases):
        P, seed, adv, op, dt, count, target, dseed, vals = c
        dist["P"][P] = dist["P"].get(P, 0) + 1
        dist["op"][op] = dist["op"].get(op, 0) + 1
        dist["dt"][DTN[dt]] = dist["dt"].get(DTN[dt], 0) + 1
        dist["target"]["allreduce" if target < 0 else "reduce"] += 1
        ctx.count_case(c[:8], nontrivial=P > 1 and count > 0)
        if i >= len(runs):
            ctx.tie_broken("harness output", "run %d missing" % i)
            break
        r = runs[i]
        rep = dict(case=list(c[:8]) + [list(vals)], rc=r.rc, report=r.report[:1500])
        key = "P%d-op%d-%s-t%s" % (P, op, DTN[dt].replace(" ", ""), "all" if target < 0 else "red")
        if r.rc != 0:
            nbad += 1
            if nbad <= 3:
                ctx.violation("schedule:" + key, "reduce run did not end normally (simmpi code %s): %s" % (r.rc, r.report[:300]), rep)
            continue
        esz = SZ[dt]
        xs = [list(vals[q * count:(q + 1) * count]) for q in range(P)]
        outs = []
        for q in range(P):
            w = r.outs[q].split()
            outs.append(words_of(b"" if w[1] in ("-", "none") else bytes.fromhex(w[1]), esz))
        exp = oracle_tree(op, dt, xs, P)
        who = range(P) if target < 0 else [target]
        for q in who:
            if outs[q] != exp:
                nbad += 1
                if nbad <= 3:
                    rep.update(rank=q, got=["%x" % x for x in outs[q]], expected=["%x" % x for x in exp])
                    ctx.violation("value:" + key, "rank %d: result differs from the balanced tree over rank order" % q, rep)
                break
        groups.setdefault((P, op, dt, count, dseed), []).append((i, target, [outs[q] for q in who]))
        if r.mem not in (0, None):
            ctx.violation("memory:" + key, "sc_memory_status changed by %s over a reduce call" % r.mem, rep)
        per = mpitrace.rank_events(r.trace, P)
        per_run[i] = (per, outs)
        for q in range(P):
            evs = []
            for e in [x for x in per[q] if x[0] != "W"]:
                if e[0] == "S":
                    evs.append("S %x %x -" % (e[1], e[2]))
                elif e[0] == "R":
                    evs.append("R %x %x %x -" % (e[1], e[2], e[3] if e[3] is not None else 0))
            evs.append("O -")
            mlines.append("prog %x %x %d %x | %s" % (P, q, 1 if target < 0 else 0, max(target, 0), " ; ".join(evs)))
            mindex.append((i, q))
    # ---- sequences of calls, judged per call
    sdist = {"sequences": len(seqs), "calls": 0, "entry": dict((k, 0) for k in KIND), "length": {}, "calls_ahead": {}, "adversary": {},
             "same_target_twice_other_count": 0, "P": {}}
    seq_run = {}
    for si, q in enumerate(seqs):
        P, seed, adv, calls = q
        ri = len(cases) + si
        meta = tuple((c[0], c[1], c[2], c[3]) for c in calls)
        ctx.count_case(("seq", P, seed, adv, meta), nontrivial=P > 1 and any(c[2] > 0 for c in calls))
        sdist["calls"] += len(calls)
        sdist["length"][len(calls)] = sdist["length"].get(len(calls), 0) + 1
        sdist["adversary"][adv] = sdist["adversary"].get(adv, 0) + 1
        sdist["P"][P] = sdist["P"].get(P, 0) + 1
        for j, c in enumerate(calls):
            sdist["entry"][KIND[(2 if c[0] >= 3 else 0) + (1 if c[3] < 0 else 0)]] += 1
            if j and c[3] >= 0 and calls[j - 1][3] == c[3] and calls[j - 1][2] * SZ[calls[j - 1][1]] != c[2] * SZ[c[1]]:
                sdist["same_target_twice_other_count"] += 1
        if ri >= len(runs):
            ctx.tie_broken("harness output", "sequence run %d missing" % si)
            break
        r = runs[ri]
        rep = dict(seq=[P, seed, adv, [list(c[:4]) + [list(c[4])] for c in calls]], rc=r.rc, report=r.report[:1500])
        key = "seq-P%d-%s" % (P, "".join("arAR"[(2 if c[0] >= 3 else 0) + (1 if c[3] < 0 else 0)] for c in calls))
        if r.rc != 0:
            nbad += 1
            if nbad <= 3:
                ctx.violation("schedule:" + key, "sequence of %d reduce calls did not end normally (simmpi code %s): %s" % (len(calls), r.rc, r.report[:300]), rep)
            continue
        souts = []           # souts[q][j]
        for qq in range(P):
            w = r.outs[qq].split()
            hs = w[1].split("/") if len(w) > 1 else []
            souts.append([words_of(b"" if h in ("-", "none") else bytes.fromhex(h), SZ[calls[j][1]]) for j, h in enumerate(hs)])
        okrun = all(len(x) == len(calls) for x in souts)
        if not okrun:
            ctx.tie_broken("harness output", "sequence run %d: outputs incomplete" % si)
            continue
        for j, (op, dt, count, target, vals) in enumerate(calls):
            xs = [list(vals[qq * count:(qq + 1) * count]) for qq in range(P)]
            exp = oracle_tree(op, dt, xs, P)
            for qq in (range(P) if target < 0 else [target]):
                if souts[qq][j] != exp:
                    nbad += 1
                    if nbad <= 3:
                        rep2 = dict(rep, call=j, rank=qq, got=["%x" % x for x in souts[qq][j]], expected=["%x" % x for x in exp])
                        ctx.violation("value:" + key, "call %d (%s) of a sequence, rank %d: result differs from the balanced tree over rank order of THIS call's buffers" % (
                            j, KIND[(2 if op >= 3 else 0) + (1 if target < 0 else 0)], qq), rep2)
                    break
        if r.mem not in (0, None):
            ctx.violation("memory:" + key, "sc_memory_status changed by %s over a sequence of reduce calls" % r.mem, rep)
        parts, lag = split_calls(r.trace, P, len(calls))
        sdist["calls_ahead"][lag] = sdist["calls_ahead"].get(lag, 0) + 1
        if parts[len(calls)]:
            ctx.tie_broken("sequence trace", "run %d: MPI calls after the last call-end note" % si)
        pers = [mpitrace.rank_events(parts[j], P) for j in range(len(calls))]
        seq_run[si] = (pers, souts)
        for qq in range(P):
            evs = []
            for j in range(len(calls)):
                for e in [x for x in pers[j][qq] if x[0] != "W"]:
                    if e[0] == "S":
                        evs.append("S %x %x -" % (e[1], e[2]))
                    elif e[0] == "R":
                        evs.append("R %x %x %x -" % (e[1], e[2], e[3] if e[3] is not None else 0))
            evs.append("O -")
            mlines.append("hist %x %x %s | %s" % (P, qq, " ".join("%d %x" % (1 if c[3] < 0 else 0, max(c[3], 0)) for c in calls), " ; ".join(evs)))
            mindex.append((("seq", si), qq))
    # same data, different schedules / targets: identical bits
    for k, lst in groups.items():
        ref = lst[0][2][0]
        for (i, target, vs) in lst:
            for vv in vs:
                if vv != ref:
                    nbad += 1
                    if nbad <= 3:
                        ctx.violation("bits-differ:P%d-op%d-%s" % (k[0], k[1], DTN[k[2]].replace(" ", "")),
                                      "results for the same inputs differ between targets/ranks/schedules", dict(case=list(cases[i][:8]) + [list(cases[i][8])]))
                    break
    try:
        mexe = ctx.model("c03")
        rc2, mout, err2 = ctx.run_lines([mexe], "\n".join(mlines) + "\n", timeout=900)
        mout = [l for l in mout if l != ""]
        if rc2 != 0 or len(mout) != len(mlines):
            ctx.tie_broken("c03 model run", "exit %s, %d of %d lines: %s" % (rc2, len(mout), len(mlines), err2[-500:]))
        nmis = 0
        ncos = 0
        nseq_cos = 0
        for (i, q), l in zip(mindex, mout):
            if i == "tree":
                trees[q] = [int(x, 16) for x in l.split(",")] if l != "-" else []
                continue
            if isinstance(i, tuple):
                # one rank of a sequence: the whole trace against the history program; payloads and outputs per call
                si = i[1]
                P, seed, adv, calls = seqs[si]
                if not l.startswith("OK"):
                    nmis += 1
                    if nmis <= 3:
                        ctx.tie_broken("co-simulation rank %d of sequence %s" % (q, (P, seed, adv, [c[:4] for c in calls])), l[:400])
                    continue
                nseq_cos += 1
                pers, souts = seq_run[si]
                evcall, toks, sent = [], [], []
                for j in range(len(calls)):
                    for e in pers[j][q]:
                        if e[0] in ("S", "R"):
                            evcall.append(j)
                            sent.append(e)
                        if e[0] == "R":
                            toks.append(words_of(e[4] or b"", SZ[calls[j][1]]))

                def leaf_of(code):
                    j, rr = code >> 16, code & 0xffff
                    cnt = calls[j][2]
                    return list(calls[j][4][rr * cnt:(rr + 1) * cnt])
                for part in l.split(" | ")[1:]:
                    name, _, ex = part.partition("=")
                    expr = [int(x, 16) for x in ex.split(",")] if ex != "-" else []
                    if name == "O":
                        pos = 0
                        for j, c in enumerate(calls):
                            if not (c[3] < 0 or c[3] == q):
                                continue
                            if pos >= len(expr):
                                val = None
                            else:
                                val, pos = eval_sym(expr, c[0], c[1], leaf_of, toks, start=pos, want_pos=True)
                            if val != souts[q][j]:
                                nmis += 1
                                if nmis <= 3:
                                    ctx.tie_broken("co-simulation output of call %d, rank %d of sequence %s" % (j, q, (P, seed, adv, [c_[:4] for c_ in calls])),
                                                   "model %s impl %s" % (val, souts[q][j]))
                        if pos != len(expr):
                            nmis += 1
                            if nmis <= 3:
                                ctx.tie_broken("co-simulation output rank %d of sequence %d" % (q, si), "the model returns more values than this rank is entitled to")
                    else:
                        idx = int(name[1:])
                        j = evcall[idx]
                        val = eval_sym(expr, calls[j][0], calls[j][1], leaf_of, toks)
                        got = words_of(sent[idx][3], SZ[calls[j][1]])
                        if val != got:
                            nmis += 1
                            if nmis <= 3:
                                ctx.tie_broken("co-simulation payload rank %d event %d (call %d) of sequence %s" % (q, idx, j, (P, seed, adv, [c_[:4] for c_ in calls])),
                                               "model %s impl %s" % (val, got))
                continue
            c = cases[i]
            P, seed, adv, op, dt, count, target, dseed, vals = c
            if not l.startswith("OK"):
                nmis += 1
                if nmis <= 3:
                    ctx.tie_broken("co-simulation rank %d of case %s" % (q, c[:8]), l[:400])
                continue
            ncos += 1
            per, outs = per_run[i]
            esz = SZ[dt]
            toks = [words_of(e[4] or b"", esz) for e in per[q] if e[0] == "R"]
            sends = [e for e in per[q] if e[0] in ("S", "R")]
            xs = list(vals[q * count:(q + 1) * count])
            for part in l.split(" | ")[1:]:
                name, _, ex = part.partition("=")
                expr = [int(x, 16) for x in ex.split(",")] if ex != "-" else []
                val = eval_sym(expr, op, dt, lambda rr: xs, toks)
                if name == "O":
                    if (target < 0 or q == target) and val != outs[q]:
                        nmis += 1
                        if nmis <= 3:
                            ctx.tie_broken("co-simulation output rank %d of case %s" % (q, c[:8]), "model %s impl %s" % (val, outs[q]))
                else:
                    idx = int(name[1:])
                    sent = words_of(sends[idx][3], esz)
                    if val != sent:
                        nmis += 1
                        if nmis <= 3:
                            ctx.tie_broken("co-simulation payload rank %d event %d of case %s" % (q, idx, c[:8]), "model %s impl %s" % (val, sent))
        # global model's tree against the implementation's bits
        for i, c in enumerate(cases):
            if i not in per_run:
                continue
            P, seed, adv, op, dt, count, target, dseed, vals = c
            xs = [list(vals[q * count:(q + 1) * count]) for q in range(P)]
            val = eval_sym(trees[P], op, dt, lambda rr: xs[rr], [])
            q = 0 if target < 0 else target
            if val != per_run[i][1][q]:
                nmis += 1
                if nmis <= 3:
                    ctx.tie_broken("global tree model vs implementation, case %s" % (c[:8],), "model %s impl %s" % (val, per_run[i][1][q]))
        ctx.notes["cosimulated_rank_traces"] = ncos
        ctx.notes["cosimulated_rank_traces_of_sequences"] = nseq_cos
        ctx.notes["cosim_mismatches"] = nmis
    except vlib.BuildError as e:
        ctx.tie_broken("c03 model build", str(e)[-1500:])
    ctx.cov["disagreements_checked"] = len(mlines)
    ctx.cov["rule"] = ("runs of sc_reduce/sc_allreduce(+_custom) on the simulated MPI: P on both sides of 8/9, 16/17, 32/33, all 9 datatypes, MIN/MAX/SUM and an "
                       "associative non-commutative custom operators on pairs and on triples of items, counts 0..6 and 65538 (262152 bytes: long buffers), values incl. +-0, 1e16/1/-1e16, integer extremes; each data set is reduced to "
                       "several targets and all-reduced under different seeds and adversaries and the bits compared; non-trivial = P > 1 and count > 0.  "
                       "Sequences of 2-5 calls without barriers (all four entry points in one sequence; the same target repeatedly with other counts; random), "
                       "P on both sides of 8/9, adversaries that let ranks run ahead over-represented (notes.sequences.calls_ahead = how many calls the fastest "
                       "rank was ahead of the slowest unfinished one), every call judged by the oracle tree of its own buffers, every rank's whole trace "
                       "co-simulated against hist_prog")
    ctx.notes["distribution"] = dist
    ctx.notes["sequences"] = sdist
    for c in cases[:: max(1, len(cases) // 4)][:4]:
        ctx.sample({"P": c[0], "seed": c[1], "adversary": c[2], "op": c[3], "dtype": DTN[c[4]], "count": c[5], "target": c[6]})
    ctx.cov["trusted_base"] = ["T1: the per-rank arithmetic of sc_reduce_recursive / sc_reduce_alltoall / sc_reduce_custom_dispatch (bias arguments, tests, recursion arguments, peers, tag, operand order, slots), the WHOLE body and header of the posting loop of sc_reduce_alltoall (memcpy of the own contribution, Irecv / Isend with buffer, byte count, peer, tag, request slot, the unused slots), both Waitall calls with their counts, the allocation sizes, the copy of the result, the four arguments of every reduce_fn call, the buffers / count / datatype handed from the four entry points down to every level (target -1 exactly for the allreduce variants), the kernel chosen per operation, and the dispatch tables + integer element operations of sc_reduce_max / _min / _sum are proved EQUAL to Gen/ReduceC03.v, regenerated from the working tree on every run (tools/c2g + slicelib + clang-14 JSON AST trusted; add-ons of groups_C03.py: `a = b = v;` read as `b = v; a = b;`, and the syntactic test that data / count / datatype / reduce_fn / the tree position are never assigned in the two routines); the oracle's SZ / SIGNED tables are compared with the generated dispatch tables on every run",
                               "sequences of calls: the cut of a rank's trace into calls is by the harness's trace note after each call",
                               "message sizes: the messages are (count, datatype) (T1, unguarded); the co-simulation compares the BYTES simmpi reports for every message with the model's payload evaluated at the element size of the call's datatype, for all 9 datatypes of the harness",
                               "tools/simmpi and its trace", "Python float arithmetic as IEEE-754 binary64/binary32 (struct rounding) in the evaluation of symbolic payloads",
                               "sc_reduce: the step from the per-rank programs (tied to the C code by co-simulation of every rank's trace) to the global "
                               "tree model under all interleavings is PROVED (C03_reduce_every_schedule, interleaving semantics of coq/MPI/Sem.v; "
                               "C03_allreduce_every_schedule for the literal posting-order program of sc_allreduce under the posted-receive "
                               "semantics of coq/MPI/SemPosted.v: a pending Irecv does not hold back later Isends of its window, receives "
                               "complete in any order); the reading of Irecv/Isend/Waitall by that semantics is argued in docs/C03.md",
                               "Coq standard-library axiom functional_extensionality_dep (equality of global states in the confluence theorem)"]
    ctx.assumptions += ["signed integer sums wrap (harness built with -fwrapv; overflow is undefined behaviour in C and in MPI_SUM alike)", "MPI delivers every message once, in order per (source, tag, communicator)", "long double is not exercised (no portable bit-exact reference)"]
    return "proof"
