"""C14 - shared arrays and node communicators.  Proof about the node grid, the four sc_shmem flavours as compositions
of collective specifications, and the write_start/write_end protocol (C14/ShmemModel.v).
Tie T3: the real sc_shmem_* / sc_mpi_comm_attach_node_comms run on the simulated MPI (shared windows in one address
space, Comm_split_type with a configurable node size, contiguous or round robin); an independent oracle judges every
rank's view of every array, the write_start grants, the communicator grid, what sc_mpi_comm_get_node_comms returns
after detach and the objects left behind; the extracted model must predict the same views and grid, the same per-rank
sequence of MPI calls of every operation and the same number of live node communicators after attach / after detach."""
import os, sys, json
import vlib, mpitrace

ADVS = list(range(8))
M = 0xffffffff
TSIZE = [1, 2, 2, 4, 4, 8, 8, 8, 1, 8]          # 8 = sc_MPI_BYTE, 9 = sc_MPI_2INT: only as send / receive signature of sc_shmem_allgather
TSIGNED = [True, True, False, True, False, True, False, True]
TNAME = ["char", "short", "ushort", "int", "unsigned", "long", "ulong", "longlong", "byte", "2int"]
FNAME = ["basic", "prescan", "window", "window_prescan"]


def mix(a, b, c):
    x = (a * 2654435761 + b * 40503 + c * 9176 + 12345) & M
    x ^= x >> 13
    x = (x * 0x5bd1e995) & M
    x ^= x >> 15
    x = (x * 0x85ebca6b) & M
    x ^= x >> 16
    return x


def item(d, dseed, r, c):
    """value of item c of rank r (the C value, as a Python int)"""
    lo, hi = mix(dseed, r, c), mix(dseed ^ 0x5a5a5a5a, r, c)
    if d == 0:
        v = lo & 0xff
        return v - 256 if v >= 128 else v
    if d == 1:
        v = lo & 0xffff
        return v - 65536 if v >= 32768 else v
    if d == 2:
        return lo & 0xffff
    if d == 3:
        return lo % 2000001 - 1000000
    if d == 4:
        return lo
    if d == 5:
        return (((hi << 20) | (lo & 0xfffff)) & 0xffffffffffffffff) % 2000000000001 - 1000000000000
    if d == 6:
        return (hi << 32) | lo
    return lo % 2000001 - 1000000


def wrap(d, v):
    bits = 8 * TSIZE[d]
    v &= (1 << bits) - 1
    if TSIGNED[d] and v >= 1 << (bits - 1):
        v -= 1 << bits
    return v


def decode(d, b):
    ts = TSIZE[d]
    return [int.from_bytes(b[i:i + ts], "little", signed=TSIGNED[d]) for i in range(0, len(b), ts)]


def hx(v):
    return ("-%x" % -v) if v < 0 else ("%x" % v)


def hxl(vs):
    return ",".join(hx(v) for v in vs) if vs else "-"


def node_of(P, ppn, noncontig, r):
    """simmpi's node of a rank for MPI_Comm_split_type"""
    if ppn <= 0:
        return 0
    if noncontig:
        nn = (P + ppn - 1) // ppn
        return r % nn
    return r // ppn


def sig_pair(rng, d, count, mixed=True):
    """(stype, rtype) for sc_shmem_allgather: how the count * size (d) bytes of one rank are DESCRIBED on the send and on the receive
    side; -1 = as dtype d itself.  Any two types whose size divides the byte length (counts = length / size)."""
    if not mixed:
        return (-1, -1)
    L = count * TSIZE[d]
    ok = [t for t in range(10) if L % TSIZE[t] == 0]
    st, rt = rng.choice(ok), rng.choice(ok)
    return (-1 if st == d else st, -1 if rt == d else rt)


def gen_cases(ctx, ntypes):
    rng = ctx.rng
    cases = []
    Ps = [1, 2, 3, 4, 6, 8, 9, 12] if ctx.quick else [1, 2, 3, 4, 5, 6, 7, 8, 9, 10, 12, 15, 16, 18, 24]
    for P in Ps:
        divs = [d for d in range(1, P + 1) if P % d == 0]
        for ppn in divs:
            for flavour in range(ntypes):
                for how in ("explicit", "split_type"):
                    for _ in range(1 if ctx.quick else 3):
                        d = rng.randrange(8)
                        count = rng.choice([0, 1, 1, 2, 3, 5])
                        adv = rng.choice(ADVS)
                        pa = ppn if how == "explicit" else 0
                        # sync: the callers' own barrier before each write round, or none (the protocol alone keeps the rounds apart)
                        cases.append((P, rng.randrange(1 << 30), adv, pa, ppn, 0, flavour, d, count, rng.randrange(1 << 16), rng.randrange(2), 0)
                                     + sig_pair(rng, d, count, rng.randrange(2) == 1))
                # the same grid inherited by an MPI_Comm_dup'ed communicator (attribute copy callback): everything runs on the duplicate
                how = rng.choice(["explicit", "split_type"])
                cases.append((P, rng.randrange(1 << 30), rng.choice(ADVS), ppn if how == "explicit" else 0, ppn, 0, flavour, rng.randrange(8),
                              rng.choice([1, 1, 2, 3]), rng.randrange(1 << 16), rng.randrange(2), 1, -1, -1))
    # not attached at all: every flavour must fall back to the basic behaviour
    for _ in range(6 if ctx.quick else 30):
        P = rng.choice([1, 2, 3, 5, 8])
        cases.append((P, rng.randrange(1 << 30), rng.choice(ADVS), -1, 0, 0, rng.randrange(ntypes), rng.randrange(8), rng.choice([1, 2]), rng.randrange(1 << 16), rng.randrange(2), rng.randrange(2), -1, -1))
    # node sizes that are not all equal (ppn does not divide P): sc_mpi_comm_attach_node_comms must not attach
    for _ in range(6 if ctx.quick else 30):
        P = rng.choice([3, 5, 7, 8, 10])
        ppn = rng.choice([d for d in range(2, P) if P % d != 0] or [2])
        cases.append((P, rng.randrange(1 << 30), rng.choice(ADVS), 0, ppn, 0, rng.randrange(ntypes), rng.randrange(8), 1, rng.randrange(1 << 16), rng.randrange(2), rng.randrange(2), -1, -1))
    # the dedicated probe of finding F-C14a: round-robin node partition
    for (P, ppn) in ([(8, 4), (9, 3), (4, 2)] if ctx.quick else [(8, 4), (9, 3), (4, 2), (6, 2), (6, 3), (12, 4), (16, 4)]):
        for flavour in range(ntypes):
            cases.append((P, rng.randrange(1 << 30), rng.choice(ADVS), 0, ppn, 1, flavour, 3, 1, rng.randrange(1 << 16), 1, 0, -1, -1))
    # duplicates on proper grids (more than one node AND more than one rank per node), where a transposed or otherwise
    # wrong inherited grid changes the arrays of the window flavours
    for (P, ppn) in ([(4, 2), (6, 2), (6, 3), (8, 2), (12, 3)] if ctx.quick else [(4, 2), (6, 2), (6, 3), (8, 2), (8, 4), (9, 3), (10, 5), (12, 3), (12, 4), (16, 4), (18, 6)]):
        for flavour in range(ntypes):
            cases.append((P, rng.randrange(1 << 30), rng.choice(ADVS), rng.choice([0, ppn]), ppn, 0, flavour, rng.randrange(8), rng.choice([1, 2]),
                          rng.randrange(1 << 16), 1, 1) + sig_pair(rng, 3, 2, False))
    # write rounds that follow each other directly (no barrier between a reader's last read and the next
    # sc_shmem_write_start): the protocol itself must keep the rounds apart (theorem C14_protocol_rounds_do_not_overlap;
    # finding F-C14b, repaired: the barrier inside sc_shmem_write_start_window)
    for _ in range(40 if ctx.quick else 300):
        P = rng.choice([2, 3, 4, 6, 8])
        ppn = rng.choice([d for d in range(1, P + 1) if P % d == 0])
        pa = rng.choice([0, ppn])
        cases.append((P, rng.randrange(1 << 30), rng.choice(ADVS + [1, 6, 7]), pa, ppn, 0, rng.randrange(ntypes), rng.randrange(8), rng.choice([1, 2]),
                      rng.randrange(1 << 16), 0, 0, -1, -1))
    # sc_shmem_allgather whose send and receive signatures describe the same bytes differently, on SEVERAL nodes (ppn < P; with one node
    # the internode exchange is a self-copy) and on every flavour: k x INT -> k/2 x 2INT and back, k x LONG -> 2k x INT and back, BYTE
    # counts against typed counts, narrow against wide types; on the original and on a duplicated communicator
    PAIRS = [(3, 3, 9), (3, 9, 3), (5, 5, 3), (3, 3, 5), (4, 8, 4), (6, 6, 8), (1, 1, 7), (7, 2, 7), (0, 0, 3), (3, 9, 8), (5, 8, 9), (2, 3, 1)]
    grids = [(2, 1), (4, 2), (4, 1), (6, 2), (6, 3), (8, 2), (8, 4), (9, 3), (12, 4)] if ctx.quick else \
            [(2, 1), (3, 1), (4, 2), (4, 1), (6, 2), (6, 3), (8, 2), (8, 4), (9, 3), (10, 5), (12, 3), (12, 4), (15, 5), (16, 4), (18, 6), (24, 8)]
    for (P, ppn) in grids:
        for flavour in range(ntypes):
            for (d, st, rt) in (rng.sample(PAIRS, 3) if ctx.quick else PAIRS):
                # the byte length of one rank's contribution must be a multiple of both type sizes
                m = max(TSIZE[st], TSIZE[rt]) // TSIZE[d] if max(TSIZE[st], TSIZE[rt]) > TSIZE[d] else 1
                count = m * rng.choice([1, 1, 2, 3])
                cases.append((P, rng.randrange(1 << 30), rng.choice(ADVS), rng.choice([0, ppn]), ppn, 0, flavour, d, count, rng.randrange(1 << 16),
                              rng.randrange(2), 1 if rng.randrange(4) == 0 else 0, -1 if st == d else st, -1 if rt == d else rt))
    return cases


# ---- histories of attach / detach / dup / free on one communicator (0) and its duplicate (1) -----------------------------------------
# an operation is (kind, c, ppn): kind 0 attach (ppn 0: MPI_Comm_split_type on the simulator's nodes), 1 detach, 2 dup, 3 free of the dup
def op_text(o):
    k, c, pa = o
    return ("a%d.%d" % (c, pa)) if k == 0 else ("d%d" % c if k == 1 else ("dup" if k == 2 else "free"))


def gen_histories(ctx):
    rng = ctx.rng
    out = []

    def add(P, ops, ppn_sim=1):
        d = rng.choice([3, 3, 5, 1, 6])
        out.append((P, rng.randrange(1 << 30), rng.choice(ADVS), ppn_sim, 0, d, 1, rng.randrange(1 << 16), tuple(ops)))
    A = lambda c, pa: (0, c, pa)
    D = lambda c: (1, c, 0)
    DUP, FREE = (2, 0, 0), (3, 1, 0)
    for P in ([2, 3, 4, 6, 8, 9, 12] if ctx.quick else [2, 3, 4, 5, 6, 8, 9, 10, 12, 15, 16, 18]):
        divs = [d for d in range(1, P + 1) if P % d == 0]
        pairs = [(a, b) for a in divs for b in divs]           # re-attach WITHOUT detach, incl. the same division, ppn = 1 and ppn = P
        if ctx.quick and P > 6:
            pairs = rng.sample(pairs, 6)
        for (a, b) in pairs:
            add(P, [A(0, a), A(0, b)])
        nondiv = [d for d in range(2, P) if P % d != 0]
        for _ in range(2 if ctx.quick else 6):
            a, b, c, m = rng.choice(divs), rng.choice(divs), rng.choice(divs), rng.choice(divs)
            add(P, [A(0, 0), A(0, b)], ppn_sim=m)               # auto-detected division (m ranks per node) replaced by an explicit one
            add(P, [A(0, a), A(0, 0)], ppn_sim=m)               # ... and the other way round
            add(P, [A(0, a), D(0), A(0, b)])                    # attach after detach
            add(P, [A(0, a), A(0, b), A(0, c)])
            add(P, [A(0, a), DUP, A(0, b)])                     # the original changes its division, the duplicate keeps the inherited one
            add(P, [A(0, a), DUP, A(1, b)])                     # attach on the dup while the original is attached with another division
            add(P, [A(0, a), DUP, D(0), A(1, b), A(0, c)])
            add(P, [DUP, A(1, b), A(0, a), A(1, 0), FREE, A(0, c)], ppn_sim=m)
            add(P, [A(0, a), DUP, A(1, b), FREE, A(0, c), DUP, D(1)])
            if nondiv:
                # MPI_Comm_split_type reports nodes of different sizes: the attach is refused and (libsc as it is) an older attachment stays
                add(P, [A(0, a), A(0, 0), A(0, b)], ppn_sim=rng.choice(nondiv))
    return out


def hist_expected(P, ppn_sim, ops):
    """independent restatement: after every operation the division in force on communicator 0 / 1 as the per-rank grid list, None = nothing
    attached, '-' = the communicator does not exist"""
    cur = {0: None, 1: "-"}
    steps = []
    for (k, c, pa) in ops:
        if k == 0:
            g = expected_grid((P, 0, 0, pa, ppn_sim, 0))
            if g[0] is not None:
                cur[c] = g
        elif k == 1:
            cur[c] = None
        elif k == 2:
            cur[1] = cur[0]
        else:
            cur[1] = "-"
        steps.append(dict(cur))
    return steps


def hist_live(trace, P):
    """per rank: trace note -> number of node communicators (created by Comm_split / Comm_split_type, or by Comm_dup of one of them) alive there"""
    by = [[] for _ in range(P)]
    for e in trace:
        if 0 <= e.get("r", -1) < P:
            by[e["r"]].append(e)
    out = []
    for q in range(P):
        made, d, world = set(), {}, None
        for e in sorted(by[q], key=lambda e: e.get("s", 0)):
            f = e.get("f")
            if f == "note":
                d[e.get("text")] = len(made)
            elif f in ("MPI_Comm_split", "MPI_Comm_split_type") and e.get("newc", -1) not in (-1, None):
                made.add(e.get("newc"))
            elif f == "MPI_Comm_dup" and e.get("c") in made:
                made.add(e.get("newc"))
            elif f == "MPI_Comm_free":
                made.discard(e.get("c"))
        out.append(d)
    return out


def judge_history(ctx, hc, r, bad):
    P, seed, adv, ppn_sim, nonc, d, count, dseed, ops = hc
    ts = TSIZE[d]
    key = "history-P%d%s-%s" % (P, ("-sim%d" % ppn_sim) if any(o[0] == 0 and o[2] == 0 for o in ops) else "", "_".join(op_text(o) for o in ops))
    rep = dict(history=[list(o) for o in ops], case=[P, seed, adv, ppn_sim, nonc, d, count, dseed], rc=r.rc, report=r.report[:2000],
               legend="operation (kind, communicator, ppn): kind 0 sc_mpi_comm_attach_node_comms, 1 detach, 2 MPI_Comm_dup of communicator 0, 3 MPI_Comm_free of the duplicate")

    def viol(kind, text):
        bad[0] += 1
        ctx.violation(kind + ":" + key, text, rep)
    htxt = " ; ".join(("attach(%s, %d)" % ("dup" if c else "comm", pa)) if k == 0 else (("detach(%s)" % ("dup" if c else "comm")) if k == 1 else ("dup = MPI_Comm_dup(comm)" if k == 2 else "MPI_Comm_free(dup)"))
                      for (k, c, pa) in ops)
    if r.rc != 0:
        errs = [l for l in r.report.split("\n") if l.startswith("[ERROR]")]
        viol("schedule", "history %s: run did not end normally (simmpi code %s): %s%s" % (htxt, r.rc, (errs[0][:200] + " | ") if errs else "", r.report[:200]))
        return None
    outs = [parse_out(l) for l in r.outs[1:]]
    if len(outs) != P:
        viol("output", "history %s: harness printed %d of %d rank outputs" % (htxt, len(outs), P))
        return None
    leaks = [l for l in r.report.split("\n") if l.startswith("[LEAK]") and "keyval" not in l]
    if leaks:
        viol("leak", "history %s: objects left after the final detach and free (communicators of a replaced division must be released): %s" % (htxt, "; ".join(leaks)[:400]))
    warns = [l for l in r.report.split("\n") if l.startswith("[WARNING]")]
    if warns:
        viol("nocheck" if "NOCHECK" in warns[0] else "warning", "history %s: %s" % (htxt, warns[0][:300]))
    if r.mem not in (0, None):
        viol("memory", "history %s: sc_memory_status changed by %s" % (htxt, r.mem))
    contrib = [[item(d, dseed, q, k) for k in range(count)] for q in range(P)]
    mask = (1 << (8 * ts)) - 1
    exp_ag = b"".join((v & mask).to_bytes(ts, "little") for q in range(P) for v in contrib[q])
    pre, acc = [0] * count, [0] * count
    for q in range(P):
        acc = [wrap(d, a + b) for a, b in zip(acc, contrib[q])]
        pre += acc
    exp_pre = b"".join((v & mask).to_bytes(ts, "little") for v in pre)
    exp = hist_expected(P, ppn_sim, ops)
    for k, st in enumerate(exp):
        upto = " ; ".join(htxt.split(" ; ")[:k + 1])
        for ci in (0, 1):
            name = "the duplicate" if ci else "the communicator"
            for q in range(P):
                tok = outs[q].get("s%dc%d" % (k, ci))
                if st[ci] == "-":
                    if tok is not None:
                        viol("output", "history %s: report for a communicator that does not exist" % upto)
                    continue
                if tok is None:
                    viol("output", "history %s: rank %d printed no report for %s after operation %d" % (upto, q, name, k))
                    return None
                f = tok.split(";")
                g = tuple(int(x) for x in f[0].split("/"))
                want = st[ci][q] if st[ci] is not None else (-1, -1, -1, -1)
                rep["rank"], rep["step"], rep["communicator"] = q, k, ci
                if g != want:
                    rep["got"], rep["expected"] = list(g), list(want)
                    viol("history-grid", "after %s: rank %d on %s: position (intrarank/intrasize/interrank/intersize) %s, the division in force (the LAST attach) gives %s" % (upto, q, name, g, want))
                for fl in range(4):
                    should = 1 if (fl < 2 or st[ci] is None or st[ci][q][0] == 0) else 0
                    if int(f[1][fl]) != should:
                        viol("history-writer", "after %s: rank %d on %s (position %s in the division in force): sc_shmem_write_start for flavour %s returned %s, expected %d" % (
                            upto, q, name, want, FNAME[fl], f[1][fl], should))
                    if hb(f[2 + fl]) != exp_ag:
                        viol("history-allgather", "after %s: rank %d on %s, flavour %s: sc_shmem_allgather does not leave the contributions in rank order" % (upto, q, name, FNAME[fl]))
                for i, fl in enumerate((2, 3)):
                    if hb(f[6 + i]) != exp_pre:
                        viol("history-prefix", "after %s: rank %d on %s, flavour %s: sc_shmem_prefix is not (0, s0, s0+s1, ...)" % (upto, q, name, FNAME[fl]))
    return dict(outs=outs, exp=exp)


def run_histories(ctx, exe, env, bad, dist):
    hists = gen_histories(ctx)
    if ctx.replay:
        rp = json.load(open(ctx.replay)).get("replay", {})
        if "history" in rp:
            hists = [tuple(rp["case"]) + (tuple(tuple(o) for o in rp["history"]),)] + hists[:3]
    text = "".join("H %d %d %d %d %d %d %d %d %d %s\n" % (h[:8] + (len(h[8]), " ".join("%d %d %d" % o for o in h[8]))) for h in hists)
    rc, lines, err = ctx.run_lines([exe], text, timeout=1500, env=env)
    runs = [r for r in mpitrace.parse_runs(lines) if r.mem is not None]
    del lines
    if rc != 0 or len(runs) != len(hists):
        h = hists[len(runs)] if len(runs) < len(hists) else None
        m = [l for l in err.split("\n") if "ERROR" in l or "runtime error" in l or "SUMMARY" in l]
        ctx.violation("crash", "c14 harness ended with status %s while running the history %s: %s" % (rc, h, " | ".join(m)[:600] or err[-400:]),
                      dict(history=[list(o) for o in h[8]] if h else None, case=list(h[:8]) if h else None, stderr=err[-3000:]))
    good = []
    for h, r in zip(hists, runs):
        ctx.count_case(("H",) + h, nontrivial=h[0] > 1)
        dist["histories"] = dist.get("histories", 0) + 1
        shape = " ".join(("attach" if o[0] == 0 else ["", "detach", "dup", "free"][o[0]]) + ("(dup)" if o[0] <= 1 and o[1] else "") for o in h[8])
        hs = dist.setdefault("history_shapes", {})
        hs[shape] = hs.get(shape, 0) + 1
        res = judge_history(ctx, h, r, bad)
        if res:
            good.append((h, r, res))
    # co-simulation: the life cycle hstep of the model (divisions, grids, grants, node communicators alive) against the run
    try:
        mexe = ctx.model("c14")
        mtext = "".join("H %d %d %d %d %s\n" % (h[0], h[3], h[4], len(h[8]), " ".join("%d %d %d" % o for o in h[8])) for h, _, _ in good)
        rc2, mout, err2 = ctx.run_lines([mexe], mtext, timeout=600)
        mout = [l for l in mout if l != ""]
        if rc2 != 0 or len(mout) != len(good):
            ctx.tie_broken("c14 model run (histories)", "exit %s, %d of %d lines: %s" % (rc2, len(mout), len(good), err2[-500:]))
        nmis = nsteps = 0
        for (h, r, res), l in zip(good, mout):
            P, ops = h[0], h[8]
            live = hist_live(r.trace, P)
            steps = [x.strip() for x in l.split(" | ")]
            dis = []
            if len(steps) != len(ops):
                dis.append("the model's life cycle rejects the history (%s)" % l[:80])
            for k, stp in enumerate(steps[:len(ops)]):
                m = dict(t.partition("=")[::2] for t in stp.split())
                nsteps += 1
                for q in range(P):
                    if str(live[q].get("h%d" % k)) != m.get("live"):
                        dis.append("after operation %d rank %d has %s node communicators alive, model %s" % (k, q, live[q].get("h%d" % k), m.get("live")))
                        break
                for ci in (0, 1):
                    mc = m.get("c%d" % ci, "-")
                    if (mc == "-") != (res["exp"][k][ci] == "-"):
                        dis.append("after operation %d: existence of communicator %d" % (k, ci))
                        continue
                    if mc == "-":
                        continue
                    per = mc.split(",")
                    for q in range(P):
                        f = res["outs"][q].get("s%dc%d" % (k, ci), "?;?").split(";")
                        got = ("none" if f[0] == "-1/-1/-1/-1" else f[0]) + ":" + f[1]
                        if q >= len(per) or per[q] != got:
                            dis.append("after operation %d communicator %d rank %d: grid:grants model %s impl %s" % (k, ci, q, per[q] if q < len(per) else "?", got))
                            break
                    exp_div = res["exp"][k][ci]
                    if (m.get("spec%d" % ci) == "none") != (exp_div is None):
                        dis.append("after operation %d communicator %d: in_force of the model %s, oracle %s" % (k, ci, m.get("spec%d" % ci), "none" if exp_div is None else "attached"))
            for q in range(P):
                if live[q].get("hfin") != 0:
                    dis.append("rank %d: %s node communicators alive after the final detach" % (q, live[q].get("hfin")))
                    break
            if dis:
                nmis += 1
                if nmis <= 3:
                    ctx.tie_broken("model correspondence, history %s (P=%d)" % (" ".join(op_text(o) for o in ops), P), "; ".join(dis)[:600])
        ctx.notes["history_steps_compared"] = nsteps
        ctx.notes["history_mismatches"] = nmis
    except vlib.BuildError as e:
        ctx.tie_broken("c14 model build", str(e)[-1500:])
    return len(hists)


def parse_out(l):
    w = l.split()
    d = {"rank": w[0]}
    for t in w[1:]:
        k, _, v = t.partition("=")
        d[k] = v
    return d


def hb(s):
    return b"" if s in ("-", "", None) else bytes.fromhex(s)


def expected_grid(c):
    """independent restatement: (attached?, intrarank, intrasize, interrank, intersize) per rank"""
    P, seed, adv, pa, ppn, nonc = c[:6]
    if pa < 0:
        return [None] * P
    if pa > 0:
        return [(r % pa, pa, r // pa, P // pa) for r in range(P)]
    nodes = [node_of(P, ppn, nonc, r) for r in range(P)]
    sizes = {}
    for n in nodes:
        sizes[n] = sizes.get(n, 0) + 1
    if len(set(sizes.values())) != 1:
        return [None] * P
    out = []
    for r in range(P):
        ir = sum(1 for q in range(r) if nodes[q] == nodes[r])
        er = sum(1 for q in range(r) if sum(1 for t in range(q) if nodes[t] == nodes[q]) == ir)
        out.append((ir, sizes[nodes[r]], er, len(sizes)))
    return out


def pattern(dseed, rnd, node, n):
    return bytes(mix((dseed + 77 * rnd) & M, node, k) & 0xff for k in range(n))


def judge(ctx, c, r, bad, ntypes):
    P, seed, adv, pa, ppn, nonc, flavour, d, count, dseed, sync, dup, st, rt = c
    ts = TSIZE[d]
    st, rt = (d if st < 0 else st), (d if rt < 0 else rt)
    sigtxt = "" if (st, rt) == (d, d) else "-send%dx%s-recv%dx%s" % (count * ts // TSIZE[st], TNAME[st], count * ts // TSIZE[rt], TNAME[rt])
    key = "%s%s-P%d-ppn%d-%s-%s-n%d%s%s" % ("roundrobin-" if nonc else "", FNAME[flavour], P, ppn, "explicit" if pa > 0 else ("none" if pa < 0 else "splittype"), TNAME[d], count,
                                         "-dup" if dup else "", sigtxt)
    on = "the MPI_Comm_dup'ed communicator, " if dup else ""
    rep = dict(case=list(c), rc=r.rc, report=r.report[:2000])

    def viol(kind, text):
        bad[0] += 1
        ctx.violation(kind + ":" + key, text, rep)

    if r.rc != 0:
        errs = [l for l in r.report.split("\n") if l.startswith("[ERROR]")]
        viol("schedule", "run did not end normally (simmpi code %s)%s: %s%s" % (
            r.rc, (" with sc_shmem_allgather (send %d x %s, receive %d x %s)" % (count * ts // TSIZE[st], TNAME[st], count * ts // TSIZE[rt], TNAME[rt])) if sigtxt else "",
            (errs[0][:200] + " | ") if errs else "", r.report[:200]))
        return None
    info = parse_out(r.outs[0]) if r.outs and r.outs[0].startswith("info") else {}
    outs = [parse_out(l) for l in r.outs[1:]]
    if len(outs) != P or any(o.get("grid") is None for o in outs):
        viol("output", "harness printed %d of %d rank outputs" % (len(outs), P))
        return None
    # objects left behind: libsc never frees its two attribute keyvals (they are cached in static variables and
    # simmpi keeps them for later runs); everything else must be gone after detach + free
    leaks = [l for l in r.report.split("\n") if l.startswith("[LEAK]") and "keyval" not in l]
    if leaks:
        viol("leak", "objects left after detach and free: " + "; ".join(leaks)[:400])
    warns = [l for l in r.report.split("\n") if l.startswith("[WARNING]")]
    nocheck = [l for l in warns if "MPI_MODE_NOCHECK" in l]
    if nocheck:
        # theorem C14_protocol_nocheck_assertions_hold: every lock of the protocol is taken while no conflicting lock is held
        rep["warnings"] = nocheck[:5]
        viol("nocheck", "a window lock was taken with MPI_MODE_NOCHECK while a conflicting lock was held (%d times), e.g. %s" % (len(nocheck), nocheck[0][:300]))
    if r.mem not in (0, None):
        viol("memory", "sc_memory_status changed by %s" % r.mem)
    grid = expected_grid(c)
    contrib = [[item(d, dseed, q, k) for k in range(count)] for q in range(P)]
    exp_ag = [v for q in range(P) for v in contrib[q]]
    exp_pre = [0] * count
    acc = [0] * count
    for q in range(P):
        acc = [wrap(d, a + b) for a, b in zip(acc, contrib[q])]
        exp_pre += acc
    shared = flavour >= 2 and grid[0] is not None
    writers = {}
    for q in range(P):
        o = outs[q]
        g = tuple(int(x) for x in o["grid"].split("/"))
        if grid[q] is None:
            if g != (-1, -1, -1, -1):
                viol("grid", "%srank %d: node communicators attached (%s) although none were expected" % (on, q, o["grid"]))
        elif g != grid[q]:
            rep["rank"], rep["got"], rep["expected"] = q, list(g), list(grid[q])
            viol("grid", "%srank %d: position (intrarank/intrasize/interrank/intersize) %s, expected %s" % (on, q, g, grid[q]))
        if dup:
            og = tuple(int(x) for x in o.get("og", "-9/-9/-9/-9").split("/"))
            if og != (grid[q] if grid[q] is not None else (-1, -1, -1, -1)):
                rep["rank"] = q
                viol("grid-original", "rank %d: after freeing the duplicate the ORIGINAL communicator reports position %s, expected %s" % (q, og, grid[q]))
        if o.get("det") != "1":
            rep["rank"] = q
            viol("detach", "rank %d: sc_mpi_comm_get_node_comms still returns communicators after sc_mpi_comm_detach_node_comms" % q)
        if int(o["type"]) != flavour:
            viol("type", "rank %d: sc_shmem_get_type returns %s after set_type (%d)" % (q, o["type"], flavour))
        ag, pre, cp = decode(d, hb(o["ag"])), decode(d, hb(o["pre"])), decode(d, hb(o["cp"]))
        if ag != exp_ag:
            # the oracle is on BYTES (decoded as items of the data's type for the message): whatever the two signatures, the array must
            # hold the send buffers of ranks 0 .. P-1 one after the other
            rep["rank"], rep["got"], rep["expected"] = q, ag, exp_ag
            viol("allgather", "%srank %d sees %s after sc_shmem_allgather%s, contributions in rank order are %s" % (
                on, q, ag[:12], (" (send %d x %s, receive %d x %s)" % (count * ts // TSIZE[st], TNAME[st], count * ts // TSIZE[rt], TNAME[rt])) if sigtxt else "", exp_ag[:12]))
        if pre != exp_pre:
            rep["rank"], rep["got"], rep["expected"] = q, pre, exp_pre
            viol("prefix", "%srank %d sees %s after sc_shmem_prefix, expected (0, s0, s0+s1, ...) = %s" % (on, q, pre[:12], exp_pre[:12]))
        if "pre2" in o and pre == exp_pre and decode(d, hb(o["pre2"])) != exp_pre:
            rep["rank"], rep["got"], rep["expected"] = q, decode(d, hb(o["pre2"])), exp_pre
            viol("prefix", "%srank %d sees %s after a SECOND sc_shmem_prefix into the same array (filled with 0x5a in between), expected (0, s0, s0+s1, ...) = %s" % (
                on, q, decode(d, hb(o["pre2"]))[:12], exp_pre[:12]))
        node = grid[q][2] if grid[q] is not None else 0
        if cp != ag:
            rep["rank"], rep["got"], rep["expected"] = q, cp, ag
            if shared and not sync and hb(o["cp"]) == pattern(dseed, 0, node, P * count * ts):
                viol("b2b-visible", "rank %d returned from sc_shmem_memcpy and reads the data of the NEXT write round: its node's writer "
                     "has already passed sc_shmem_write_start and overwritten the array (write_start does not wait for the readers of the node)" % q)
            else:
                viol("memcpy", "rank %d: copy differs from its source array" % q)
        # write protocol
        for rnd in (0, 1):
            w = int(o["w"][rnd])
            should = 1 if (not shared or grid[q][0] == 0) else 0
            if w != should:
                rep["rank"] = q
                viol("writer", "rank %d (position %s): sc_shmem_write_start returned %d in round %d, expected %d" % (q, grid[q], w, rnd, should))
            view = hb(o["w%d" % (rnd + 1)])
            if view != pattern(dseed, rnd, node, P * count * ts):
                rep["rank"], rep["round"] = q, rnd
                if shared and not sync and rnd == 0 and view == pattern(dseed, 1, node, P * count * ts):
                    viol("b2b-visible", "rank %d returned from sc_shmem_write_end of round 0 and reads the data of round 1: its node's writer "
                         "has already passed the next sc_shmem_write_start and overwritten the array (write_start does not wait for the readers of the node)" % q)
                else:
                    viol("visible", "rank %d does not see the data written by its node's writer after sc_shmem_write_end (round %d)" % (q, rnd))
    return dict(warnings=len(warns), outs=outs, grid=grid)


CODES = {"MPI_Win_unlock": 6, "MPI_Win_free": 10}


def rank_calls(trace, P, dup=0):
    """per rank: phase name -> list of call codes (see C14/ShmemModel.v) between the harness' trace notes"""
    by = [[] for _ in range(P)]
    for e in trace:
        if 0 <= e.get("r", -1) < P:
            by[e["r"]].append(e)
    out = []
    for q in range(P):
        world = intra = inter = None
        world2 = intra2 = inter2 = None
        phase = None
        d = {}
        made = set()          # communicators created by attach on this rank and not freed yet
        for e in sorted(by[q], key=lambda e: e.get("s", 0)):
            f = e.get("f")
            c = e.get("c")
            if f == "note":
                phase = e.get("text")
                d[phase] = []
                if phase == "mA":
                    d["_life_attach"] = len(made)
                    if dup:
                        # from now on the calls are issued on the duplicate and on ITS node communicators: what the
                        # trace shows as duplicate of the intranode (internode) communicator must be used as such
                        world, intra, inter = world2, intra2, inter2
                if phase == "end":
                    d["_life_end"] = len(made)
                if phase == "free":
                    d["_life_detach"] = len(made)
                continue
            if phase == "dup" and f == "MPI_Comm_dup":
                if c == intra and intra is not None:
                    intra2 = e.get("newc")
                    made.add(intra2)
                    d["dup"].append(11)
                elif c == inter and inter is not None:
                    inter2 = e.get("newc")
                    made.add(inter2)
                    d["dup"].append(12)
                elif c == world:
                    world2 = e.get("newc")
                    d["dup"].append(13)
                else:
                    d["dup"].append(90)
                continue
            if world is not None and f in ("MPI_Comm_split", "MPI_Comm_split_type") and e.get("newc", -1) not in (-1, None):
                made.add(e.get("newc"))
            if f == "MPI_Comm_free" and c in made:
                made.discard(c)
            if f == "MPI_Comm_dup" and world is None:
                world = e.get("newc")
            elif f in ("MPI_Comm_split", "MPI_Comm_split_type"):
                if intra is None:
                    intra = e.get("newc")
                elif inter is None:
                    inter = e.get("newc")
            if phase is None or phase in ("end", "free", "dup", "dfree"):
                continue
            if f == "MPI_Allgather":
                code = 1 if c == world else (4 if c == inter else 91)
            elif f == "MPI_Scan":
                code = 2 if c == world and e.get("op") == "MPI_SUM" else 92
            elif f == "MPI_Gather":
                code = 3 if c == intra and e.get("root") == 0 else 93
            elif f == "MPI_Barrier":
                code = 5 if c == intra else 95
            elif f == "MPI_Win_lock":
                code = (7 if e.get("type") == "exclusive" else 8) if e.get("target") == 0 else 97
            elif f == "MPI_Win_allocate_shared":
                code = 9 if c == intra else 99
            else:
                code = CODES.get(f, 90)
            d[phase].append(code)
        out.append(d)
    return out


def translate_and_prove(ctx, groups):
    """T1 + proof obligations: regenerate the translator groups from the working tree, then re-check the theorems (which
    include `model = generated definition`).  A group that no longer translates, or a theorem that no longer checks against
    the regenerated definitions, is a broken tie.  coq/Gen is shared by all checks: if another process regenerated the group
    from another tree while the theorems were being checked, the step is repeated."""
    sys.path.insert(0, os.path.join(vlib.TOOLS, "c2g"))
    import genall
    r = None
    for attempt in range(3):
        st = genall.run(list(groups))
        nb, ob, di = len(ctx.broken), ctx.cov["obligations"], ctx.cov["discharged"]
        for g, s_ in st.items():
            ctx.log("c2g", g, s_)
            if s_.startswith("FAILED"):
                ctx.tie_broken("translator group " + g, s_)
        r = ctx.props()
        st2 = genall.run(list(groups))
        if not any("(changed)" in v for v in st2.values()):
            return r
        ctx.log("coq/Gen was regenerated by another process during the proof step: repeating")
        del ctx.broken[nb:]
        ctx.cov["obligations"], ctx.cov["discharged"] = ob, di
    return r


def run(ctx):
    translate_and_prove(ctx, ["ShmemC14"])
    hsrc = [os.path.join(vlib.TOOLS, "harness", "c14_harness.c"), os.path.join(vlib.TOOLS, "simmpi", "simmpi.c")]
    v = ctx.variant(mpi="sim", san=True, cflags_extra=("-fno-sanitize=nonnull-attribute",),
                    config_defs=("SC_ENABLE_MPICOMMSHARED", "SC_ENABLE_MPIWINSHARED"))
    exe = ctx.cc(hsrc, os.path.join(ctx.scratch, "c14_harness"), v)
    ntypes = 4
    cases = gen_cases(ctx, ntypes)
    if ctx.replay:
        rp = json.load(open(ctx.replay)).get("replay", {})
        if "history" in rp:
            cases = cases[:5]          # the history itself is replayed by run_histories
        elif "case" in rp:
            rc0 = tuple(rp["case"])
            rc0 = rc0 + (0,) * (12 - len(rc0))
            cases = [rc0 + (-1,) * (14 - len(rc0))] + cases[:5]
    env = dict(os.environ, VERIF_SCRATCH=ctx.scratch, ASAN_OPTIONS="detect_leaks=0")
    text = "".join(" ".join(str(x) for x in c) + "\n" for c in cases)
    rc, lines, err = ctx.run_lines([exe], text, timeout=1500, env=env)
    runs = [r for r in mpitrace.parse_runs(lines) if r.mem is not None]
    del lines
    if rc != 0 or len(runs) != len(cases):
        c = cases[len(runs)] if len(runs) < len(cases) else None
        m = [l for l in err.split("\n") if "ERROR" in l or "runtime error" in l or "SUMMARY" in l]
        ctx.violation("crash", "c14 harness ended with status %s while running %s: %s" % (rc, c, " | ".join(m)[:600] or err[-400:]),
                      dict(case=list(c) if c else None, stderr=err[-3000:]))
    bad = [0]
    dist = {"communicator": {}, "P": {}, "ppn": {}, "flavour": {}, "dtype": {}, "count": {}, "adv": {}, "attach": {}, "rounds": {}, "allgather_signatures": {},
            "allgather_signatures_differ_on_several_nodes_window": 0, "nocheck_warnings": 0}
    model_lines, model_cases = [], []
    for c, r in zip(cases, runs):
        P, seed, adv, pa, ppn, nonc, flavour, d, count, dseed, sync, dup, st, rt = c
        st, rt = (d if st < 0 else st), (d if rt < 0 else rt)
        if (st, rt) != (d, d) and 0 < ppn < P and pa >= 0 and flavour >= 2 and count > 0:
            dist["allgather_signatures_differ_on_several_nodes_window"] += 1
        for k, x in (("communicator", "duplicate (MPI_Comm_dup after attach)" if dup else "original"), ("P", P), ("ppn", ppn), ("flavour", FNAME[flavour]), ("dtype", TNAME[d]), ("count", count), ("adv", adv),
                     ("attach", "explicit" if pa > 0 else ("none" if pa < 0 else ("split_type_roundrobin" if nonc else "split_type"))),
                     ("rounds", "barrier before each write round" if sync else "back to back"),
                     ("allgather_signatures", "same type and count on both sides" if (st, rt) == (d, d) else "%s -> %s" % (TNAME[st], TNAME[rt]))):
            dist[k][x] = dist[k].get(x, 0) + 1
        ctx.count_case(c, nontrivial=P > 1)
        res = judge(ctx, c, r, bad, ntypes)
        if res:
            dist["nocheck_warnings"] += res["warnings"]
            contrib = [item(d, dseed, q, k) for q in range(P) for k in range(count)]
            L = count * TSIZE[d]
            cbytes = b"".join((v & ((1 << (8 * TSIZE[d])) - 1)).to_bytes(TSIZE[d], "little") for v in contrib)
            model_lines.append("%d %d %d %d %d %d %d %s %d %d %d %d %d %s" % (P, pa, ppn, nonc, flavour, d, count, hxl(contrib), dup,
                                                                           L // TSIZE[st], TSIZE[st], L // TSIZE[rt], TSIZE[rt], hxl(list(cbytes))))
            model_cases.append((c, r, res))
    run_histories(ctx, exe, env, bad, dist)
    try:
        mexe = ctx.model("c14")
        rc2, mout, err2 = ctx.run_lines([mexe], "\n".join(model_lines) + "\n", timeout=900)
        mout = [l for l in mout if l != ""]
        if rc2 != 0 or len(mout) != len(model_lines):
            ctx.tie_broken("c14 model run", "exit %s, %d of %d lines: %s" % (rc2, len(mout), len(model_lines), err2[-500:]))
        nmis = 0
        ncalls = 0
        for (c, r, res), l in zip(model_cases, mout):
            P, seed, adv, pa, ppn, nonc, flavour, d, count, dseed, sync, dup, st, rt = c
            per = [x.strip() for x in l.split(" | ")]
            tr = rank_calls(r.trace, P, dup)
            for q in range(P):
                m = dict(t.partition("=")[::2] for t in per[q].split()) if q < len(per) else {}
                o = res["outs"][q]
                dis = []
                g = o["grid"]
                if (m.get("g") == "none") != (g == "-1/-1/-1/-1") or (m.get("g") != "none" and m.get("g") != g):
                    dis.append("grid model %s impl %s" % (m.get("g"), g))
                if o["w"] != m.get("w", "?") * 2:
                    dis.append("write_start model %s impl %s" % (m.get("w"), o["w"]))
                if hxl(decode(d, hb(o["ag"]))) != m.get("ag"):
                    dis.append("allgather model %s impl %s" % (m.get("ag"), hxl(decode(d, hb(o["ag"])))))
                if hxl(list(hb(o["ag"]))) != m.get("agb"):
                    dis.append("allgather with send / receive signatures (bytes): model %s impl %s" % (m.get("agb"), hxl(list(hb(o["ag"])))))
                if hxl(decode(d, hb(o["pre"]))) != m.get("pre"):
                    dis.append("prefix model %s impl %s" % (m.get("pre"), hxl(decode(d, hb(o["pre"])))))
                life = "%s/%s/%s" % (tr[q].get("_life_attach", "?"), tr[q].get("_life_end", "?"), tr[q].get("_life_detach", "?"))
                if life != m.get("life"):
                    dis.append("node communicators alive after attach(+dup) / after freeing the duplicate / after detach: model %s impl %s" % (m.get("life"), life))
                if dup:
                    got = ",".join(str(x) for x in tr[q].get("dup", ["missing"]))
                    ncalls += 1
                    if got != m.get("dup"):
                        dis.append("MPI calls of MPI_Comm_dup (11 = dup of intranode, 12 = dup of internode, 13 = the communicator): model [%s] impl [%s]" % (m.get("dup"), got))
                mc = (m.get("calls", ";;;;").split(";") + [""] * 5)[:5]
                expect = {"mA": mc[0], "mB": mc[0], "mC": mc[0], "ag": mc[1], "pre": mc[2], "cp": mc[3], "w1": mc[3], "w2": mc[3],
                          "fC": mc[4], "fB": mc[4], "fA": mc[4]}
                for phs, want in expect.items():
                    got = ",".join(str(x) for x in tr[q].get(phs, ["missing"]))
                    ncalls += 1
                    if got != want:
                        dis.append("MPI calls of phase %s: model [%s] impl [%s]" % (phs, want, got))
                if dis:
                    nmis += 1
                    if nmis <= 3:
                        ctx.tie_broken("model correspondence, case %s rank %d" % (list(c), q), "; ".join(dis)[:600])
        ctx.notes["model_rank_reports"] = sum(c[0] for c, _, _ in model_cases)
        ctx.notes["model_call_sequences"] = ncalls
        ctx.notes["model_mismatches"] = nmis
    except vlib.BuildError as e:
        ctx.tie_broken("c14 model build", str(e)[-1500:])
    ctx.cov["disagreements_checked"] = len(model_lines)
    ctx.cov["rule"] = ("runs of the real sc_shmem_* / node communicator code on the simulated MPI: P in %s, every node size dividing P, explicit "
                       "processes_per_node and MPI_Comm_split_type (contiguous nodes), all 4 flavours, 8 integer datatypes, counts 0..5, all 8 "
                       "scheduler adversaries; sc_shmem_allgather with send / receive signatures that describe the same bytes differently (INT <-> 2INT, "
                       "LONG <-> INT, BYTE <-> typed, narrow <-> wide) at random in the main grid and on dedicated multi-node grids for all flavours; HISTORIES of "
                       "attach / detach / dup / free on one communicator and its duplicate (re-attach without detach for all ordered pairs of divisors of P, "
                       "split_type before / after explicit, attach after detach, attach on the duplicate, refused split_type), judged after every operation; plus: no communicators attached, unequal node sizes (must not attach), and the round-robin node "
                       "partition as probe of the recorded finding F-C14a; write rounds back to back (no barrier of the callers between the last "
                       "read and the next write_start; every MPI_MODE_NOCHECK lock must find no conflicting lock); after detach: get_node_comms must return NULL/NULL, no communicator/window may be left; "
                       "distinct = distinct parameter tuples; non-trivial = P > 1" % (
                           "{1,2,3,4,6,8,9,12}" if ctx.quick else "{1..10,12,15,16,18,24}"))
    ctx.notes["distribution"] = dist
    ctx.notes["nocheck_lock_warnings"] = ("simmpi recorded %d [WARNING] items (MPI_MODE_NOCHECK asserted while a conflicting lock is held: judged, kind `nocheck`; "
                                          "0 expected since the barrier in sc_shmem_write_start_window)" % dist["nocheck_warnings"])
    for c in cases[:: max(1, len(cases) // 4)][:4]:
        ctx.sample(dict(P=c[0], seed=c[1], adversary=c[2], ppn_attach=c[3], ppn_sim=c[4], roundrobin=c[5], flavour=FNAME[c[6]], dtype=TNAME[c[7]], count=c[8],
                        allgather_send_type=TNAME[c[7] if c[12] < 0 else c[12]], allgather_recv_type=TNAME[c[7] if c[13] < 0 else c[13]]))
    ctx.cov["trusted_base"] = ["T1: colours / keys of the MPI_Comm_split calls, the write_start / write_end decisions and the ORDER of their unlock / barrier / lock calls, the slot arithmetic and wrapped sums of sc_scan_on_array and the byte / item counts of the prefix and allgather functions are proved EQUAL to Gen/ShmemC14.v, regenerated from the working tree on every run (tools/c2g + tools/c2g/slicelib.py + clang-14 JSON AST trusted; parsed with tools/simmpi/mpi.h in the configuration the check builds)",
                               "tools/simmpi (simulated MPI: collectives, Comm_split/Comm_split_type, shared windows in one address space, "
                               "window locks with MPI_MODE_NOCHECK never block) and its trace",
                               "real shared-memory visibility and ordering between processes is outside the model: the simulator runs all ranks in one thread",
                               "MPI_Scan / MPI_Allgather / MPI_Gather return their specified values (collective specifications of C14/ShmemModel.v)"]
    ctx.assumptions += ["MPI_Comm_split orders the members of a colour by key, then by rank", "integer sums wrap (two's complement); signed 4/8-byte test data is kept small enough not to overflow"]
    return "proof"
