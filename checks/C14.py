"""C14 - shared arrays and node communicators.  Proof about the node grid, the four sc_shmem flavours as compositions
of collective specifications, and the write_start/write_end protocol (C14/ShmemModel.v).
Tie T3: the real sc_shmem_* / sc_mpi_comm_attach_node_comms run on the simulated MPI (shared windows in one address
space, Comm_split_type with a configurable node size, contiguous or round robin); an independent oracle judges every
rank's view of every array, the write_start grants, the communicator grid and the objects left behind; the extracted
model must predict the same views and grid and the same per-rank sequence of MPI calls."""
import os, sys, json
import vlib, mpitrace
sys.path.insert(0, os.path.join(vlib.TOOLS, "c2g"))

ADVS = list(range(8))
M = 0xffffffff
TSIZE = [1, 2, 2, 4, 4, 8, 8, 8]
TSIGNED = [True, True, False, True, False, True, False, True]
TNAME = ["char", "short", "ushort", "int", "unsigned", "long", "ulong", "longlong"]
FNAME = ["basic", "prescan", "window", "window_prescan"]


def mix(a, b, c):
    x = (a * 2654435761 + b * 40503 + c * 9176 + 12345) & M
    x ^= x >> 13
    x = (x * 0x5bd1e995) & M
    x ^= x >> 15
    x = (x * 0x85ebca6b) & M
    x ^= x >> 16
    return x


def item(d, dseed, r, c):
    """value of item c of rank r (the C value, as a Python int)"""
    lo, hi = mix(dseed, r, c), mix(dseed ^ 0x5a5a5a5a, r, c)
    if d == 0:
        v = lo & 0xff
        return v - 256 if v >= 128 else v
    if d == 1:
        v = lo & 0xffff
        return v - 65536 if v >= 32768 else v
    if d == 2:
        return lo & 0xffff
    if d == 3:
        return lo % 2000001 - 1000000
    if d == 4:
        return lo
    if d == 5:
        return (((hi << 20) | (lo & 0xfffff)) & 0xffffffffffffffff) % 2000000000001 - 1000000000000
    if d == 6:
        return (hi << 32) | lo
    return lo % 2000001 - 1000000


def wrap(d, v):
    bits = 8 * TSIZE[d]
    v &= (1 << bits) - 1
    if TSIGNED[d] and v >= 1 << (bits - 1):
        v -= 1 << bits
    return v


def decode(d, b):
    ts = TSIZE[d]
    return [int.from_bytes(b[i:i + ts], "little", signed=TSIGNED[d]) for i in range(0, len(b), ts)]


def hx(v):
    return ("-%x" % -v) if v < 0 else ("%x" % v)


def hxl(vs):
    return ",".join(hx(v) for v in vs) if vs else "-"


def node_of(P, ppn, noncontig, r):
    """simmpi's node of a rank for MPI_Comm_split_type"""
    if ppn <= 0:
        return 0
    if noncontig:
        nn = (P + ppn - 1) // ppn
        return r % nn
    return r // ppn


def gen_cases(ctx, ntypes):
    rng = ctx.rng
    cases = []
    Ps = [1, 2, 3, 4, 6, 8, 9, 12] if ctx.quick else [1, 2, 3, 4, 5, 6, 7, 8, 9, 10, 12, 15, 16, 18, 24]
    for P in Ps:
        divs = [d for d in range(1, P + 1) if P % d == 0]
        for ppn in divs:
            for flavour in range(ntypes):
                for how in ("explicit", "split_type"):
                    for _ in range(1 if ctx.quick else 3):
                        d = rng.randrange(8)
                        count = rng.choice([0, 1, 1, 2, 3, 5])
                        adv = rng.choice(ADVS)
                        pa = ppn if how == "explicit" else 0
                        cases.append((P, rng.randrange(1 << 30), adv, pa, ppn, 0, flavour, d, count, rng.randrange(1 << 16)))
    # not attached at all: every flavour must fall back to the basic behaviour
    for _ in range(6 if ctx.quick else 30):
        P = rng.choice([1, 2, 3, 5, 8])
        cases.append((P, rng.randrange(1 << 30), rng.choice(ADVS), -1, 0, 0, rng.randrange(ntypes), rng.randrange(8), rng.choice([1, 2]), rng.randrange(1 << 16)))
    # node sizes that are not all equal (ppn does not divide P): sc_mpi_comm_attach_node_comms must not attach
    for _ in range(6 if ctx.quick else 30):
        P = rng.choice([3, 5, 7, 8, 10])
        ppn = rng.choice([d for d in range(2, P) if P % d != 0] or [2])
        cases.append((P, rng.randrange(1 << 30), rng.choice(ADVS), 0, ppn, 0, rng.randrange(ntypes), rng.randrange(8), 1, rng.randrange(1 << 16)))
    # the dedicated probe of finding F-C14a: round-robin node partition
    for (P, ppn) in ([(8, 4), (9, 3), (4, 2)] if ctx.quick else [(8, 4), (9, 3), (4, 2), (6, 2), (6, 3), (12, 4), (16, 4)]):
        for flavour in range(ntypes):
            cases.append((P, rng.randrange(1 << 30), rng.choice(ADVS), 0, ppn, 1, flavour, 3, 1, rng.randrange(1 << 16)))
    return cases


def parse_out(l):
    w = l.split()
    d = {"rank": w[0]}
    for t in w[1:]:
        k, _, v = t.partition("=")
        d[k] = v
    return d


def hb(s):
    return b"" if s in ("-", "", None) else bytes.fromhex(s)


def expected_grid(c):
    """independent restatement: (attached?, intrarank, intrasize, interrank, intersize) per rank"""
    P, seed, adv, pa, ppn, nonc = c[:6]
    if pa < 0:
        return [None] * P
    if pa > 0:
        return [(r % pa, pa, r // pa, P // pa) for r in range(P)]
    nodes = [node_of(P, ppn, nonc, r) for r in range(P)]
    sizes = {}
    for n in nodes:
        sizes[n] = sizes.get(n, 0) + 1
    if len(set(sizes.values())) != 1:
        return [None] * P
    out = []
    for r in range(P):
        ir = sum(1 for q in range(r) if nodes[q] == nodes[r])
        er = sum(1 for q in range(r) if sum(1 for t in range(q) if nodes[t] == nodes[q]) == ir)
        out.append((ir, sizes[nodes[r]], er, len(sizes)))
    return out


def pattern(dseed, rnd, node, n):
    return bytes(mix((dseed + 77 * rnd) & M, node, k) & 0xff for k in range(n))


def judge(ctx, c, r, bad, ntypes):
    P, seed, adv, pa, ppn, nonc, flavour, d, count, dseed = c
    ts = TSIZE[d]
    key = "%s-P%d-ppn%d-%s%s-%s-n%d" % (FNAME[flavour], P, ppn, "explicit" if pa > 0 else ("none" if pa < 0 else "splittype"), "-roundrobin" if nonc else "", TNAME[d], count)
    rep = dict(case=list(c), rc=r.rc, report=r.report[:2000])

    def viol(kind, text):
        bad[0] += 1
        ctx.violation(kind + ":" + key, text, rep)

    if r.rc != 0:
        viol("schedule", "run did not end normally (simmpi code %s): %s" % (r.rc, r.report[:300]))
        return None
    info = parse_out(r.outs[0]) if r.outs and r.outs[0].startswith("info") else {}
    outs = [parse_out(l) for l in r.outs[1:]]
    if len(outs) != P or any(o.get("grid") is None for o in outs):
        viol("output", "harness printed %d of %d rank outputs" % (len(outs), P))
        return None
    # objects left behind: libsc never frees its two attribute keyvals (they are cached in static variables and
    # simmpi keeps them for later runs); everything else must be gone after detach + free
    leaks = [l for l in r.report.split("\n") if l.startswith("[LEAK]") and "keyval" not in l]
    if leaks:
        viol("leak", "objects left after detach and free: " + "; ".join(leaks)[:400])
    warns = [l for l in r.report.split("\n") if l.startswith("[WARNING]")]
    if r.mem not in (0, None):
        viol("memory", "sc_memory_status changed by %s" % r.mem)
    grid = expected_grid(c)
    contrib = [[item(d, dseed, q, k) for k in range(count)] for q in range(P)]
    exp_ag = [v for q in range(P) for v in contrib[q]]
    exp_pre = [0] * count
    acc = [0] * count
    for q in range(P):
        acc = [wrap(d, a + b) for a, b in zip(acc, contrib[q])]
        exp_pre += acc
    shared = flavour >= 2 and grid[0] is not None
    writers = {}
    for q in range(P):
        o = outs[q]
        g = tuple(int(x) for x in o["grid"].split("/"))
        if grid[q] is None:
            if g != (-1, -1, -1, -1):
                viol("grid", "rank %d: node communicators attached (%s) although none were expected" % (q, o["grid"]))
        elif g != grid[q]:
            rep["rank"], rep["got"], rep["expected"] = q, list(g), list(grid[q])
            viol("grid", "rank %d: position (intrarank/intrasize/interrank/intersize) %s, expected %s" % (q, g, grid[q]))
        if int(o["type"]) != flavour:
            viol("type", "rank %d: sc_shmem_get_type returns %s after set_type (%d)" % (q, o["type"], flavour))
        ag, pre, cp = decode(d, hb(o["ag"])), decode(d, hb(o["pre"])), decode(d, hb(o["cp"]))
        if ag != exp_ag:
            rep["rank"], rep["got"], rep["expected"] = q, ag, exp_ag
            viol("allgather", "rank %d sees %s after sc_shmem_allgather, contributions in rank order are %s" % (q, ag[:12], exp_ag[:12]))
        if pre != exp_pre:
            rep["rank"], rep["got"], rep["expected"] = q, pre, exp_pre
            viol("prefix", "rank %d sees %s after sc_shmem_prefix, expected (0, s0, s0+s1, ...) = %s" % (q, pre[:12], exp_pre[:12]))
        if cp != ag:
            rep["rank"], rep["got"], rep["expected"] = q, cp, ag
            viol("memcpy", "rank %d: copy differs from its source array" % q)
        # write protocol
        node = grid[q][2] if grid[q] is not None else 0
        for rnd in (0, 1):
            w = int(o["w"][rnd])
            should = 1 if (not shared or grid[q][0] == 0) else 0
            if w != should:
                rep["rank"] = q
                viol("writer", "rank %d (position %s): sc_shmem_write_start returned %d in round %d, expected %d" % (q, grid[q], w, rnd, should))
            view = hb(o["w%d" % (rnd + 1)])
            if view != pattern(dseed, rnd, node, P * count * ts):
                rep["rank"], rep["round"] = q, rnd
                viol("visible", "rank %d does not see the data written by its node's writer after sc_shmem_write_end (round %d)" % (q, rnd))
    return dict(warnings=len(warns), outs=outs, grid=grid)


def run(ctx):
    import genall
    st = genall.run(["Consts"])
    for g, s in st.items():
        if s.startswith("FAILED"):
            ctx.tie_broken("translator group " + g, s)
    ctx.props()
    hsrc = [os.path.join(vlib.TOOLS, "harness", "c14_harness.c"), os.path.join(vlib.TOOLS, "simmpi", "simmpi.c")]
    v = ctx.variant(mpi="sim", san=True, cflags_extra=("-fno-sanitize=nonnull-attribute",),
                    config_defs=("SC_ENABLE_MPICOMMSHARED", "SC_ENABLE_MPIWINSHARED"))
    exe = ctx.cc(hsrc, os.path.join(ctx.scratch, "c14_harness"), v)
    ntypes = 4
    cases = gen_cases(ctx, ntypes)
    if ctx.replay:
        rp = json.load(open(ctx.replay)).get("replay", {})
        if "case" in rp:
            cases = [tuple(rp["case"])] + cases[:5]
    env = dict(os.environ, VERIF_SCRATCH=ctx.scratch, ASAN_OPTIONS="detect_leaks=0")
    text = "".join(" ".join(str(x) for x in c) + "\n" for c in cases)
    rc, lines, err = ctx.run_lines([exe], text, timeout=1500, env=env)
    runs = [r for r in mpitrace.parse_runs(lines) if r.mem is not None]
    del lines
    if rc != 0 or len(runs) != len(cases):
        c = cases[len(runs)] if len(runs) < len(cases) else None
        m = [l for l in err.split("\n") if "ERROR" in l or "runtime error" in l or "SUMMARY" in l]
        ctx.violation("crash", "c14 harness ended with status %s while running %s: %s" % (rc, c, " | ".join(m)[:600] or err[-400:]),
                      dict(case=list(c) if c else None, stderr=err[-3000:]))
    bad = [0]
    dist = {"P": {}, "ppn": {}, "flavour": {}, "dtype": {}, "count": {}, "adv": {}, "attach": {}, "nocheck_warnings": 0}
    for c, r in zip(cases, runs):
        P, seed, adv, pa, ppn, nonc, flavour, d, count, dseed = c
        for k, x in (("P", P), ("ppn", ppn), ("flavour", FNAME[flavour]), ("dtype", TNAME[d]), ("count", count), ("adv", adv),
                     ("attach", "explicit" if pa > 0 else ("none" if pa < 0 else ("split_type_roundrobin" if nonc else "split_type")))):
            dist[k][x] = dist[k].get(x, 0) + 1
        ctx.count_case(c, nontrivial=P > 1)
        res = judge(ctx, c, r, bad, ntypes)
        if res:
            dist["nocheck_warnings"] += res["warnings"]
    ctx.cov["rule"] = "TODO"
    ctx.notes["distribution"] = dist
    return "proof"
