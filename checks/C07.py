"""C07 - decoders reject malformed input without memory errors.

Proof: Props/Properties_C07.v (instrumented models of sc_io_decode / sc_io_decode_info / sc_io_nonuncompress /
sc_puff never leave their buffers, terminate, respect header, maximum, view capacity).
Tie T1: the index formulas of sc_io_decode inside the model are regenerated from /repo (Gen/Codec.v).
Tie T2: the same case file goes through the real code (both configurations, ASan+UBSan) and the extracted model.
Search: structure-aware mutation of valid encodings (built by Python, not by libsc), exhaustive short inputs,
raw deflate streams with single-bit flips and truncations for sc_puff, all output kinds and maxima.
Oracle (independent of the model): sanitizer verdict, exit status and time limit; a successful decode has
count * elem_size bytes = the size declared in the text, within the maximum and the view, and equals what
Python's own reader (positional line reader + zlib) gets from the same text; a view is never damaged."""
import os, sys, json, zlib, time
import vlib
import codec_common as cc
sys.path.insert(0, os.path.join(vlib.TOOLS, "c2g"))

BIG = 1 << 62
# the 31-byte text that declares 2^63 + 8 bytes (witness of C07_decode_old_refuted; refused since commit 5c6a588)
WITNESS_5C6A588 = b"gAAAAAAAAAh6eNpLTAQAASUAww===\n\0"


# ---------------------------------------------------------------------------------------------------------
# data and valid texts
# ---------------------------------------------------------------------------------------------------------
def corpus(rng, quick):
    sizes = [0, 1, 2, 3, 8, 47, 48, 56, 57, 58, 100, 113, 114, 115, 171, 300, 1000]
    if not quick:
        sizes += [4096, 32768, 65532, 70000]
    out = []
    for n in sizes:
        out.append(bytes(n))
        out.append(bytes(rng.getrandbits(8) for _ in range(n)))
        out.append((b"the quick brown fox jumps over the lazy dog. " * (n // 40 + 1))[:n])
        out.append(bytes((i * 7 + (i >> 3)) & 255 for i in range(n)))
    return out


def raw_deflate(data, level, strategy, wbits=-15):
    co = zlib.compressobj(level, zlib.DEFLATED, wbits, 8, strategy)
    return co.compress(data) + co.flush()


def valid_payloads(rng, data):
    """(description, zlib stream) in several flavours: Huffman (dynamic/fixed), stored, multi-block stored"""
    res = []
    res.append(("z9", zlib.compress(data, 9)))
    res.append(("z1", zlib.compress(data, 1)))
    res.append(("z0", zlib.compress(data, 0)))
    res.append(("fixed", raw_zlib(data, 9, zlib.Z_FIXED)))
    res.append(("huff", raw_zlib(data, 6, zlib.Z_HUFFMAN_ONLY)))
    res.append(("stored", cc.py_stored(data)))
    res.append(("stored7", cc.py_stored(data, block=7)))
    return res


def raw_zlib(data, level, strategy):
    co = zlib.compressobj(level, zlib.DEFLATED, 15, 8, strategy)
    return co.compress(data) + co.flush()


def text_of(size, comp, lb=61, fc=b"z"):
    return cc.py_armor(size.to_bytes(8, "big") + fc + comp, lb)


# ---------------------------------------------------------------------------------------------------------
# decode cases
# ---------------------------------------------------------------------------------------------------------
def outkinds(rng, size, n):
    """n output descriptors around the declared size: (inplace, owner, esz, cnt)"""
    res = []
    for _ in range(n):
        k = rng.random()
        if k < 0.15:
            res.append((1, 1, 1, 0))
        elif k < 0.25:
            res.append((1, 0, 1, 0))
        elif k < 0.6:
            esz = rng.choice([1, 1, 1, 2, 3, 4, 8, 7])
            res.append((0, 1, esz, rng.choice([0, 1, 5])))
        else:
            esz = rng.choice([1, 1, 2, 3, 4, 8])
            s = min(size, 1 << 20)
            capb = rng.choice([0, max(0, s - 1), s, s, s + esz, s + 64, max(0, s - esz), 1])
            res.append((0, 0, esz, capb // esz))
    return res


def maxima(rng, size):
    s = min(size, 1 << 40)
    return rng.choice([0, 0, 0, s, s + 1, max(1, s - 1), 1, 1 << 40])


def dec_line(kind, maxsz, text):
    return "dec %x %x %x %x %x %s" % (kind[0], kind[1], kind[2], kind[3], maxsz, cc.hx(text))


def short_stream_cases(rng, add):
    """The lower boundary of sc_io_nonuncompress (theorems C07_nonuncompress_short_input / _sourcelen_no_wrap; seeded/C07e):
    well-formed texts (NUL, line breaks, 8-byte size header, 'z') whose compressed section has EVERY length 0..12 - in particular
    2..6: a valid zlib header and 0..4 bytes behind it, where `sourcelen = src_size - 4` would wrap - with final / non-final stored,
    fixed and dynamic block starts, fills on which a decoder that has lost its input bound does not stop (0xbe = ASan's malloc fill
    decodes as fixed-code literals for ever), size headers 0 / 1 / small / 4096 and every output kind."""
    starts = [0x01, 0x00, 0x03, 0x02, 0xbb, 0xba, 0x05, 0x04, 0xbd, 0xed]     # BFINAL/BTYPE in the low three bits
    fills = [0xbe, 0x00, 0xff, 0x55]
    kinds = [(0, 1, 1, 0), (0, 1, 4, 0), (0, 1, 1, 5), (0, 0, 1, 4096), (0, 0, 2, 0), (0, 0, 1, 1), (1, 1, 1, 0), (1, 0, 1, 0)]
    zh = [(0x78, 0x01), (0x78, 0x9c), (0x78, 0xda), (0x78, 0x5e), (0x08, 0x1d)]
    k = 0
    for size in (0, 1, 3, 57, 4096):
        for n in range(0, 13):
            for st in starts:
                fill = fills[0] if (k % 2 == 0) else fills[(k // 2) % len(fills)]
                for hdr in ([zh[0]] if (k % 3) else [zh[0], zh[1 + k % (len(zh) - 1)]]):
                    comp = (bytes(hdr) + bytes([st]) + bytes([fill]) * 12)[:n]
                    t = text_of(size, comp, rng.choice([61, 61, 10, 0x41]))
                    # zlib header + 0..4 bytes: every output kind; elsewhere two of them
                    for j in (range(len(kinds)) if (2 <= n <= 6 and hdr == zh[0]) else range(2)):
                        add(t, "short-stream:%d" % n, kind=kinds[(k + 3 * j) % len(kinds)], maxsz=rng.choice([0, 0, size, size + 1]))
                k += 1
                if n <= 2:
                    break               # no block start inside a compressed section of 0..2 bytes
    # the deflate stream is there but the adler32 trailer is cut at every length 0..4 (valid stored / fixed / dynamic streams)
    for d in (b"", b"a", b"abc", b"aaaaaaaaaaaaaaaaaaaaaaaaaaaaaaaaaaaaaaaaaaaaaaaa"):
        for comp in (cc.py_stored(d), raw_zlib(d, 9, zlib.Z_FIXED), zlib.compress(d, 9)):
            for cut in range(0, 5):
                add(text_of(len(d), comp[:len(comp) - cut] if cut else comp, 61), "short-trailer:%d" % cut, kind=kinds[(k + cut) % len(kinds)], maxsz=0)
            k += 1


def head_cut_cases(rng, add, texts):
    """valid texts cut at EVERY byte position of the first 24 characters: raw (with a NUL appended) and re-terminated as a
    well-formed one-line text (break byte, newline, NUL)"""
    kinds = [(0, 1, 1, 0), (0, 0, 1, 64), (1, 1, 1, 0), (0, 1, 2, 3)]
    for i, t in enumerate(texts):
        for k in range(0, 25):
            add(t[:k] + b"\0", "head-cut", kind=kinds[(i + k) % len(kinds)], maxsz=0)
            add(t[:k] + b"=\n\0", "head-cut-line", kind=kinds[(i + k + 1) % len(kinds)], maxsz=0)


def gen_dec_cases(ctx):
    rng = ctx.rng
    cases = []          # dict(line, text, kind, maxsz, tag, huge)

    def add(text, tag, kind=None, maxsz=None, nk=1, size_hint=0):
        for k in ([kind] if kind else outkinds(rng, size_hint, nk)):
            m = maxima(rng, size_hint) if maxsz is None else maxsz
            cases.append(dict(line=dec_line(k, m, text), text=text, kind=k, maxsz=m, tag=tag))

    datas = corpus(rng, ctx.quick)
    nmut = 3 if ctx.quick else 12
    valid = []
    for d in datas:
        for name, comp in valid_payloads(rng, d):
            if ctx.quick and len(d) > 120 and name in ("z1", "huff", "stored7") and rng.random() < 0.6:
                continue
            lb = rng.choice([61, 61, 10, 0x41, 0xff, 0x20, rng.randrange(1, 256)])
            valid.append((d, name, comp, lb))
    for (d, name, comp, lb) in valid:
        t = text_of(len(d), comp, lb)
        n = len(d)
        # the untouched text through several output kinds (accepting and rejecting ones)
        add(t, "valid:" + name, nk=2, size_hint=n)
        # a view of ZERO elements (any element size) for a nonzero declared size, without and with a maximum below the size;
        # an owner of zero elements with a maximum below the size
        if n > 0:
            ez = rng.choice([1, 1, 2, 4, 8])
            add(t, "zero-view", kind=(0, 0, ez, 0), maxsz=rng.choice([0, 0, 1, max(1, n - 1), n]))
            add(t, "zero-owner-max", kind=(0, 1, ez, 0), maxsz=max(1, n - 1) if n > 1 else 0)
        for _ in range(nmut if len(d) <= 1000 else 3):      # the extracted model is slow on long Huffman streams
            m = rng.randrange(16)
            if m == 0:      # truncate anywhere
                k = rng.choice([0, 1, 2, 3, 11, 12, 13, 76, 77, 78, 79, len(t) - 1, len(t) - 2, len(t) - 3, rng.randrange(len(t) + 1)])
                k = max(0, min(len(t), k))
                add(t[:k], "trunc", nk=1, size_hint=n)
                add(t[:k] + b"\0", "trunc+nul", nk=1, size_hint=n)
            elif m == 1:    # flip a bit
                b = bytearray(t); i = rng.randrange(len(b)); b[i] ^= 1 << rng.randrange(8)
                add(bytes(b), "flip", nk=1, size_hint=n)
            elif m == 2:    # a byte outside the alphabet inside a line
                b = bytearray(t); i = rng.randrange(len(b)); b[i] = rng.choice([10, 32, 61, 0x80, 0xff, 0, 45, 42, 44, 46, 58, 64, 91, 96, 123, 127])   # incl. the neighbours of the alphabet ranges
                add(bytes(b), "junk", nk=1, size_hint=n)
            elif m == 3:    # insert / delete a character: every later line break moves
                i = rng.randrange(len(t))
                add(t[:i] + bytes([rng.choice(cc.ALPHA)]) + t[i:], "insert", nk=1, size_hint=n)
                add(t[:i] + t[i + 1:], "delete", nk=1, size_hint=n)
            elif m == 4:    # duplicate or drop a whole line
                if len(t) > 79:
                    add(t[:78] + t, "dupline", nk=1, size_hint=n)
                    add(t[78:], "dropline", nk=1, size_hint=n)
                else:
                    add(t[:-1] + t, "twice", nk=1, size_hint=n)
            elif m == 5:    # rewrite the size header
                ns = rng.choice([0, 1, max(0, n - 1), n + 1, 2 * n + 3, 255, 256, 65536, (1 << 32) - 1, 1 << 32, (1 << 62) - 1])
                # since 5c6a588 a declared size above 1032 x the compressed bytes is refused before anything is allocated:
                # huge sizes go through every output kind and maximum
                add(text_of(ns, comp, lb), "size-huge" if ns >= (1 << 24) else "size", nk=2, size_hint=min(ns, 1 << 20))
            elif m == 6:    # format character
                add(text_of(n, comp, lb, fc=bytes([rng.choice([0x79, 0x5a, 0, 0x7b])])), "format", nk=1, size_hint=n)
            elif m == 7:    # corrupt the compressed stream
                c = bytearray(comp); i = rng.randrange(len(c)); c[i] ^= 1 << rng.randrange(8)
                add(text_of(n, bytes(c), lb), "comp-flip", nk=1, size_hint=n)
            elif m == 8:    # truncate / extend the compressed stream
                k = rng.randrange(len(comp) + 1)
                add(text_of(n, comp[:k], lb), "comp-trunc", nk=1, size_hint=n)
                add(text_of(n, comp + bytes(rng.getrandbits(8) for _ in range(rng.choice([1, 4, 5, 60]))), lb), "comp-extra", nk=1, size_hint=n)
            elif m == 9:    # a stream that inflates to more / less than declared
                extra = bytes(rng.getrandbits(8) for _ in range(rng.choice([1, 2, 57, 300])))
                add(text_of(n, zlib.compress(d + extra, 9), lb), "oversized-stream", nk=2, size_hint=n)
                add(text_of(n, cc.py_stored(d + extra), lb), "oversized-stored", nk=2, size_hint=n)
                if n:
                    add(text_of(n, zlib.compress(d[:-1], 9), lb), "undersized-stream", nk=1, size_hint=n)
            elif m == 10:   # zlib header variants: other window sizes, dictionary bit, wrong method, bad check bits
                c = bytearray(comp)
                c[0] = rng.choice([0x08, 0x18, 0x28, 0x68, 0x88, 0x79, 0x77])
                c[1] = rng.choice([c[1], c[1] | 0x20, (31 - (c[0] * 256) % 31) % 31, 0])
                add(text_of(n, bytes(c), lb), "zhdr", nk=1, size_hint=n)
            elif m == 11:   # stored blocks with inconsistent lengths / checksum
                s = bytearray(cc.py_stored(d))
                i = rng.choice([2, 3, 4, 5, 6, len(s) - 1, len(s) - 4]); i = max(0, min(len(s) - 1, i))
                s[i] ^= rng.choice([1, 0x80, 0xff])
                add(text_of(n, bytes(s), lb), "stored-bad", nk=1, size_hint=n)
            elif m == 12:   # empty lines / only break bytes
                add(t[:76] + b"=\n" * rng.randrange(1, 5) + b"\0", "breaks-only", nk=1, size_hint=n)
            elif m == 13:   # wrong last-line length: padding moved
                add(t[:-3] + b"=" + t[-3:], "extra-pad", nk=1, size_hint=n)
                add(t[:-4] + t[-3:], "short-last", nk=1, size_hint=n)
            elif m == 14:   # a line that is one character short before a further line (irem = 75 case)
                if len(t) > 160:
                    add(t[:75] + t[76:], "line75", nk=1, size_hint=n)
                    add(t[:78] + t[78:78 + 75] + t[78 + 76:], "line75b", nk=1, size_hint=n)
            else:           # random text over the alphabet with plausible structure
                k = rng.choice([1, 2, 11, 12, 13, 76, 77, 78, 79, 154, 155, 156, 157, 158, 200])
                add(bytes(rng.choice(cc.ALPHA + b"=\n") for _ in range(k)) + b"\0", "random", nk=1, size_hint=57)
    # exhaustive short inputs over a small alphabet, every length 0..200 of a few shapes
    import itertools
    sym = [0, 0x41, 0x3d, 0x0a]
    for n in range(0, 6 if ctx.quick else 8):
        for w in itertools.product(sym, repeat=n):
            cases.append(dict(line=dec_line((0, 1, 1, 0), 0, bytes(w)), text=bytes(w), kind=(0, 1, 1, 0), maxsz=0, tag="exhaustive"))
    for n in range(0, 201):
        for t in (b"A" * n, b"A" * n + b"\0", b"A" * n + b"=\n\0", b"=" * n + b"\0", bytes(rng.choice(cc.ALPHA) for _ in range(n)) + b"\0",
                  (b"AAAAAAAAAAB6" + b"A" * n)[:n] + b"=\n\0"):
            cases.append(dict(line=dec_line((0, 1, 1, 0), 64, t), text=t, kind=(0, 1, 1, 0), maxsz=64, tag="lengths"))
    # structure-aware DEFLATE header fuzz inside a proper zlib + armor wrapper (declared sizes small and plausible)
    for _ in range(500 if ctx.quick else 6000):
        raw, tag = fuzz_deflate(rng)
        ns = rng.choice([0, 1, 5, 16, 100, 300, 1000])
        comp = bytes([0x78, rng.choice([0x9c, 0x01, 0xda])]) + raw + bytes(rng.getrandbits(8) for _ in range(4))
        add(text_of(ns, comp, 61), tag, nk=1, size_hint=ns)
    for hx_ in PUFF_REGRESSION:
        raw = bytes.fromhex(hx_)
        for extra in (b"", bytes(600), bytes([255]) * 600):
            add(text_of(rng.choice([0, 1, 16, 300]), b"\x78\x9c" + raw + extra + b"\0\0\0\1", 61), "puff-regression", kind=(0, 1, 1, 0), maxsz=0)
    # every byte value once inside an otherwise valid text (all indices of the decoding table and both sides of it)
    base_t = text_of(40, zlib.compress(bytes(range(40)), 9), 61)
    for c in range(256):
        t = base_t[:14] + bytes([c]) + base_t[15:]
        cases.append(dict(line=dec_line((0, 1, 1, 0), 0, t), text=t, kind=(0, 1, 1, 0), maxsz=0, tag="bytevalue"))
    # declared sizes no machine can provide, owner output, no maximum: refused since commit 5c6a588 (before it: one-byte
    # allocation and a write behind it for sizes above 2^63, an abort of the allocator below)
    for t in (WITNESS_5C6A588, text_of(0x68 << 32, zlib.compress(b"", 9), 61), text_of((1 << 63) + 8, zlib.compress(b"x" * 1000), 61),
              text_of((1 << 64) - 1, zlib.compress(b"x" * 1000), 61), text_of((1 << 62) + 1, zlib.compress(b"x" * 1000), 61)):
        for kind in ((0, 1, 1, 0), (1, 1, 1, 0), (0, 1, 8, 2)):
            cases.append(dict(line=dec_line(kind, 0, t), text=t, kind=kind, maxsz=0, tag="size-over-2^62"))
    # the largest size the guard lets through for a given amount of compressed data, and one more
    for d in (bytes(1032 * 40), bytes(1032 * 41 + 5)):
        comp = zlib.compress(d, 9)
        for ns in (1032 * (9 + len(comp)) + 1031, 1032 * (9 + len(comp) + 1), len(d)):
            t = text_of(ns, comp, 61)
            cases.append(dict(line=dec_line((0, 1, 1, 0), 0, t), text=t, kind=(0, 1, 1, 0), maxsz=0, tag="ratio-boundary"))
    # the lower boundary of sc_io_nonuncompress: compressed sections of every length 0..12, trailers cut at 0..4 bytes;
    # valid texts cut at every position of their first 24 characters
    short_stream_cases(rng, add)
    heads = [text_of(len(d), comp, 61) for d in (b"", b"abc", bytes(100)) for comp in (zlib.compress(d, 9), cc.py_stored(d))]
    head_cut_cases(rng, add, heads)
    return cases


def declared(text):
    """size and format character as Python reads them from the text (None if there is no header)"""
    p = cc.py_payload(text)
    if p is None or len(p) < 9:
        return None
    return int.from_bytes(p[:8], "big"), p[8]


def judge_dec(ctx, c, out, variant):
    """property oracle on one decode result of the real code; returns (key, message) or None"""
    kind, maxsz, text = c["kind"], c["maxsz"], c["text"]
    inplace, owner, esz, cnt = kind
    if inplace:
        esz, cnt = 1, len(text)
    if out in ("CRASH", "TIMEOUT"):
        return ("%s:%s" % (out.lower(), c["tag"]), "sc_io_decode (%s build): %s" % (variant, "sanitizer report or abnormal termination" if out == "CRASH" else "no termination within the time limit"))
    for flag in ("POSITIVE-RC", "VIEW-DAMAGED", "INPUT-MODIFIED"):
        if flag in out:
            return ("%s:%s" % (flag.lower(), c["tag"]), "sc_io_decode (%s build): %s" % (variant, flag))
    if out.startswith("err"):
        return None
    if not out.startswith("ok "):
        return ("garbled:%s" % c["tag"], "harness printed %r" % out[:80])
    oesz, ocnt, data = cc.parse_array(out[3:])
    hdr = declared(text)
    if hdr is None:
        return ("accept-no-header:%s" % c["tag"], "decode succeeded on a text that carries no 9-byte header")
    size, fc = hdr
    if oesz * ocnt != size or len(data) != size:
        return ("size-mismatch:%s" % c["tag"], "decode returned %d x %d bytes, the text declares %d" % (ocnt, oesz, size))
    if fc != 0x7a:
        return ("format-char:%s" % c["tag"], "decode accepted format character %#x" % fc)
    if oesz != esz:
        return ("elem-size-changed:%s" % c["tag"], "element size changed from %d to %d" % (esz, oesz))
    if maxsz > 0 and size > maxsz:
        return ("over-maximum:%s" % c["tag"], "decode delivered %d bytes, the stated maximum is %d" % (size, maxsz))
    if not owner and size > cnt * esz:
        return ("view-grown:%s" % c["tag"], "decode delivered %d bytes into a view of %d bytes" % (size, cnt * esz))
    nat = cc.py_natural_decode(text)
    if nat is not None:
        pb, status = nat[2], nat[3]
        if status == "ok" and size > 0 and pb != data:
            return ("wrong-bytes:%s" % c["tag"], "decode returned %d bytes that differ from the %d bytes Python's base64+zlib reader gets from the same text" % (len(data), len(pb)))
        if status == "ok" and size == 0 and len(pb) > 1:
            # (zlib's uncompress with a zero-length destination tolerates a stream of one byte: not judged)
            return ("accept-oversized:%s" % c["tag"], "decode accepted a stream of %d bytes for a declared size 0" % len(pb))
        if status != "ok" and variant == "z":
            return ("accept-bad-stream:%s" % c["tag"], "the zlib build accepted a stream that Python's zlib reader finds %s" % status)
    return None


# ---------------------------------------------------------------------------------------------------------
# structure-aware DEFLATE header fuzz (RFC 1951): raw deflate streams built bit by bit
# ---------------------------------------------------------------------------------------------------------
class BitWriter:
    def __init__(self):
        self.acc = 0
        self.n = 0
        self.out = bytearray()

    def bits(self, v, k):                  # k bits of v, least significant first (header fields, extra bits)
        for i in range(k):
            self.acc |= ((v >> i) & 1) << self.n
            self.n += 1
            if self.n == 8:
                self.out.append(self.acc); self.acc = 0; self.n = 0

    def code(self, c, k):                  # a Huffman code of k bits, most significant first
        for i in range(k - 1, -1, -1):
            self.bits((c >> i) & 1, 1)

    def done(self):
        if self.n:
            self.out.append(self.acc); self.acc = 0; self.n = 0
        return bytes(self.out)


def canonical(lengths):
    """symbol -> (code, length) of the canonical Huffman code of RFC 1951 3.2.2 (whatever the lengths: may be
    incomplete or over-subscribed - then the codes are simply what the construction gives)"""
    maxl = max(lengths + [0])
    bl = [0] * (maxl + 2)
    for l in lengths:
        if l:
            bl[l] += 1
    code = 0
    nxt = [0] * (maxl + 2)
    for b in range(1, maxl + 1):
        code = (code + bl[b - 1]) << 1
        nxt[b] = code
    res = {}
    for sym, l in enumerate(lengths):
        if l:
            res[sym] = (nxt[l] & ((1 << l) - 1), l)
            nxt[l] += 1
    return res


CLC_ORDER = [16, 17, 18, 0, 8, 7, 9, 6, 10, 5, 11, 4, 12, 3, 13, 2, 14, 1, 15]
# inputs of the test targets of zlib's contrib/puff (coverage of every error return), as far as known
PUFF_REGRESSION = ["04", "00", "0000000000", "000100feff", "010100feff0a", "027effff", "02", "0480499224499224 0fb4ffffc304".replace(" ", ""),
                   "048049922449922471ffff931100", "04c081080000000020 7feb0b0000".replace(" ", ""), "0b0000", "1a07",
                   "0cc08100000000009 0ff6b04".replace(" ", ""), "fcfe36e75e1cefb3555877b66ddfb9bdee9f521f9221b49d824742ea0200", "0400feff", "04002449",
                   "04804992244992240fb4ffffc384", "040024e9ffff", "040024e9ff6d", "030000", "0300", "03", "05", "0500", "050000", "05000000",
                   "06", "07", "ff", "0c", "0d", "e5e0810000000000" ]


def clc_lengths(rng, shape):
    """19 code-length-code lengths (0..7) of a given shape"""
    l = [0] * 19
    syms = list(range(19))
    rng.shuffle(syms)
    if shape == "zero":
        pass
    elif shape == "single":
        l[syms[0]] = rng.choice([1, 1, 2, 7])
    elif shape == "two1":
        l[syms[0]] = l[syms[1]] = 1
    elif shape == "complete":
        pat = rng.choice([[1, 2, 2], [2, 2, 2, 2], [1, 2, 3, 3], [1, 1], [2, 2, 2, 3, 3], [1, 2, 3, 4, 4], [3] * 8, [1, 2, 3, 4, 5, 6, 7, 7],
                          [2, 2, 3, 3, 3, 3], [4] * 16, [2, 3, 3, 3, 3, 3, 4, 4]])
        # make sure the interesting symbols (repeat codes, small lengths) are often present
        pref = rng.sample([16, 17, 18, 0, 1, 2, 3, 8], min(len(pat), rng.randrange(0, 6)))
        chosen = pref + [x for x in syms if x not in pref]
        for sym, ln in zip(chosen, pat):
            l[sym] = ln
    elif shape == "over":
        pat = rng.choice([[1, 1, 1], [1, 1, 2], [2, 2, 2, 2, 2], [1, 2, 2, 3], [3] * 9, [1, 2, 3, 3, 3]])
        for sym, ln in zip(syms, pat):
            l[sym] = ln
    elif shape == "incomplete":
        pat = rng.choice([[2], [1, 2], [2, 2, 2], [3, 3], [1, 3, 3, 7], [2, 3]])
        for sym, ln in zip(syms, pat):
            l[sym] = ln
    else:
        l = [rng.randrange(8) if rng.random() < 0.7 else 0 for _ in range(19)]
    return l


def fuzz_deflate(rng):
    """one raw deflate stream with a structured (and usually malformed) header; returns (bytes, tag)"""
    w = BitWriter()
    btype = rng.choice([2, 2, 2, 2, 2, 2, 0, 1, 1, 3])
    w.bits(rng.choice([1, 1, 0]), 1)
    w.bits(btype, 2)
    tag = "hdr:type%d" % btype
    if btype == 0:
        data = bytes(rng.getrandbits(8) for _ in range(rng.choice([0, 1, 5, 100])))
        ln = rng.choice([len(data), len(data), len(data) + 1, max(0, len(data) - 1), 0, 65535, 300])
        nl = rng.choice([ln ^ 0xffff, ln ^ 0xffff, ln, (ln ^ 0xffff) ^ 1, (ln ^ 0xffff) ^ 0x8000, 0])
        w.bits(rng.getrandbits(5), 5)                      # the bits skipped up to the byte boundary
        w.bits(ln, 16); w.bits(nl, 16)
        body = w.done() + data
    elif btype == 1:
        # fixed codes: a few literals / end of block / the invalid symbols 286, 287 (8-bit codes 11000110, 11000111),
        # length codes with the invalid distance codes 30, 31, distances reaching before the start
        for _ in range(rng.randrange(0, 6)):
            k = rng.random()
            if k < 0.4:
                w.code(0x30 + rng.randrange(144), 8)        # literal 0..143
            elif k < 0.55:
                w.code(0xc6 + rng.randrange(2), 8)          # symbols 286 / 287
            elif k < 0.85:
                w.code(rng.randrange(1, 24), 7)             # length symbols 257..279
                w.bits(rng.getrandbits(5), rng.choice([0, 0, 1, 2]))
                w.code(rng.choice([0, 1, 2, 3, 4, 10, 29, 30, 31]), 5)
                w.bits(rng.getrandbits(13), rng.choice([0, 0, 1, 3, 13]))
            else:
                w.code(0, 7)                                # end of block
        body = w.done()
    elif btype == 3:
        body = w.done()
    else:
        hlit = rng.choice([0, 0, 1, 29, 30, 31, rng.randrange(32)])
        hdist = rng.choice([0, 0, 1, 29, 30, 31, rng.randrange(32)])
        hclen = rng.choice([0, 0, 15, 15, rng.randrange(16)])
        w.bits(hlit, 5); w.bits(hdist, 5); w.bits(hclen, 4)
        shape = rng.choice(["zero", "zero", "single", "two1", "complete", "complete", "complete", "over", "incomplete", "random"])
        tag = "hdr:dyn-" + shape
        l = clc_lengths(rng, shape)
        if shape == "zero":
            hclen_used = hclen
        for i in range(hclen + 4):
            w.bits(l[CLC_ORDER[i]], 3)
        seen = [l[CLC_ORDER[i]] if i < hclen + 4 else 0 for i in range(19)]
        eff = [0] * 19
        for i in range(19):
            eff[CLC_ORDER[i]] = seen[i]
        codes = canonical(eff)
        total = hlit + 257 + hdist + 1
        if codes and shape in ("complete", "two1", "single", "random", "incomplete") and rng.random() < 0.85:
            # code lengths written with the code length code: literal lengths, repeat instructions (16 first, runs that
            # overshoot the total, 17/18 zero runs), stopping early / exactly / late
            avail = sorted(codes)
            count = 0
            first = True
            stop = rng.choice([total, total, total + 3, max(0, total - 1), rng.randrange(0, total + 1)])
            guard = 0
            while count < stop and guard < 400:
                guard += 1
                if first and 16 in codes and rng.random() < 0.3:
                    sym = 16
                elif rng.random() < 0.25 and any(x in codes for x in (16, 17, 18)):
                    sym = rng.choice([x for x in (16, 17, 18) if x in codes])
                else:
                    sym = rng.choice(avail)
                first = False
                c, k = codes[sym]
                w.code(c, k)
                if sym == 16:
                    r = rng.choice([0, 3, rng.randrange(4)]); w.bits(r, 2); count += 3 + r
                elif sym == 17:
                    r = rng.choice([0, 7, rng.randrange(8)]); w.bits(r, 3); count += 3 + r
                elif sym == 18:
                    r = rng.choice([0, 127, rng.randrange(128)]); w.bits(r, 7); count += 11 + r
                else:
                    count += 1
            tag += "+lengths"
        body = w.done()
    tail_kind = rng.choice(["rnd", "rnd", "zero", "ff"])
    tn = rng.choice([0, 0, 1, 4, 20, 100, 483, 484, 485, 500, 800, rng.randrange(0, 801)])
    tail = bytes(rng.getrandbits(8) for _ in range(tn)) if tail_kind == "rnd" else bytes([0 if tail_kind == "zero" else 255]) * tn
    return body + tail, tag


# ---------------------------------------------------------------------------------------------------------
# sc_puff on raw deflate streams
# ---------------------------------------------------------------------------------------------------------
# length / distance tables of RFC 1951 (written out here independently of sc_puff.c and of the model)
LEN_BASE = [3, 4, 5, 6, 7, 8, 9, 10, 11, 13, 15, 17, 19, 23, 27, 31, 35, 43, 51, 59, 67, 83, 99, 115, 131, 163, 195, 227, 258]
LEN_EXTRA = [0, 0, 0, 0, 0, 0, 0, 0, 1, 1, 1, 1, 2, 2, 2, 2, 3, 3, 3, 3, 4, 4, 4, 4, 5, 5, 5, 5, 0]
DIST_BASE = [1, 2, 3, 4, 5, 7, 9, 13, 17, 25, 33, 49, 65, 97, 129, 193, 257, 385, 513, 769, 1025, 1537, 2049, 3073, 4097, 6145, 8193, 12289, 16385, 24577]
DIST_EXTRA = [0, 0, 0, 0, 1, 1, 2, 2, 3, 3, 4, 4, 5, 5, 6, 6, 7, 7, 8, 8, 9, 9, 10, 10, 11, 11, 12, 12, 13, 13]


def fixed_litlen(w, sym):
    if sym < 144:
        w.code(0x30 + sym, 8)
    elif sym < 256:
        w.code(0x190 + sym - 144, 9)
    elif sym < 280:
        w.code(sym - 256, 7)
    else:
        w.code(0xc0 + sym - 280, 8)


def one_match_stream(prefix, lsym, lextra, dsym, dextra):
    """a stored block holding `prefix` (not final) followed by a final fixed block with ONE match and the end-of-block code"""
    w = BitWriter()
    w.bits(0, 1); w.bits(0, 2)
    if w.n:
        w.out.append(w.acc); w.acc = 0; w.n = 0
    n = len(prefix)
    w.out += bytes([n & 255, n >> 8, (~n) & 255, ((~n) >> 8) & 255]) + prefix
    w.bits(1, 1); w.bits(1, 2)
    fixed_litlen(w, 257 + lsym)
    w.bits(lextra, LEN_EXTRA[lsym])
    w.code(dsym, 5)
    w.bits(dextra, DIST_EXTRA[dsym])
    fixed_litlen(w, 256)
    return w.done()


def table_cases(rng):
    """every length code and every distance code of the tables of codes (), smallest and largest extra bits, at the case splits of the
    proofs: distance = bytes written (accepted) / one more (-11); output space = needed (accepted) / one less (1)"""
    res = []
    for lsym in range(29):
        for lextra in sorted({0, (1 << LEN_EXTRA[lsym]) - 1}):
            ln = LEN_BASE[lsym] + lextra
            pre = bytes(rng.getrandbits(8) for _ in range(5))
            s = one_match_stream(pre, lsym, lextra, 2, 0)          # distance 3
            res.append((0, 5 + ln, s, "table:len"))
            res.append((0, 5 + ln - 1, s, "table:len-full"))
            res.append((1, 0, s, "table:len-scan"))
    for dsym in range(30):
        for dextra in sorted({0, (1 << DIST_EXTRA[dsym]) - 1}):
            dist = DIST_BASE[dsym] + dextra
            for have in (dist, dist - 1):
                pre = bytes((i * 131 + (i >> 8)) & 255 for i in range(have))
                s = one_match_stream(pre, 1, 0, dsym, dextra)       # length 4
                res.append((0, have + 4, s, "table:dist" if have == dist else "table:dist-far"))
    return res


def gen_puff_cases(ctx):
    rng = ctx.rng
    cases = []

    def add(nil, destlen, src, sourcelen, tag):
        cases.append(dict(line="puff %x %x %s %x" % (nil, destlen, cc.hx(src), sourcelen), src=src, nil=nil, destlen=destlen, sourcelen=sourcelen, tag=tag))

    datas = [b"", b"a", b"ab", b"aaaaaaaaaaaaaaaaaaaaaaaaaaaaaaaaaaaaaaaaaaaaaaaa", b"abcabcabcabcabcabcabcabcabcabcabc" * 3,
             bytes(range(64)), bytes(rng.getrandbits(8) for _ in range(150)), (b"lorem ipsum dolor sit amet, " * 30),
             bytes(300), bytes((i * i) & 255 for i in range(500))]
    if not ctx.quick:
        datas += [bytes(rng.getrandbits(2) for _ in range(5000)), (b"0123456789abcdef" * 3000)]
    streams = []
    for d in datas:
        for lvl, strat in ((9, zlib.Z_DEFAULT_STRATEGY), (9, zlib.Z_FIXED), (6, zlib.Z_HUFFMAN_ONLY), (1, zlib.Z_RLE), (0, zlib.Z_DEFAULT_STRATEGY), (9, zlib.Z_FILTERED)):
            streams.append((d, raw_deflate(d, lvl, strat)))
    for d, s in streams:
        n = len(d)
        add(0, n, s, len(s), "valid")
        add(1, n, s, len(s), "valid-scan")
        add(0, n + 5, s, len(s), "valid-roomy")
        if n:
            add(0, n - 1, s, len(s), "dest-short")
            add(0, 0, s, len(s), "dest-zero")
        add(0, n, s + b"\xff\x00\x17", len(s) + 3, "trailing")
        add(0, n, s, max(0, len(s) - 1), "source-short")
        for k in range(0, len(s)) if len(s) <= 40 else sorted(set(rng.randrange(len(s)) for _ in range(6))):
            add(0, n, s[:k], k, "truncated")
    # every single-bit flip of short streams (all Huffman paths), sampled flips of longer ones
    for d, s in streams:
        if len(s) <= (36 if ctx.quick else 120):
            pos = range(8 * len(s))
        else:
            pos = sorted(set(rng.randrange(8 * len(s)) for _ in range(24 if (ctx.quick or len(d) > 1000) else 200)))
        for p in pos:
            b = bytearray(s); b[p >> 3] ^= 1 << (p & 7)
            add(rng.choice([0, 0, 0, 1]), len(d) + rng.choice([0, 0, 3, 300]), bytes(b), len(b), "bitflip")
    # all 1- and 2-byte streams' first bytes (block headers), random garbage
    for a in range(256):
        add(0, 16, bytes([a]), 1, "one-byte")
        add(0, 16, bytes([a, rng.getrandbits(8), rng.getrandbits(8), rng.getrandbits(8)]), 4, "four-bytes")
    for _ in range(300 if ctx.quick else 5000):
        k = rng.randrange(1, 40)
        s = bytes(rng.getrandbits(8) for _ in range(k))
        first = rng.choice([0x05, 0x03, 0x01, 0x04, 0x02, 0x00, 0x0d, 0xed, 0xbd])     # favour dynamic / fixed / stored headers
        add(0, rng.choice([0, 10, 300, 70000]), bytes([first]) + s, k + 1, "garbage")
    # structure-aware header fuzz and the regression inputs of zlib's contrib/puff
    for _ in range(1500 if ctx.quick else 20000):
        s, tag = fuzz_deflate(rng)
        add(rng.choice([0, 0, 0, 1]), rng.choice([0, 16, 300, 2000]), s, len(s), tag)
    # the tables of codes (): every length and distance code at the boundaries of the tests around them
    for nil, dl, s, tag in table_cases(rng):
        add(nil, dl, s, len(s), tag)
    for hx_ in PUFF_REGRESSION:
        s = bytes.fromhex(hx_)
        for dl in (0, 1, 16, 1000):
            add(0, dl, s, len(s), "puff-regression")
        add(1, 0, s, len(s), "puff-regression")
        add(0, 300, s + bytes(600), len(s) + 600, "puff-regression+zeros")
        add(0, 300, s + bytes([255]) * 600, len(s) + 600, "puff-regression+ff")
    return cases


def py_raw_inflate(src):
    try:
        d = zlib.decompressobj(-15)
        out = d.decompress(src)
        if not d.eof:
            return None
        return out, len(src) - len(d.unused_data)
    except zlib.error:
        return None


def judge_puff(ctx, c, out):
    if out in ("CRASH", "TIMEOUT"):
        return ("puff-%s:%s" % (out.lower(), c["tag"]), "sc_puff: %s" % ("sanitizer report or abnormal termination" if out == "CRASH" else "no termination within the time limit"))
    w = out.split()
    if not w:
        return ("puff-garbled", "empty output")
    if w[0] != "0":
        # every error return is a documented code (sc_puff.c: 2, 1, -1 .. -11; theorem C07_puff_codes); a positive code leaves
        # *destlen / *sourcelen alone, a negative one stores counters that do not exceed what was offered (harness markers)
        try:
            rc = int(w[0], 16)
        except ValueError:
            return ("puff-garbled", "unreadable return value %r" % w[0])
        if not (rc in (1, 2) or -11 <= rc <= -1):
            return ("puff-code:%s" % c["tag"], "sc_puff returned the undocumented code %d" % rc)
        if len(w) > 1:
            return ("puff-lengths:%s" % c["tag"], "sc_puff returned %d and left *destlen / *sourcelen in a state its documentation excludes: %s" % (rc, " ".join(w[1:])))
        return None
    dl, sl = int(w[1], 16), int(w[2], 16)
    ob = cc.unhx(w[3])
    if dl > c["destlen"] and not c["nil"]:
        return ("puff-destlen:%s" % c["tag"], "sc_puff reports %d output bytes for a destination of %d" % (dl, c["destlen"]))
    if sl > c["sourcelen"]:
        return ("puff-sourcelen:%s" % c["tag"], "sc_puff reports %d consumed bytes of %d available" % (sl, c["sourcelen"]))
    ref = py_raw_inflate(c["src"][:c["sourcelen"]])
    if ref is not None:
        if (not c["nil"] and ob != ref[0]) or dl != len(ref[0]) or sl != ref[1]:
            return ("puff-wrong:%s" % c["tag"], "sc_puff result differs from zlib's raw inflate on the same stream")
    return None


# ---------------------------------------------------------------------------------------------------------
def run(ctx):
    cc.translate_and_prove(ctx, ["Codec", "PuffC07", "DecodeC07"])
    exes = cc.build(ctx, static=True)
    dcases = gen_dec_cases(ctx)
    pcases = gen_puff_cases(ctx)
    replay_first = None
    if ctx.replay:
        r = json.load(open(ctx.replay)).get("replay", {})
        if r.get("op") == "dec":
            dcases = [dict(line=r["line"], text=cc.unhx(r["text"]), kind=tuple(r["kind"]), maxsz=r["maxsz"], tag=r.get("tag", "replay"))] + dcases[:20]
        elif r.get("op") == "puff":
            pcases = [dict(line=r["line"], src=cc.unhx(r["src"]), nil=r["nil"], destlen=r["destlen"], sourcelen=r["sourcelen"], tag=r.get("tag", "replay"))] + pcases[:20]
    ctx.log("cases: %d decode, %d puff" % (len(dcases), len(pcases)))
    # info cases: the same texts through sc_io_decode_info
    itexts = []
    seen = set()
    for c in dcases:
        if c["text"] not in seen:
            seen.add(c["text"]); itexts.append(c["text"])
    ilines = ["info " + cc.hx(t) for t in itexts]
    dlines = [c["line"] for c in dcases]
    plines = [c["line"] for c in pcases]
    alllines = dlines + ilines + plines
    t0 = time.time()
    outs = {}
    incidents = {}
    for v in ("z", "nz"):
        outs[v], incidents[v] = cc.run_harness(ctx, exes[v], alllines, timeout=170 if ctx.quick else 1200)
        ctx.log("%s build: %d cases in %.1fs, %d incidents" % (v, len(alllines), time.time() - t0, len(incidents[v])))
    model = cc.run_model(ctx, "c07", alllines, timeout=600 if ctx.quick else 3000)
    ctx.log("model done %.1fs" % (time.time() - t0))
    nd, ni = len(dlines), len(ilines)
    have_model = not (model and model[0] == cc.NO_MODEL)
    dist = {}
    stats = dict(ok_z=0, ok_nz=0, err_z=0, err_nz=0, accept_differs=0, model_oob=0)
    incident_text = {v: {k: e for (k, kind, e) in incidents[v] if kind != "MEMORY"} for v in incidents}
    # allocation balance (sc_memory_status of the libsc and the default package) over every single call
    for v in incidents:
        for (k, kind, e) in incidents[v]:
            if kind != "MEMORY":
                continue
            if k < nd:
                c = dcases[k]
                robj = dict(op="dec", line=c["line"], text=cc.hx(c["text"]), kind=list(c["kind"]), maxsz=c["maxsz"], tag=c["tag"], variant=v, impl=(outs[v][k] or "")[:200])
                what = "sc_io_decode"
                tag = c["tag"]
            elif k < nd + ni:
                robj = dict(op="info", line=alllines[k][:4000], variant=v)
                what, tag = "sc_io_decode_info", "info"
            else:
                c = pcases[k - nd - ni]
                robj = dict(op="puff", line=c["line"], src=cc.hx(c["src"]), nil=c["nil"], destlen=c["destlen"], sourcelen=c["sourcelen"], tag=c["tag"], variant=v)
                what, tag = "sc_puff", "puff:" + c["tag"]
            ctx.violation("memory-balance:%s:%s" % (tag, v), "%s (%s build) returned %s and left the allocation balance changed: %s | case: %s" % (
                what, v, (outs[v][k] or "")[:30], e, alllines[k][:120]), robj)

    def report(key, msg, robj, known_key=None):
        ctx.violation(known_key or key, msg, robj)

    # ---- decode
    ndis = 0
    for i, c in enumerate(dcases):
        dist[c["tag"]] = dist.get(c["tag"], 0) + 1
        ctx.count_case(("dec", c["line"]), nontrivial=len(c["text"]) > 3)
        mo = model[i]
        hdr = declared(c["text"])
        for v in ("z", "nz"):
            o = outs[v][i] or "<missing>"
            stats[("ok_" if o.startswith("ok") else "err_") + v] += 1
            j = judge_dec(ctx, c, o, v)
            if j:
                robj = dict(op="dec", line=c["line"], text=cc.hx(c["text"]), kind=list(c["kind"]), maxsz=c["maxsz"], tag=c["tag"], variant=v,
                            impl=o[:200], model=mo[:200], sanitizer=incident_text[v].get(i, ""))
                report(j[0] + ":" + v, j[1] + " | case: " + c["line"][:120] + " | " + incident_text[v].get(i, "")[:300], robj)
        if mo in ("OOB", "NOFUEL"):
            stats["model_oob"] += 1
            ctx.tie_broken("model leaves its bounds", "case %s: model %s (excluded by C07_decode_safe), libsc: %s / %s" % (c["line"][:100], mo, outs["z"][i], outs["nz"][i]))
            continue
        # tie: the build without zlib is the modelled code path, line by line
        on = outs["nz"][i] or "<missing>"
        canon = lambda s: "err" if s.startswith("err") else s
        if have_model and on not in ("CRASH", "TIMEOUT") and canon(on) != canon(mo):
            ndis += 1
            if ndis <= 3:
                ctx.tie_broken("sc_io_decode vs model (build without zlib)", "case %s: libsc %s, model %s" % (c["line"][:160], on[:120], mo[:120]))
        oz = outs["z"][i] or "<missing>"
        if oz.startswith("ok") and mo.startswith("ok") and oz != mo:
            ndis += 1
            if ndis <= 3:
                ctx.tie_broken("sc_io_decode vs model (zlib build)", "case %s: libsc %s, model %s" % (c["line"][:160], oz[:120], mo[:120]))
        if oz.startswith("ok") != mo.startswith("ok"):
            stats["accept_differs"] += 1          # zlib's inflate and sc_puff may differ on malformed streams: logged, not judged
            k2 = "accept_differs:%s:%s" % (c["tag"], "zlib-only" if oz.startswith("ok") else "puff-only")
            stats[k2] = stats.get(k2, 0) + 1
    # ---- decode_info
    for k, t in enumerate(itexts):
        i = nd + k
        ctx.count_case(("info", t), nontrivial=len(t) >= 12)
        mo = model[i]
        for v in ("z", "nz"):
            o = outs[v][i] or "<missing>"
            bad = None
            if o in ("CRASH", "TIMEOUT"):
                bad = ("info-" + o.lower(), "sc_io_decode_info (%s build): %s" % (v, o))
            elif "POSITIVE-RC" in o or "INPUT-MODIFIED" in o or "NULL-ARGS-DIFFER" in o:
                bad = ("info-flag", "sc_io_decode_info (%s build): %s" % (v, o[:80]))
            elif o.startswith("ok"):
                w = o.split()
                try:
                    h = __import__("base64").b64decode(bytes(t[:12]), validate=True)
                except Exception:
                    h = None
                if len(t) < 12 or h is None or len(h) != 9 or int(w[1], 16) != int.from_bytes(h[:8], "big") or int(w[2], 16) != h[8]:
                    bad = ("info-wrong", "sc_io_decode_info returned %s for a text whose first 12 characters are %r" % (o, bytes(t[:12])))
            elif o.startswith("err") and len(t) >= 12 and all(ch in cc.ALPHASET for ch in t[:12]):
                bad = ("info-rejects-valid", "sc_io_decode_info rejected 12 alphabet characters %r" % bytes(t[:12]))
            if bad:
                ctx.violation(bad[0] + ":" + v, bad[1], dict(op="info", line=ilines[k], variant=v, impl=o, model=mo, sanitizer=incident_text[v].get(i, "")))
            elif have_model and o not in ("CRASH", "TIMEOUT") and o != mo:
                ndis += 1
                if ndis <= 3:
                    ctx.tie_broken("sc_io_decode_info vs model", "text %s: libsc (%s) %s, model %s" % (cc.hx(t)[:80], v, o, mo))
    # ---- puff
    for k, c in enumerate(pcases):
        i = nd + ni + k
        dist["puff:" + c["tag"]] = dist.get("puff:" + c["tag"], 0) + 1
        rcs = ctx.notes.setdefault("puff_return_codes", {})
        rk = (outs["nz"][i] or "?").split(" ")[0]
        rcs[rk] = rcs.get(rk, 0) + 1
        ctx.count_case(("puff", c["line"]), nontrivial=len(c["src"]) > 1)
        mo = model[i]
        for v in ("z", "nz"):
            o = outs[v][i] or "<missing>"
            j = judge_puff(ctx, c, o)
            if j:
                ctx.violation(j[0] + ":" + v, j[1] + " | case: " + c["line"][:120] + " | " + incident_text[v].get(i, "")[:300],
                              dict(op="puff", line=c["line"], src=cc.hx(c["src"]), nil=c["nil"], destlen=c["destlen"], sourcelen=c["sourcelen"], tag=c["tag"],
                                   variant=v, impl=o[:200], model=mo[:200], sanitizer=incident_text[v].get(i, "")))
            elif have_model and o != mo:
                ndis += 1
                if ndis <= 3:
                    ctx.tie_broken("sc_puff vs model", "case %s: libsc (%s) %s, model %s" % (c["line"][:120], v, o[:100], mo[:100]))
        if mo in ("OOB", "NOFUEL"):
            ctx.tie_broken("puff model leaves its bounds", "case %s: %s (excluded by C07_puff_safe)" % (c["line"][:120], mo))
    # incidents that could not be attributed to a case line
    for v in incidents:
        for (k, kind, e) in incidents[v]:
            if kind.startswith("exit-status"):
                ctx.tie_broken("harness (%s build) ended abnormally" % v, kind + ": " + e[:400])
    ctx.cov["disagreements_checked"] = 2 * len(alllines)
    ctx.cov["rule"] = ("valid texts built by Python (zlib levels 0/1/9, fixed / Huffman-only / stored / 7-byte stored blocks; data sizes around the 57-byte line; "
                       "random line-break bytes) x 16 structure-aware mutations (truncate, bit flip, junk byte, insert/delete, duplicate/drop line, size header rewrite incl. "
                       "huge sizes, format character, compressed stream flip/truncate/extend, over- and undersized streams, zlib header variants, "
                       "broken stored blocks, break-only lines, moved padding, 75-character lines) x output kinds (owner / view of smaller, equal, larger capacity / in place; "
                       "element sizes 1,2,3,4,7,8) x maxima; every string of length <= %d over {NUL,'A','=','\\n'}; six shapes of every length 0..200; sc_puff on raw deflate "
                       "streams of six strategies with every single-bit flip (short streams), every truncation, short destinations, scanning mode, all 256 first bytes, random garbage; "
                       "structure-aware DEFLATE header fuzz (block types 0..3, random HLIT/HDIST/HCLEN, code-length codes all-zero / single / two of length 1 / complete / over-subscribed / "
                       "incomplete / random, length sequences with repeat codes first and overshooting runs, tails of 0..800 random/zero/0xff bytes) directly and inside a zlib+armor wrapper; "
                       "the regression inputs of zlib's contrib/puff; every length code and every distance code of the tables of codes () with smallest / largest extra bits "
                       "behind a stored prefix, at distance = bytes written / one more and output space = needed / one less (aimed at the case splits of C07_gen_codes_*); "
                       "well-formed texts whose compressed section has every length 0..12 (zlib header + 0..4 bytes: the boundary of C07_nonuncompress_short_input) x 10 block starts "
                       "(final / non-final stored, fixed, dynamic) x fills 0xbe/00/ff/55 x size headers 0,1,3,57,4096 x 8 output kinds (owner with NULL array, views, in place), "
                       "adler32 trailers cut at 0..4 bytes, valid texts cut at every position of their first 24 characters (raw and re-terminated). "
                       "A case is non-trivial if its text has more than 3 bytes; distinct = distinct case lines" % (5 if ctx.quick else 7))
    ctx.cov["exhaustive"] = False
    for gname in ("PuffC07", "DecodeC07"):
        try:
            st_ = json.load(open(os.path.join(vlib.COQ, "Gen", gname + ".status")))
            ctx.notes["t1_" + gname] = "%d generated definitions (slices of the current source), tied to the models by the theorems C07_gen_*" % len(st_.get("infos", []))
        except (OSError, ValueError):
            pass
    ctx.notes["case_distribution"] = dist
    ctx.notes["verdicts"] = stats
    ctx.notes["zlib_vs_puff_acceptance_differences_logged"] = stats["accept_differs"]
    for c in dcases[:: max(1, len(dcases) // 4)][:4]:
        ctx.sample({"case": c["line"][:160], "tag": c["tag"]})
    ctx.sample({"case": pcases[len(pcases) // 2]["line"][:160], "tag": "puff:" + pcases[len(pcases) // 2]["tag"]})
    ctx.cov["trusted_base"] = ["tools/c2g translator and clang-14's JSON AST for the index formulas inside the model (Gen/Codec.v) and for the slices of sc_puff.c / cdecode.c / sc_io.c "
                               "(Gen/PuffC07.v, Gen/DecodeC07.v), including the AST desugaring rules listed at the top of tools/c2g/groups_C07.py",
                               "memory safety and termination of the compiled C code are OBSERVED (ASan/UBSan, time limit), the theorems are about the instrumented model",
                               "zlib's uncompress (build with zlib): contract 'writes at most the given number of bytes', Section hypothesis of C07_decode_zlib_safe",
                               "Python's zlib/base64 modules as the independent reader of the oracle"]
    ctx.assumptions += ["input array has element size 1, output array is a valid sc_array (documented preconditions of sc_io_decode)",
                        "sizes of objects in memory are below 2^62"]
    return "proof"
