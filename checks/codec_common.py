"""Shared by C06 (lossless, configuration independent encodings) and C07 (decoders reject malformed input
safely): builds of the two libsc configurations (with / without zlib, ASan+UBSan), harness I/O with crash and
time-limit attribution to the single failing case, the extracted model, and the Python side of the oracles
(an armor reader / writer and a base-64 reader written from the format description, Python's zlib)."""
import os, sys, time, zlib, base64, json
import vlib

ALPHA = b"ABCDEFGHIJKLMNOPQRSTUVWXYZabcdefghijklmnopqrstuvwxyz0123456789+/"
ALPHASET = set(ALPHA)
AVAL = {c: i for i, c in enumerate(ALPHA)}
ENV = dict(os.environ, ASAN_OPTIONS="detect_leaks=0:abort_on_error=0:allocator_may_return_null=1",
           UBSAN_OPTIONS="print_stacktrace=1:halt_on_error=1")
HARNESS = os.path.join(vlib.TOOLS, "harness", "c06_harness.c")


def hx(b):
    return b.hex() if len(b) else "-"


def unhx(s):
    return b"" if s == "-" else bytes.fromhex(s)


# ---------------------------------------------------------------------------------------------------------
# builds
# ---------------------------------------------------------------------------------------------------------
def build(ctx, static=True):
    """the two configurations of libsc from the working tree + the harness; returns dict name -> executable"""
    exes = {}
    vz = ctx.variant(mpi="off", zlib=True, san=True)
    vnz = ctx.variant(mpi="off", zlib=False, san=True)
    exes["z"] = ctx.cc([HARNESS], os.path.join(ctx.scratch, "codec_z"), vz)
    exes["nz"] = ctx.cc([HARNESS], os.path.join(ctx.scratch, "codec_nz"), vnz)
    if static:
        # sc_io.c, cencode.c, cdecode.c included textually: their static functions become callable
        exes["nzs"] = ctx.cc([HARNESS], os.path.join(ctx.scratch, "codec_nzs"), vnz, extra=["-DSTATIC_OPS"])
    return exes


def run_harness(ctx, exe, lines, timeout=150, max_restarts=30, args=()):
    """Runs the case lines through a harness.  A sanitizer report / crash / time-out stops the process at one
    case: that case gets the output 'CRASH' / 'TIMEOUT' (with the stderr excerpt in the returned list) and the
    run continues behind it.  Returns (outputs, incidents=[(index, kind, stderr excerpt)])."""
    outs = [None] * len(lines)
    incidents = []
    start = 0
    restarts = 0
    while start < len(lines):
        text = ("\n".join(lines[start:]) + "\n").encode()
        rc, out, err = vlib.sh2([exe] + list(args), stdin=text, timeout=timeout, env=ENV, cwd=ctx.scratch)
        got = out.decode("latin1").split("\n")
        complete = got[:-1]                       # the piece behind the last newline is partial (or empty)
        for i, l in enumerate(complete):
            if start + i < len(lines):
                outs[start + i] = l
        k = start + len(complete)
        if rc == 0 and k >= len(lines):
            break
        if k >= len(lines):
            incidents.append((len(lines) - 1, "exit-status-%s-after-last-case" % rc, err[-2500:]))
            break
        kind = "TIMEOUT" if rc in (124, -14, 142) else "CRASH"       # 124: batch limit, SIGALRM: the harness' limit per case
        outs[k] = kind
        incidents.append((k, kind, "exit=%s %s" % (rc, sanitizer_summary(err))))
        start = k + 1
        restarts += 1
        if restarts > max_restarts:
            for j in range(start, len(lines)):
                outs[j] = "NOT-RUN"
            break
    # the harness' allocation-balance check (sc_memory_status before / after every case): reported as an incident of
    # kind MEMORY for the case, the flag is removed from the output line so that the other comparisons are unaffected
    for i, o in enumerate(outs):
        if o and " MEMORY-STATUS-CHANGED" in o:
            j = o.index(" MEMORY-STATUS-CHANGED")
            incidents.append((i, "MEMORY", o[j + 1:]))
            outs[i] = o[:j]
    return outs, incidents


def sanitizer_summary(err):
    keep = []
    for l in err.split("\n"):
        if "ERROR: AddressSanitizer" in l or "runtime error" in l or "SUMMARY" in l or l.strip().startswith("#0") \
                or l.strip().startswith("#1") or l.strip().startswith("#2") or "Abort" in l or "[timeout]" in l:
            keep.append(l.strip()[:300])
    return " | ".join(keep[:12]) if keep else err[-600:]


NO_MODEL = "<no-model>"


def run_model(ctx, name, lines, timeout=600):
    """outputs of the extracted model; if the model no longer builds (e.g. a generated definition is gone) the tie
    is reported broken once and every output is NO_MODEL, so that the search for a failing input still runs"""
    try:
        exe = ctx.model(name)
    except vlib.BuildError as e:
        if not getattr(ctx, "_model_build_reported", False):
            ctx._model_build_reported = True
            ctx.tie_broken("%s model build (generated definitions do not extract/compile)" % name, str(e)[-1200:])
        return [NO_MODEL] * len(lines)
    rc, out, err = ctx.run_lines([exe], "\n".join(lines) + "\n", timeout=timeout)
    out = out[:-1] if out and out[-1] == "" else out
    if rc != 0:
        ctx.tie_broken("%s model run" % name, "exit %s after %d of %d cases: %s" % (rc, len(out), len(lines), err[-800:]))
    out = out + ["<missing>"] * (len(lines) - len(out))
    return out


# ---------------------------------------------------------------------------------------------------------
# Python side of the format (written from the description in sc_io.h, not from the model)
# ---------------------------------------------------------------------------------------------------------
def b64_skip_decode(code):
    """base 64 reader that ignores every byte outside the alphabet ('=' included), like libb64:
    n alphabet characters give floor (6 n / 8) bytes"""
    acc = 0
    nb = 0
    out = bytearray()
    for c in code:
        v = AVAL.get(c)
        if v is None:
            continue
        acc = (acc << 6) | v
        nb += 6
        if nb >= 8:
            nb -= 8
            out.append((acc >> nb) & 255)
            acc &= (1 << nb) - 1
    return bytes(out)


def py_armor(payload, lb=61):
    """the text format: RFC 4648 code in lines of 76, each followed by [lb, '\\n'], final NUL"""
    code = base64.b64encode(payload)
    t = bytearray()
    for i in range(0, len(code), 76):
        t += code[i:i + 76] + bytes([lb, 10])
    return bytes(t) + b"\0"


def py_encode(data, level=9, lb=61, stored=False, wbits=15):
    if stored:
        comp = py_stored(data)
    else:
        co = zlib.compressobj(level, zlib.DEFLATED, wbits)
        comp = co.compress(data) + co.flush()
    return py_armor(len(data).to_bytes(8, "big") + b"z" + comp, lb)


def py_stored(data, block=65531, cmf=0x78, flg=0x01):
    """RFC 1950 stream of stored blocks"""
    s = bytearray([cmf, flg])
    pos = 0
    while True:
        chunk = data[pos:pos + block]
        pos += len(chunk)
        last = pos >= len(data)
        s += bytes([1 if last else 0]) + len(chunk).to_bytes(2, "little") + (len(chunk) ^ 0xffff).to_bytes(2, "little") + chunk
        if last:
            break
    return bytes(s) + zlib.adler32(data).to_bytes(4, "big")


def split_lines(text):
    """positional reading of the armor: (list of code lines, list of 2-byte breaks) or None"""
    if len(text) == 0 or text[-1] != 0:
        return None
    body = text[:-1]
    lines, brk = [], []
    pos = 0
    while pos < len(body):
        rem = len(body) - pos
        if rem > 78:
            lines.append(body[pos:pos + 76]); brk.append(body[pos + 76:pos + 78]); pos += 78
        else:
            if rem < 3:
                return None
            lines.append(body[pos:len(body) - 2]); brk.append(body[len(body) - 2:]); pos = len(body)
    return lines, brk


def py_payload(text):
    """the bytes the armor carries, read leniently (junk skipped), or None"""
    sl = split_lines(text)
    if sl is None:
        return None
    return b64_skip_decode(b"".join(sl[0]))


def py_inflate(comp, size):
    """zlib stream -> bytes, or None; like uncompress(): trailing bytes behind the stream are ignored,
    the result must have exactly `size` bytes (size None: any)"""
    try:
        d = zlib.decompressobj()
        out = d.decompress(comp, (size + 1) if size is not None else 0)
        if not d.eof:
            return None
        if size is not None and len(out) != size:
            return None
        return out
    except zlib.error:
        return None


def py_inflate_any(comp):
    """zlib stream -> (bytes, status); status 'ok' (stream complete; trailing bytes ignored like uncompress() does),
    'incomplete' or 'error'; the output is capped at 64 MiB"""
    try:
        d = zlib.decompressobj()
        out = d.decompress(comp, 1 << 26)
        if not d.eof:
            return out, "incomplete"
        return out, "ok"
    except zlib.error:
        return None, "error"


def py_natural_decode(text):
    """(declared size, format char, inflated bytes or None, status) read by Python alone; None if there is no
    9-byte header in the text"""
    p = py_payload(text)
    if p is None or len(p) < 9:
        return None
    size = int.from_bytes(p[:8], "big")
    out, status = py_inflate_any(p[9:])
    return size, p[8], out, status


def check_text_format(text, data, lb):
    """C06 oracle on an encoder output: returns None if everything the property states holds, else a message"""
    if len(text) == 0 or text[-1] != 0:
        return "text is not NUL-terminated"
    sl = split_lines(text)
    if sl is None:
        return "no line structure"
    lines, brk = sl
    for i, l in enumerate(lines):
        if i < len(lines) - 1 and len(l) != 76:
            return "line %d has %d code characters" % (i, len(l))
        if not (1 <= len(l) <= 76):
            return "last line has %d code characters" % len(l)
        if brk[i] != bytes([lb & 255, 10]):
            return "line %d is followed by %r instead of the break bytes" % (i, brk[i])
        if 0 in l:
            return "NUL inside line %d" % i
    code = b"".join(lines)
    try:
        payload = base64.b64decode(code, validate=True)        # strict RFC 4648 reader of the standard library
    except Exception as e:
        return "code characters are not RFC 4648 base 64: %s" % e
    if base64.b64encode(payload) != code:
        return "code characters are not the canonical RFC 4648 text of their content"
    if len(payload) < 9:
        return "payload shorter than the info header"
    if len(text) != 4 * ((len(payload) + 2) // 3) + 2 * ((len(payload) + 56) // 57) + 1:
        return "text length does not follow the line geometry"
    try:
        h = base64.b64decode(bytes(text[:12]), validate=True)
    except Exception as e:
        return "first 12 characters are not base 64: %s" % e
    if int.from_bytes(h[:8], "big") != len(data) or h[8:9] != b"z":
        return "first 12 characters give size %d format %r, expected %d 'z'" % (int.from_bytes(h[:8], "big"), h[8:9], len(data))
    try:
        back = zlib.decompress(payload[9:])
    except zlib.error as e:
        return "independent zlib reader rejects the stream: %s" % e
    if back != data:
        return "independent base64+zlib reader recovers %d bytes that differ from the %d input bytes" % (len(back), len(data))
    return None


def parse_array(out):
    """'esz cnt hex' -> (esz, cnt, bytes)"""
    w = out.split()
    return int(w[0], 16), int(w[1], 16), unhx(w[2])


def shrink_bytes(data, fails, budget=40):
    """greedy shrinking of a failing byte string (halves, then single chunks)"""
    cur = data
    n = 0
    chunk = max(1, len(cur) // 2)
    while chunk >= 1 and n < budget and len(cur) > 0:
        i = 0
        progressed = False
        while i < len(cur) and n < budget:
            cand = cur[:i] + cur[i + chunk:]
            n += 1
            if fails(cand):
                cur = cand
                progressed = True
            else:
                i += chunk
        if not progressed:
            chunk //= 2
    return cur


def translate_and_prove(ctx, groups=("Codec",)):
    """T1 + proof obligations.  coq/Gen is shared by all checks and by `make gen`: if somebody else regenerated
    the group (from another source tree) while the theorems were being checked, the step is repeated, so that
    the obligations are always checked against the translation of THIS run's source tree."""
    import genall
    for attempt in range(3):
        st = genall.run(list(groups))
        nb, ob, di = len(ctx.broken), ctx.cov["obligations"], ctx.cov["discharged"]
        for g, s_ in st.items():
            ctx.log("c2g", g, s_)
            if s_.startswith("FAILED"):
                ctx.tie_broken("translator group " + g, s_)
        r = ctx.props()
        st2 = genall.run(list(groups))
        if not any("(changed)" in v for v in st2.values()):
            return r
        ctx.log("coq/Gen was regenerated by another process during the proof step: repeating")
        del ctx.broken[nb:]
        ctx.cov["obligations"], ctx.cov["discharged"] = ob, di
    return r
