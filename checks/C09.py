"""C09 - hash, hash array, list, pools, recycle array, key-value, AVL match their abstract data types.
T2: hand-written Gallina models (coq/C09) + correspondence run against the real libsc on the same operation
histories; T1: the hash table's resize arithmetic is regenerated from /repo (Gen/HashResize.v) and used by the model;
the bodies of the mstamp / mempool / list / hash array / recycle array / key-value functions and the AVL loop bodies are
regenerated too (Gen/ContainersC09.v, AvlStepsC09.v, KeyValueC09.v) and coq/C09/GenTies.v proves the models equal to them.
The property oracle (plain Python reference ADTs, independent of the model) is evaluated on the implementation's
output of every case.  Output of one operation = `judged | info`; only `judged` (observables named by the property)
is compared between model and implementation, `info` (slot counts, resize counters, iteration order, item numbering)
is recorded in the evidence."""
import os, sys, json, hashlib
import vlib
sys.path.insert(0, os.path.join(vlib.TOOLS, "c2g"))


def hx(v):
    return ("-%x" % -v) if v < 0 else ("%x" % v)


def mk(container, params, ops):
    return "%s %s | %s" % (container, " ".join(hx(p) for p in params), " ".join(",".join([o[0]] + [hx(x) for x in o[1:]]) for o in ops))


def parse_case(line):
    head, _, tail = line.partition("|")
    hw = head.split()
    ops = []
    for t in tail.split():
        f = t.split(",")
        ops.append(tuple([f[0]] + [int(x, 16) for x in f[1:]]))
    return hw[0], [int(x, 16) for x in hw[1:]], ops


def split_out(line):
    """-> list of (judged tokens, info string)"""
    res = []
    for part in line.split(" ; "):
        j, _, i = part.partition(" | ")
        res.append((j.split(), i.strip()))
    return res


# ----------------------------------------------------------------------------------------------
# property oracles: reference ADTs evaluated on the implementation's output
# ----------------------------------------------------------------------------------------------
class Bad(Exception):
    pass


def need(c, msg):
    if not c:
        raise Bad(msg)


def canon(container, op, j):
    """canonical judged tokens for the model/implementation comparison"""
    if container in ("hash",) and j and j[0] == "f":
        return j[:2] + sorted(j[2:])
    if container in ("hash",) and j and j[0] == "s":
        return j[:2]
    if container == "harr" and j and j[0] == "f":
        return j[:2] + sorted(j[2:])
    if container == "kv" and j and j[0] == "F":
        return j[:2] + sorted(j[2:])
    return j


def oracle_hash(params, ops, outs):
    d = {}
    for n, (op, (j, info)) in enumerate(zip(ops, outs)):
        o = op[0]
        need(j and j[0] == o, "op %d: result tag %r for op %r" % (n, j[:1], o))
        a = [int(x, 16) if not x.count(".") and x not in ("LOST",) else x for x in j[1:]]
        if o in ("i", "I"):
            kid, tag = op[1], op[2]
            exp_added = kid not in d
            if exp_added:
                d[kid] = tag
            if o == "i":
                need(len(a) == 4, "op %d: malformed insert result %s" % (n, j))
                need(a[0] == int(exp_added), "op %d: insert of id %x reports added=%s, the set says %s" % (n, kid, a[0], int(exp_added)))
                need((a[1], a[2]) == (kid, d[kid]), "op %d: insert of id %x: *found is (%s,%s), the set holds (%x,%x)" % (n, kid, a[1], a[2], kid, d[kid]))
                need(a[3] == len(d), "op %d: elem_count %s after insert, cardinality %d" % (n, a[3], len(d)))
            else:
                need(a[0] == int(exp_added), "op %d: insert of id %x reports added=%s, the set says %s" % (n, kid, a[0], int(exp_added)))
                need(a[1] == len(d), "op %d: elem_count %s after insert, cardinality %d" % (n, a[1], len(d)))
        elif o in ("l", "L"):
            kid = op[1]
            need(a[0] == int(kid in d), "op %d: lookup of id %x returns %s, present=%s" % (n, kid, a[0], kid in d))
            if o == "l" and kid in d:
                need((a[1], a[2]) == (kid, d[kid]), "op %d: lookup of id %x finds (%s,%s), the set holds (%x,%x)" % (n, kid, a[1], a[2], kid, d[kid]))
        elif o in ("r", "R"):
            kid = op[1]
            present = kid in d
            need(a[0] == int(present), "op %d: remove of id %x returns %s, present=%s" % (n, kid, a[0], present))
            if o == "r" and present:
                need((a[1], a[2]) == (kid, d[kid]), "op %d: remove of id %x hands back (%s,%s), the set held (%x,%x)" % (n, kid, a[1], a[2], kid, d[kid]))
            if present:
                del d[kid]
            need(a[-1] == len(d), "op %d: elem_count %s after remove, cardinality %d" % (n, a[-1], len(d)))
        elif o == "a":
            kid = op[1]
            need(a[0] == int(kid in d), "op %d: lookup for override of id %x returns %s" % (n, kid, a[0]))
            if kid in d:
                d[kid] = op[2]
        elif o == "f":
            need(a[0] == len(d), "op %d: iteration visits %s elements, cardinality %d" % (n, a[0], len(d)))
            exp = sorted("%x.%x" % kv for kv in d.items())
            got = sorted(j[2:])
            if got != exp:
                missing = sorted(set(exp) - set(got))[:3]
                extra = sorted(set(got) - set(exp))[:3]
                dup = len(got) != len(set(got))
                raise Bad("op %d: iteration does not enumerate the set: missing %s, unexpected %s, duplicates %s" % (n, missing, extra, dup))
        elif o == "s":
            m = max(1, op[1])
            need(a[0] == min(m, len(d)), "op %d: stopped iteration visited %s elements, expected %d" % (n, a[0], min(m, len(d))))
            got = j[2:]
            need(len(got) == len(set(got)), "op %d: stopped iteration visits an element twice" % n)
            need(all(g in set("%x.%x" % kv for kv in d.items()) for g in got), "op %d: stopped iteration visits a non-member" % n)
        elif o in ("t", "u"):
            d.clear()
            need(a[0] == 0, "op %d: elem_count %s after truncate/unlink" % (n, a[0]))
        elif o == "c":
            need(a[0] == len(d), "op %d: elem_count %s, cardinality %d" % (n, a[0], len(d)))
    tail = outs[len(ops):]
    need(len(tail) == 1 and tail[0][0] == ["E", "0"], "end of case: %s (memory not balanced or allocator not empty)" % [" ".join(t[0]) for t in tail])


def oracle_pool(params, ops, outs):
    kind = params[0]
    live = []          # per live item: [value or None, id]
    freed_val = {}     # id -> content when it was returned (zero_and_persist)
    count = 0
    for n, (op, (j, info)) in enumerate(zip(ops, outs)):
        o = op[0]
        need(j and j[0] == o, "op %d: result tag %r for op %r" % (n, j[:1], o))
        if o == "a":
            if params[1] == 0:
                need(j == ["a", "null"], "op %d: item size 0 must give NULL: %s" % (n, j))
                continue
            need(len(j) == 4 and j[1] != "null", "op %d: malformed alloc result %s" % (n, j))
            count += 1
            need(j[1] == "1", "op %d: the item handed out overlaps a live item" % n)
            need(int(j[2], 16) == count, "op %d: elem_count %s after alloc, %d items are live" % (n, j[2], count))
            was, iid = info.split()
            iid = int(iid, 16)
            need(all(l[1] != iid for l in live), "op %d: a live item is handed out again" % n)
            val = None
            if kind == 2:
                need(j[3] != "corrupt", "op %d: zero_and_persist item has mixed content" % n)
                val = int(j[3], 16)
                if was == "0":
                    need(val == 0, "op %d: fresh zero_and_persist item is not zero (%x)" % (n, val))
                else:
                    need(val == freed_val.get(iid), "op %d: reused zero_and_persist item lost its content (%x, had %s)" % (n, val, freed_val.get(iid)))
            live.append([val, iid])
        elif o == "f":
            v, iid = live.pop(op[1])
            freed_val[iid] = v
            count -= 1
            need(int(j[1], 16) == count, "op %d: elem_count %s after free, %d items are live" % (n, j[1], count))
        elif o == "w":
            live[op[1]][0] = op[2]
        elif o == "r":
            need(j[1] not in ("corrupt", "unwritten") and int(j[1], 16) == live[op[1]][0],
                 "op %d: live item %d reads %s, last written %s" % (n, op[1], j[1], live[op[1]][0]))
        elif o == "t":
            live = []
            freed_val = {}
            count = 0
            need(int(j[1], 16) == 0, "op %d: elem_count %s after truncate" % (n, j[1]))
        elif o == "c":
            need(int(j[1], 16) == count, "op %d: elem_count %s, %d items are live" % (n, j[1], count))
            need(j[2] == "1", "op %d: the content of a live item changed (item moved or was overwritten)" % n)
    tail = outs[len(ops):]
    need(len(tail) == 1 and tail[0][0] == ["E", "0"], "end of case: %s (memory not balanced)" % [" ".join(t[0]) for t in tail])


def sx(t):
    return -int(t[1:], 16) if t.startswith("-") else int(t, 16)


def oracle_uc(params, ops, outs):
    start = params[0]
    live = []
    for n, (op, (j, info)) in enumerate(zip(ops, outs)):
        o = op[0]
        need(j and j[0] == o, "op %d: result tag %r for op %r" % (n, j[:1], o))
        if o == "a":
            v = sx(j[1])
            need(v >= start, "op %d: counter %d below the start value %d" % (n, v, start))
            need(v not in live, "op %d: counter value %d is already in use" % (n, v))
            live.append(v)
        elif o == "r":
            live.pop(op[1])
        elif o == "v":
            need([sx(t) for t in j[1:]] == live, "op %d: live counters changed their values: %s vs %s" % (n, j[1:], live))
    tail = outs[len(ops):]
    need(len(tail) == 1 and tail[0][0] == ["E", "0"], "end of case: %s (memory not balanced)" % [" ".join(t[0]) for t in tail])


def oracle_list(params, ops, outs):
    s = []
    for n, (op, (j, info)) in enumerate(zip(ops, outs)):
        o = op[0]
        need(j and j[0] == o, "op %d: result tag %r for op %r" % (n, j[:1], o))
        ret = 0
        if o == "p":
            s.insert(0, op[1])
        elif o == "q":
            s.append(op[1])
        elif o == "n":
            s.insert(op[1] + 1, op[2])
        elif o == "m":
            ret = s.pop(op[1] + 1)
        elif o == "o":
            ret = s.pop(0)
        elif o in ("x", "u"):
            s = []
        elif o == "d":
            need([int(x, 16) for x in j[1:]] == [len(s)] + s, "op %d: traversal gives %s, the sequence is %s" % (n, j[1:], [hx(x) for x in s]))
            continue
        exp = [o, hx(ret), hx(len(s)), hx(s[0]) if s else "-", hx(s[-1]) if s else "-"]
        need(j == exp, "op %d: (returned data, elem_count, first, last) = %s, the sequence says %s" % (n, j[1:], exp[1:]))
    tail = outs[len(ops):]
    need(len(tail) == 1 and tail[0][0] == ["E", "0"], "end of case: %s (memory not balanced or allocator count wrong)" % [" ".join(t[0]) for t in tail])



def end_ok(tail, what="memory not balanced"):
    need(len(tail) == 1 and tail[0][0] == ["E", "0"], "end of case: %s (%s)" % ([" ".join(t[0]) for t in tail], what))


def oracle_harr(params, ops, outs):
    rip = params[0]
    seq = []           # (id, tag) in insertion order
    pos = {}
    for n, (op, (j, info)) in enumerate(zip(ops, outs)):
        o = op[0]
        need(j and j[0] == o, "op %d: result tag %r for op %r" % (n, j[:1], o))
        if o in ("i", "I"):
            kid, tag = op[1], op[2]
            exp_added = kid not in pos
            exp_pos = pos.get(kid, len(seq))
            if exp_added:
                pos[kid] = len(seq)
                seq.append((kid, tag))
            a = [int(x, 16) for x in j[1:]]
            if o == "i":
                need(len(a) == 5, "op %d: malformed insert result %s" % (n, j))
                need(a[0] == int(exp_added), "op %d: insert of id %x reports added=%d, the ordered set says %d" % (n, kid, a[0], exp_added))
                need(a[1] == exp_pos, "op %d: insert of id %x reports position %x, insertion rank is %x" % (n, kid, a[1], exp_pos))
                need(a[2] == len(seq) and a[3] == len(seq), "op %d: array/hash elem_count %x/%x, cardinality %x" % (n, a[2], a[3], len(seq)))
                need(a[4] == 1, "op %d: the returned element is not the last array slot" % n)
            else:
                need(a[0] == int(exp_added), "op %d: insert of id %x reports added=%d, the ordered set says %d" % (n, kid, a[0], exp_added))
                need(a[1] == len(seq) and a[2] == len(seq), "op %d: array/hash elem_count %x/%x, cardinality %x" % (n, a[1], a[2], len(seq)))
        elif o in ("l", "L"):
            kid = op[1]
            need(int(j[1]) == int(kid in pos), "op %d: lookup of id %x returns %s, present=%s" % (n, kid, j[1], kid in pos))
            if o == "l" and kid in pos:
                need(int(j[2], 16) == pos[kid], "op %d: lookup of id %x gives position %s, it was inserted at %x (positions must be stable)" % (n, kid, j[2], pos[kid]))
        elif o == "f":
            got = sorted(int(x, 16) for x in j[2:])
            need(int(j[1], 16) == len(seq) and got == list(range(len(seq))),
                 "op %d: iteration visits positions %s..., expected each of 0..%d once" % (n, got[:6], len(seq) - 1))
        elif o == "v":
            need(j[1] == "1", "op %d: sc_hash_array_is_valid returns %s" % (n, j[1]))
        elif o == "d":
            exp = ["%x.%x" % e for e in seq]
            need(int(j[1], 16) == len(seq) and j[2:] == exp, "op %d: array contents differ from the insertion sequence (first difference at %s)" % (
                n, next((i for i, (x, y) in enumerate(zip(j[2:], exp)) if x != y), min(len(exp), len(j) - 2))))
        elif o == "t":
            seq, pos = [], {}
            need(j[1:] == ["0", "0"], "op %d: counts %s after truncate" % (n, j[1:]))
        elif o == "c":
            need(int(j[1], 16) == len(seq) and int(j[2], 16) == len(seq), "op %d: array/hash elem_count %s/%s, cardinality %x" % (n, j[1], j[2], len(seq)))
    tail = outs[len(ops):]
    if rip:
        need(tail and tail[0][0][:1] == ["R"], "no ripped array reported")
        r = tail[0][0]
        need(int(r[1], 16) == len(seq) and r[2:] == ["%x.%x" % e for e in seq], "the ripped array differs from the insertion sequence")
        tail = tail[1:]
    end_ok(tail)


def oracle_rec(params, ops, outs):
    live = []          # [pos, val] in insertion order
    hw = 0
    for n, (op, (j, info)) in enumerate(zip(ops, outs)):
        o = op[0]
        need(j and j[0] == o, "op %d: result tag %r for op %r" % (n, j[:1], o))
        lp = set(l[0] for l in live)
        if o == "i":
            pos, slots, freed = [int(x, 16) for x in info.split()]
            need(j[1] == "1" and pos not in lp, "op %d: insert hands out position %x which is live" % (n, pos))
            need(j[2] == "1", "op %d: the returned item is not the array element of the reported position %x" % (n, pos))
            free_pos = set(range(hw)) - lp
            if free_pos:
                need(pos in free_pos, "op %d: position %x handed out although freed positions %s exist" % (n, pos, sorted(free_pos)[:5]))
            else:
                need(pos == hw, "op %d: position %x handed out, the next new position is %x" % (n, pos, hw))
                hw += 1
            live.append([pos, op[1]])
            need(int(j[3], 16) == len(live), "op %d: elem_count %s after insert, %d positions are live" % (n, j[3], len(live)))
            need(slots == hw and freed == hw - len(live), "op %d: %x slots and %x freed, expected %x and %x" % (n, slots, freed, hw, hw - len(live)))
        elif o == "r":
            pos, val = live.pop(op[1])
            need(j[1] != "corrupt" and int(j[1], 16) == val, "op %d: removed position %x holds %s, last written %x" % (n, pos, j[1], val))
            need(j[2] == "1", "op %d: remove returns a pointer that is not the slot of position %x" % (n, pos))
            need(int(j[3], 16) == len(live), "op %d: elem_count %s after remove, %d positions are live" % (n, j[3], len(live)))
        elif o == "w":
            live[op[1]][1] = op[2]
        elif o == "g":
            need(j[1] != "corrupt" and int(j[1], 16) == live[op[1]][1], "op %d: live position %x reads %s, last written %x" % (n, live[op[1]][0], j[1], live[op[1]][1]))
        elif o == "c":
            c, sl, fr = [int(x, 16) for x in j[1:4]]
            need(c == len(live), "op %d: elem_count %x, %d positions are live" % (n, c, len(live)))
            need(sl == hw and sl == c + fr, "op %d: %x slots, %x live, %x freed (high-water mark %x)" % (n, sl, c, fr, hw))
            need(j[4] == "1", "op %d: the content of a live position changed" % n)
        elif o == "x":
            live, hw = [], 0
            need(j[1] == "0", "op %d: elem_count %s after reset" % (n, j[1]))
    end_ok(outs[len(ops):])


KV_PATTERN = [1, 2, 3, 4, 1, 3]


def oracle_kv(params, ops, outs):
    m = {}
    for n, (op, (j, info)) in enumerate(zip(ops, outs)):
        o = op[0]
        need(j and j[0] == o, "op %d: result tag %r for op %r" % (n, j[:1], o))
        if o == "P":
            m[op[2]] = (op[1], op[3])
        elif o == "S":
            ty, kid, val = op[1:4]
            m[kid] = (m[kid][0] if kid in m else ty, val)
        elif o == "G":
            ty, kid, d = op[1:4]
            exp = m[kid][1] if kid in m else d
            need(int(j[1], 16) == exp, "op %d: get of key k%x returns %s, the map says %x" % (n, kid, j[1], exp))
        elif o == "K":
            kid, st = op[1:3]
            exp = ((m[kid][1], 0) if m[kid][0] == 1 else (st, 2)) if kid in m else (st, 1)
            need((int(j[1], 16), int(j[2], 16)) == exp, "op %d: get_int_check of key k%x gives (%s,%s), the map says %s" % (n, kid, j[1], j[2], exp))
        elif o in ("E", "U"):
            kid = op[1]
            exp = m[kid][0] if kid in m else 0
            need(int(j[1], 16) == exp, "op %d: %s of key k%x returns type %s, the map says %d" % (n, "exists" if o == "E" else "unset", kid, j[1], exp))
            if o == "U":
                m.pop(kid, None)
        elif o == "F":
            exp = sorted("%x:%x:%x" % (k, tv[0], tv[1]) for k, tv in m.items())
            got = sorted(j[2:])
            need(int(j[1], 16) == len(m) and got == exp, "op %d: iteration does not enumerate the map: missing %s, unexpected %s" % (
                n, sorted(set(exp) - set(got))[:3], sorted(set(got) - set(exp))[:3]))
        elif o == "C":
            need(int(j[1], 16) == len(m) and int(j[2], 16) == len(m), "op %d: %s table elements and %s allocated entries for %d bindings" % (n, j[1], j[2], len(m)))
    end_ok(outs[len(ops):])


def avl_ckey(mode, key):
    return -key if mode == 1 else (key >> 2 if mode == 2 else key)


def oracle_avl(params, ops, outs):
    import bisect
    mode, withfree = params[0], params[1]
    ck = []            # ascending class keys
    items = []         # "key.tag" per class key
    det = []           # items of the node objects the caller keeps (unlinked, not inserted again)
    freed = 0
    for n, (op, (j, info)) in enumerate(zip(ops, outs)):
        o = op[0]
        need(j and j[0] == o, "op %d: result tag %r for op %r" % (n, j[:1], o))
        if o in ("i", "d", "s", "n", "x"):
            c = avl_ckey(mode, op[1])
            i = bisect.bisect_left(ck, c)
            present = i < len(ck) and ck[i] == c
        if o == "i":
            if not present:
                ck.insert(i, c)
                items.insert(i, "%x.%x" % (op[1], op[2]))
            need(j[1] == str(int(not present)), "op %d: insert of key %x reports %s, the set says added=%d" % (n, op[1], j[1], not present))
            need(int(j[2], 16) == len(ck) and len(j) == 3, "op %d: avl_count %s after insert (%s), cardinality %d" % (n, j[2], j[3:], len(ck)))
        elif o == "d":
            if present:
                need(j[1] == "1" and j[2] == items[i], "op %d: delete of key %x returns %s, the set holds %s" % (n, op[1], j[1:3], items[i]))
                ck.pop(i)
                items.pop(i)
                freed += 1
            else:
                need(j[1] == "0", "op %d: delete of absent key %x returns an item" % (n, op[1]))
            need(int(j[-1], 16) == len(ck), "op %d: avl_count %s after delete, cardinality %d" % (n, j[-1], len(ck)))
        elif o == "s":
            need(j[1:] == (["1", items[i]] if present else ["0"]), "op %d: search of key %x gives %s, the set says %s" % (n, op[1], j[1:], items[i] if present else "absent"))
        elif o == "n":
            f = info.split()
            if not ck:
                need(f == ["none"], "op %d: search_closest on the empty tree gives %s" % (n, f))
            else:
                need(len(f) == 2 and f[1] in items, "op %d: search_closest gives %s, not an element" % (n, f))
                k = items.index(f[1])
                if present:
                    need(f[0] == "0" and k == i, "op %d: search_closest of present key %x gives %s" % (n, op[1], f))
                elif f[0] == "-1":
                    need(k == i, "op %d: search_closest of %x answers -1 with %s, the successor is %s" % (n, op[1], f[1], items[i] if i < len(items) else None))
                elif f[0] == "1":
                    need(k == i - 1, "op %d: search_closest of %x answers 1 with %s, the predecessor is %s" % (n, op[1], f[1], items[i - 1] if i else None))
                else:
                    raise Bad("op %d: search_closest of absent key %x answers %s" % (n, op[1], f))
        elif o == "a":
            u = op[1]
            need(j[1] == (items[u] if u < len(items) else "-"), "op %d: avl_at(%d) gives %s, the %d-th smallest is %s" % (n, u, j[1], u, items[u] if u < len(items) else None))
        elif o == "x":
            need(j[1] == ("%x" % i if present else "-"), "op %d: avl_index of key %x gives %s, its rank is %s" % (n, op[1], j[1], i if present else None))
        elif o == "c":
            need(int(j[1], 16) == len(ck), "op %d: avl_count %s, cardinality %d" % (n, j[1], len(ck)))
            need(j[2] == "1", "op %d: the tree is inconsistent (stored counts, parent pointers, order or prev/next links)" % n)
        elif o in ("f", "A", "t"):
            need(int(j[1], 16) == len(ck) and j[2:] == items, "op %d: %s does not enumerate the set in ascending order" % (
                n, {"f": "avl_foreach", "A": "avl_to_array", "t": "the head/next list"}[o]))
        elif o == "b":
            need(int(j[1], 16) == len(ck) and j[2:] == items[::-1], "op %d: the tail/prev list is not the descending order of the set" % n)
        elif o == "e":
            need(j[1:] == ([items[0], items[-1]] if items else ["-", "-"]), "op %d: head/tail are %s" % (n, j[1:]))
        elif o == "z":
            freed += len(ck)
            ck, items = [], []
            need(j[1] == "0", "op %d: avl_count %s after avl_free_nodes" % (n, j[1]))
        elif o == "y":
            ck, items = [], []                     # avl_clear_tree: the nodes are the caller's, freeitem is not called
            need(j[1] == "0", "op %d: avl_count %s after avl_clear_tree" % (n, j[1]))
        elif o == "U":
            c = avl_ckey(mode, op[1])
            i = bisect.bisect_left(ck, c)
            if i < len(ck) and ck[i] == c:
                need(j[1] == "1" and j[2] == items[i], "op %d: unlink of key %x reports %s, the set holds %s" % (n, op[1], j[1:3], items[i]))
                ck.pop(i)
                det.append(items.pop(i))
            else:
                need(j[1] == "0", "op %d: unlink of absent key %x found a node" % (n, op[1]))
            need(int(j[-1], 16) == len(ck), "op %d: avl_count %s after avl_unlink_node, cardinality %d" % (n, j[-1], len(ck)))
        elif o == "R":
            if op[1] >= len(det):
                need(j[1:] == ["-"], "op %d: no such kept node, got %s" % (n, j[1:]))
            else:
                c = avl_ckey(mode, op[2])
                i = bisect.bisect_left(ck, c)
                present = i < len(ck) and ck[i] == c
                if present:
                    det[op[1]] = "%x.%x" % (op[2], op[3])
                else:
                    det.pop(op[1])
                    ck.insert(i, c)
                    items.insert(i, "%x.%x" % (op[2], op[3]))
                need(j[1] == str(int(not present)), "op %d: re-insertion of a node with key %x reports %s, the set says added=%d" % (n, op[2], j[1], not present))
                need(int(j[2], 16) == len(ck), "op %d: avl_count %s after re-insertion of an unlinked node, cardinality %d" % (n, j[2], len(ck)))
    tail = outs[len(ops):]
    freed += len(ck)
    need(tail and tail[0][0] == ["Z", "%x" % (freed if withfree else 0)], "freeitem was called %s times, %d items left the tree" % (tail[0][0][1:] if tail else "?", freed))
    end_ok(tail[1:])


def oracle_aseq(params, ops, outs):
    """AVL tree with caller-chosen positions: reference = a Python list"""
    withfree = params[0]
    items = []
    det = []           # items of the node objects the caller keeps
    freed = 0
    for n, (op, (j, info)) in enumerate(zip(ops, outs)):
        o = op[0]
        need(j and j[0] == o, "op %d: result tag %r for op %r" % (n, j[:1], o))
        if o in ("P", "N"):
            u = op[1]
            it = "%x.%x" % (op[2], op[3])
            if u < len(items):
                items.insert(u if o == "P" else u + 1, it)
            elif o == "P":
                items.append(it)          # node NULL: avl_insert_before appends
            else:
                items.insert(0, it)       # node NULL: avl_insert_after prepends
            need(len(j) == 2 and int(j[1], 16) == len(items), "op %d: avl_count %s after positional insert, the sequence has %d items" % (n, j[1:], len(items)))
        elif o == "D":
            u = op[1]
            if u < len(items):
                need(j[1] == "1" and j[2] == items[u], "op %d: avl_delete_node(avl_at(%d)) returns %s, item %d of the sequence is %s" % (n, u, j[1:3], u, items[u]))
                items.pop(u)
                freed += 1
            else:
                need(j[1] == "0", "op %d: delete beyond the end returns an item" % n)
            need(int(j[-1], 16) == len(items), "op %d: avl_count %s after delete, length %d" % (n, j[-1], len(items)))
        elif o == "a":
            u = op[1]
            need(j[1] == (items[u] if u < len(items) else "-"), "op %d: avl_at(%d) gives %s, item %d of the sequence is %s" % (n, u, j[1], u, items[u] if u < len(items) else None))
        elif o == "x":
            u = op[1]
            need(j[1] == ("%x" % u if u < len(items) else "-"), "op %d: avl_index(avl_at(%d)) gives %s" % (n, u, j[1]))
        elif o == "c":
            need(int(j[1], 16) == len(items), "op %d: avl_count %s, length %d" % (n, j[1], len(items)))
            need(j[2] == "1", "op %d: the tree is inconsistent (stored counts, parent pointers or prev/next links)" % n)
        elif o in ("f", "t"):
            need(int(j[1], 16) == len(items) and j[2:] == items, "op %d: %s is not the sequence" % (n, {"f": "avl_foreach", "t": "the head/next list"}[o]))
        elif o == "b":
            need(int(j[1], 16) == len(items) and j[2:] == items[::-1], "op %d: the tail/prev list is not the reversed sequence" % n)
        elif o == "e":
            need(j[1:] == ([items[0], items[-1]] if items else ["-", "-"]), "op %d: head/tail are %s" % (n, j[1:]))
        elif o == "z":
            freed += len(items)
            items = []
            need(j[1] == "0", "op %d: avl_count %s after avl_free_nodes" % (n, j[1]))
        elif o == "y":
            items = []
            need(j[1] == "0", "op %d: avl_count %s after avl_clear_tree" % (n, j[1]))
        elif o == "K":
            u = op[1]
            if u < len(items):
                need(j[1] == "1" and j[2] == items[u], "op %d: avl_unlink_node(avl_at(%d)) takes out %s, item %d of the sequence is %s" % (n, u, j[1:3], u, items[u]))
                det.append(items.pop(u))
            else:
                need(j[1] == "0", "op %d: unlink beyond the end found a node" % n)
            need(int(j[-1], 16) == len(items), "op %d: avl_count %s after avl_unlink_node, length %d" % (n, j[-1], len(items)))
        elif o in ("Q", "W"):
            u, kk = op[1], op[2]
            if kk >= len(det):
                need(j[1:] == ["-"], "op %d: no such kept node, got %s" % (n, j[1:]))
            else:
                det.pop(kk)
                it = "%x.%x" % (op[3], op[4])
                if u < len(items):
                    items.insert(u if o == "Q" else u + 1, it)
                elif o == "Q":
                    items.append(it)
                else:
                    items.insert(0, it)
                need(len(j) == 2 and int(j[1], 16) == len(items), "op %d: avl_count %s after re-insertion of an unlinked node, the sequence has %d items" % (n, j[1:], len(items)))
    tail = outs[len(ops):]
    freed += len(items)
    need(tail and tail[0][0] == ["Z", "%x" % (freed if withfree else 0)], "freeitem was called %s times, %d items left the tree" % (tail[0][0][1:] if tail else "?", freed))
    end_ok(tail[1:])


def oracle_mlist(params, ops, outs):
    """two lists on one allocator: reference = two independent Python lists; the allocator count (info field) must be
    pre + both lengths as long as nothing was unlinked"""
    pre = params[0]
    ss = [[], []]
    unlinked = False
    for n, (op, (j, info)) in enumerate(zip(ops, outs)):
        o = op[0]
        s = ss[1 if op[1] else 0]
        need(j and j[0] == o, "op %d: result tag %r for op %r" % (n, j[:1], o))
        ret = 0
        if o == "p":
            s.insert(0, op[2])
        elif o == "q":
            s.append(op[2])
        elif o == "n":
            s.insert(op[2] + 1, op[3])
        elif o == "m":
            ret = s.pop(op[2] + 1)
        elif o == "o":
            ret = s.pop(0)
        elif o in ("x", "u"):
            del s[:]
            unlinked = unlinked or o == "u"
        elif o == "d":
            need([int(x, 16) for x in j[1:]] == [len(s)] + s, "op %d: traversal of list %d gives %s, the sequence is %s" % (n, op[1], j[1:], [hx(x) for x in s]))
            continue
        exp = [o, hx(ret), hx(len(s)), hx(s[0]) if s else "-", hx(s[-1]) if s else "-"]
        need(j == exp, "op %d on list %d: (returned data, elem_count, first, last) = %s, the sequence says %s" % (n, op[1], j[1:], exp[1:]))
        if not unlinked:
            need(int(info, 16) == pre + len(ss[0]) + len(ss[1]), "op %d: the shared allocator counts %s items, the two lists and the third user hold %d" % (
                n, info, pre + len(ss[0]) + len(ss[1])))
    tail = outs[len(ops):]
    need(len(tail) == 1 and tail[0][0] == ["E", "0"], "end of case: %s (other list or foreign item disturbed, memory not balanced or allocator count wrong)" % [" ".join(t[0]) for t in tail])


ORACLES = {"hash": oracle_hash, "pool": oracle_pool, "uc": oracle_uc, "list": oracle_list,
           "harr": oracle_harr, "rec": oracle_rec, "kv": oracle_kv, "avl": oracle_avl, "aseq": oracle_aseq, "mlist": oracle_mlist}


# ----------------------------------------------------------------------------------------------
# legality of operation lists (used by the shrinker): documented preconditions only
# ----------------------------------------------------------------------------------------------
def legal(container, params, ops):
    try:
        if container == "hash":
            return True
        if container == "pool":
            live = []
            for op in ops:
                o = op[0]
                if o == "a":
                    if params[1] > 0:
                        live.append(params[0] == 2)
                elif o == "f":
                    if params[0] == 0 or op[1] >= len(live):
                        return False
                    live.pop(op[1])
                elif o == "w":
                    if op[1] >= len(live):
                        return False
                    live[op[1]] = True
                elif o == "r":
                    if op[1] >= len(live) or not live[op[1]]:
                        return False
                elif o == "t":
                    live = []
            return True
        if container == "uc":
            n = 0
            for op in ops:
                if op[0] == "a":
                    n += 1
                elif op[0] == "r":
                    if op[1] >= n:
                        return False
                    n -= 1
            return True
        if container == "list":
            n = 0
            for op in ops:
                o = op[0]
                if o in ("p", "q"):
                    n += 1
                elif o == "n":
                    if op[1] >= n:
                        return False
                    n += 1
                elif o == "m":
                    if op[1] + 1 >= n:
                        return False
                    n -= 1
                elif o == "o":
                    if n == 0:
                        return False
                    n -= 1
                elif o in ("x", "u"):
                    n = 0
            return True
        if container == "mlist":
            ns = [0, 0]
            for op in ops:
                o = op[0]
                w = 1 if op[1] else 0
                if o in ("p", "q"):
                    ns[w] += 1
                elif o == "n":
                    if op[2] >= ns[w]:
                        return False
                    ns[w] += 1
                elif o == "m":
                    if op[2] + 1 >= ns[w]:
                        return False
                    ns[w] -= 1
                elif o == "o":
                    if ns[w] == 0:
                        return False
                    ns[w] -= 1
                elif o in ("x", "u"):
                    ns[w] = 0
            return True
        if container == "rec":
            n = 0
            for op in ops:
                o = op[0]
                if o == "i":
                    n += 1
                elif o in ("r", "w", "g"):
                    if op[1] >= n:
                        return False
                    if o == "r":
                        n -= 1
                elif o == "x":
                    n = 0
            return True
        if container == "kv":
            types = {}
            lead = True
            for i, op in enumerate(ops):
                o = op[0]
                if o == "P":
                    if not lead or i >= 6 or op[1] != KV_PATTERN[i]:
                        return False
                    types[op[2]] = op[1]
                    continue
                lead = False
                if o == "S":
                    if types.setdefault(op[2], op[1]) != op[1]:
                        return False
                elif o == "G":
                    if types.get(op[2], op[1]) != op[1]:
                        return False
                elif o == "U":
                    types.pop(op[1], None)
            return True
    except (IndexError, ValueError):
        return False
    return True


# ----------------------------------------------------------------------------------------------
# generators
# ----------------------------------------------------------------------------------------------
HASH_PARAMS = [(0, 1, 0), (0, 2654435761, 12345), (7, 1, 0), (1, 1, 0), (0, 255, 0), (0, 1019, 3), (0, 4075 * 255, 1), (64, 3, 7),
               (0, 259845, 0)]       # 259845 = 255*1019: collides under the initial AND the first grown size


def gen_hash_cycle(rng, own, hp, top, dumps=True):
    """grow to `top` distinct keys, shrink back to 0: crosses 4x upward and 1/4x downward"""
    ops = []
    ids = list(range(1, top + 1))
    rng.shuffle(ids)
    present = []
    marks = set([254, 255, 256, 1018, 1019, 1020, 1021, 1022, 2038, 4074, 4075, 4076, 4077, top])
    tagc = [0]

    def tag():
        tagc[0] += 1
        return tagc[0]
    for kid in ids:
        ops.append((rng.choice("iiiI"), kid, tag()))
        present.append(kid)
        r = rng.random()
        if r < 0.10:
            ops.append((rng.choice("lL"), rng.choice(present)))
        elif r < 0.14:
            ops.append((rng.choice("lL"), top + 1 + rng.randrange(50)))
        elif r < 0.18:
            ops.append(("i", rng.choice(present), tag()))        # duplicate: must report not added
        elif r < 0.22 and len(present) > 3:
            # remove and immediately re-insert around the thresholds: repeated resize checks
            k2 = present.pop(rng.randrange(len(present)))
            ops.append((rng.choice("rR"), k2))
            ops.append(("i", k2, tag()))
            present.append(k2)
        if dumps and len(present) in marks and rng.random() < 0.9:
            ops.append(("c",))
            ops.append(("f",))
    ops.append(("c",))
    marks = set([4075, 1024, 1019, 1018, 769, 768, 767, 513, 512, 511, 257, 256, 255, 254, 2, 1, 0])
    rng.shuffle(present)
    while present:
        kid = present.pop()
        ops.append((rng.choice("rrrR"), kid))
        r = rng.random()
        if r < 0.08 and present:
            ops.append((rng.choice("lL"), rng.choice(present)))
        elif r < 0.12:
            ops.append(("r", kid))                               # already removed
        elif r < 0.16 and len(present) > 3:
            ops.append(("i", kid, tag()))
            ops.append(("r", kid))
        if dumps and len(present) in marks and rng.random() < 0.9:
            ops.append(("c",))
            ops.append(("f",))
    # life after the shrink
    for kid in rng.sample(range(1, top + 1), min(top, 40)):
        ops.append(("i", kid, tag()))
    ops += [("c",), ("f",), ("t",), ("c",)]
    return mk("hash", [own] + list(hp), ops)


def gen_hash_random(rng, nops):
    own = rng.randrange(2)
    hp = rng.choice(HASH_PARAMS) if rng.random() < 0.7 else (rng.choice([0, 0, 2, 3, 5, 16, 255, 256]), rng.randrange(1, 1 << 32), rng.randrange(1 << 32))
    idr = rng.choice([8, 20, 60, 300])
    mult = rng.choice([1, 1, 255, 1019])         # id families that collide in the initial table
    ops = []
    tag = 0
    for _ in range(nops):
        r = rng.random()
        kid = rng.randrange(idr) * mult
        tag += 1
        if r < 0.34:
            ops.append((rng.choice("iiI"), kid, tag))
        elif r < 0.52:
            ops.append((rng.choice("llL"), kid))
        elif r < 0.76:
            ops.append((rng.choice("rrR"), kid))
        elif r < 0.82:
            ops.append(("a", kid, tag))
        elif r < 0.88:
            ops.append(("f",))
        elif r < 0.92:
            ops.append(("s", rng.randrange(1, 8)))
        elif r < 0.97:
            ops.append(("c",))
        elif r < 0.985:
            ops.append(("t",))
        else:
            ops.append(("u",))
    ops.append(("f",))
    return mk("hash", [own] + list(hp), ops)


def gen_hash_threshold(rng, base, hp):
    """fill quickly to just below a resize trigger, then walk around it"""
    ops = [("I", k, k) for k in range(1, base + 1)]
    present = list(range(1, base + 1))
    nxt = base + 1
    tag = 100000
    for _ in range(rng.randrange(60, 160)):
        tag += 1
        if rng.random() < 0.55:
            ops.append(("i", nxt, tag))
            present.append(nxt)
            nxt += 1
        elif present:
            ops.append(("r", present.pop(rng.randrange(len(present)))))
        if rng.random() < 0.1:
            ops += [("c",), ("f",)]
        if rng.random() < 0.1 and present:
            ops.append(("l", rng.choice(present)))
    ops += [("c",), ("f",)]
    return mk("hash", [rng.randrange(2)] + list(hp), ops)


def gen_pool(rng, nops, kind=None, esz=None):
    kind = rng.randrange(3) if kind is None else kind
    if esz is None:
        esz = rng.choice([1, 2, 3, 4, 7, 8, 12, 16, 24, 100, 1000, 1365, 1366, 2048, 2049, 4096, 5000])
    unit = 0
    if kind == 0:
        if rng.random() < 0.08:
            esz = 0
        unit = rng.choice([0, 1, max(esz - 1, 0), esz, esz + 1, 2 * esz - 1, 3 * esz, 3 * esz + 1, 4096, 10 * esz + 5])
    ops = []
    live = []          # True if content defined
    grow = True
    for _ in range(nops):
        r = rng.random()
        if rng.random() < 0.02:
            grow = not grow
        pa = 0.55 if grow else 0.25
        if r < pa or not live:
            ops.append(("a",))
            if esz > 0:
                live.append(kind == 2)
        elif r < pa + (0.25 if not grow else 0.12) and kind != 0:
            ops.append(("f", rng.randrange(len(live)) if rng.random() < 0.7 else rng.choice([0, len(live) - 1])))
            live.pop(ops[-1][1])
        elif r < 0.80:
            k = rng.randrange(len(live))
            ops.append(("w", k, rng.randrange(256)))
            live[k] = True
        elif r < 0.92:
            ks = [i for i, w in enumerate(live) if w]
            if ks:
                ops.append(("r", rng.choice(ks)))
        elif r < 0.985:
            ops.append(("c",))
        else:
            ops.append(("t",))
            live = []
    ops.append(("c",))
    return mk("pool", [kind, esz, unit], ops)


def gen_uc(rng, nops):
    start = rng.choice([0, 1, 2, 5, -3, -1, 1000, 2 ** 20])
    ops = []
    n = 0
    for _ in range(nops):
        r = rng.random()
        if r < 0.5 or n == 0:
            ops.append(("a",))
            n += 1
        elif r < 0.9:
            ops.append(("r", rng.randrange(n)))
            n -= 1
        else:
            ops.append(("v",))
    ops.append(("v",))
    return mk("uc", [start], ops)


def gen_list(rng, nops):
    own = rng.randrange(2)
    pre = 0 if own else rng.choice([0, 1, 3, 300])
    ops = []
    n = 0
    v = 0
    for _ in range(nops):
        r = rng.random()
        v += 1
        if r < 0.16:
            ops.append(("p", v)); n += 1
        elif r < 0.32:
            ops.append(("q", v)); n += 1
        elif r < 0.50 and n > 0:
            ops.append(("n", rng.choice([0, n - 1, rng.randrange(n)]), v)); n += 1
        elif r < 0.66 and n > 1:
            ops.append(("m", rng.choice([0, n - 2, rng.randrange(n - 1)]))); n -= 1
        elif r < 0.80 and n > 0:
            ops.append(("o", rng.randrange(2))); n -= 1
        elif r < 0.93:
            ops.append(("d",))
        elif r < 0.97:
            ops.append(("x",)); n = 0
        elif r < 0.98:
            ops.append(("u",)); n = 0
        else:
            ops.append(("q", v)); n += 1
    ops.append(("d",))
    return mk("list", [own, pre], ops)



def gen_harr_grow(rng, rip, hp, top, dumps=True):
    """insert `top` distinct ids (a hash array only grows): crosses the 4x threshold of its table once or twice"""
    ops = []
    ids = list(range(1, top + 1))
    rng.shuffle(ids)
    present = []
    marks = set([254, 255, 256, 1019, 1020, 1021, 4075, 4076, 4077, top])
    tag = 0
    for kid in ids:
        tag += 1
        ops.append((rng.choice("iiiI"), kid, tag))
        present.append(kid)
        r = rng.random()
        if r < 0.08:
            ops.append((rng.choice("lL"), rng.choice(present)))
        elif r < 0.12:
            ops.append((rng.choice("lL"), top + 1 + rng.randrange(50)))
        elif r < 0.17:
            tag += 1
            ops.append(("i", rng.choice(present), tag))          # duplicate: not added, old position
        if len(present) in marks:
            ops += [("c",), ("v",)] + ([("f",), ("d",)] if dumps and rng.random() < 0.7 else [])
    for kid in rng.sample(present, min(len(present), 30)):
        ops.append(("l", kid))
    ops += [("c",), ("f",), ("t",), ("c",)]
    for kid in rng.sample(range(1, top + 1), min(top, 300)):      # life after truncate, positions restart at 0
        tag += 1
        ops.append(("i", kid, tag))
    ops += [("v",), ("d",), ("c",)]
    return mk("harr", [rip] + list(hp), ops)


def gen_harr_random(rng, nops):
    hp = rng.choice(HASH_PARAMS) if rng.random() < 0.7 else (rng.choice([0, 0, 2, 3, 5, 16, 255, 256]), rng.randrange(1, 1 << 32), rng.randrange(1 << 32))
    idr = rng.choice([8, 20, 60, 300])
    mult = rng.choice([1, 1, 255, 1019])
    ops = []
    for t in range(nops):
        r = rng.random()
        kid = rng.randrange(idr) * mult
        if r < 0.45:
            ops.append((rng.choice("iiI"), kid, t + 1))
        elif r < 0.72:
            ops.append((rng.choice("llL"), kid))
        elif r < 0.80:
            ops.append(("f",))
        elif r < 0.86:
            ops.append(("d",))
        elif r < 0.91:
            ops.append(("v",))
        elif r < 0.97:
            ops.append(("c",))
        else:
            ops.append(("t",))
    ops += [("f",), ("d",), ("v",)]
    return mk("harr", [rng.randrange(2)] + list(hp), ops)


def gen_rec(rng, nops):
    esz = rng.choice([1, 2, 4, 8, 24, 100])
    ops = []
    n = 0
    grow = True
    for _ in range(nops):
        if rng.random() < 0.03:
            grow = not grow
        r = rng.random()
        pa = 0.5 if grow else 0.2
        if r < pa or n == 0:
            ops.append(("i", rng.randrange(256)) if rng.random() < 0.85 else ("i", rng.randrange(256), 1))
            n += 1
        elif r < pa + (0.15 if grow else 0.4):
            ops.append(("r", rng.choice([0, n - 1, rng.randrange(n)])))
            n -= 1
        elif r < 0.80:
            ops.append(("w", rng.randrange(n), rng.randrange(256)))
        elif r < 0.93:
            ops.append(("g", rng.randrange(n)))
        elif r < 0.99:
            ops.append(("c",))
        else:
            ops.append(("x",))
            n = 0
    ops.append(("c",))
    return mk("rec", [esz], ops)


def kv_val(rng, ty):
    return rng.randrange(16) if ty == 3 else rng.randrange(1, 2000)


def gen_kv(rng, nops, idr=None, big=0):
    idr = idr or rng.choice([4, 12, 40, 200])
    ops = []
    types = {}
    for i in range(rng.choice([0, 0, 1, 3, 6, 6])):
        kid = rng.randrange(min(idr, 5))
        ops.append(("P", KV_PATTERN[i], kid, kv_val(rng, KV_PATTERN[i])))
        types[kid] = KV_PATTERN[i]
    if big:
        # fill beyond the 4x threshold of the internal table and empty it again (below 1/4)
        ids = list(range(100, 100 + big))
        rng.shuffle(ids)
        for kid in ids:
            ty = rng.randrange(1, 5)
            types[kid] = ty
            ops.append(("S", ty, kid, kv_val(rng, ty)))
            if rng.random() < 0.03:
                ops.append(("G", ty, kid, kv_val(rng, ty)))
        ops += [("C",), ("F",)]
        rng.shuffle(ids)
        for kid in ids[:-7]:
            ops.append(("U", kid))
            types.pop(kid, None)
            if rng.random() < 0.02:
                ops.append(("E", kid))
        ops += [("C",), ("F",)]
    for _ in range(nops):
        r = rng.random()
        kid = rng.randrange(idr)
        if r < 0.30:
            ty = types.setdefault(kid, rng.randrange(1, 5))
            ops.append(("S", ty, kid, kv_val(rng, ty)))
        elif r < 0.52:
            ty = types.get(kid, rng.randrange(1, 5))
            ops.append(("G", ty, kid, kv_val(rng, ty)))
        elif r < 0.62:
            ops.append(("K", kid, rng.randrange(1, 50)))
        elif r < 0.72:
            ops.append(("E", kid))
        elif r < 0.88:
            ops.append(("U", kid))
            types.pop(kid, None)
        elif r < 0.94:
            ops.append(("F",))
        else:
            ops.append(("C",))
    ops += [("F",), ("C",)]
    return mk("kv", [], ops)


def avl_queries(rng, ops, keys, n, kmax):
    for _ in range(n):
        r = rng.random()
        if r < 0.25:
            ops.append(("a", rng.choice([0, 1, max(len(keys) - 1, 0), len(keys), len(keys) + 3, rng.randrange(len(keys) + 2)])))
        elif r < 0.5:
            ops.append(("x", rng.choice(keys) if keys and rng.random() < 0.8 else rng.randrange(kmax)))
        elif r < 0.7:
            ops.append(("n", rng.randrange(kmax)))
        elif r < 0.9:
            ops.append(("s", rng.choice(keys) if keys and rng.random() < 0.6 else rng.randrange(kmax)))
        else:
            ops.append(("e",))


def gen_avl_cycle(rng, mode, withfree, top, order):
    """grow to `top` keys in ascending / descending / random / zig-zag order (every rotation kind), delete again"""
    step = 4 if mode == 2 else 1
    keys = [step * k + (rng.randrange(4) if mode == 2 else 0) for k in range(1, top + 1)]
    if order == "desc":
        keys.reverse()
    elif order == "rand":
        rng.shuffle(keys)
    elif order == "zig":
        keys = [k for pair in zip(keys[:top // 2], reversed(keys[top // 2:])) for k in pair] + ([keys[top // 2]] if top % 2 else [])
    ops = []
    present = []
    tag = 0
    kmax = step * (top + 3)
    for k in keys:
        tag += 1
        ops.append(("i", k, tag))
        present.append(k)
        r = rng.random()
        if r < 0.06:
            tag += 1
            ops.append(("i", rng.choice(present), tag))              # an equal item: rejected
        elif r < 0.16:
            avl_queries(rng, ops, present, 1, kmax)
        elif r < 0.20 and len(present) > 2:
            k2 = present.pop(rng.randrange(len(present)))
            ops.append(("d", k2))
            tag += 1
            ops.append(("i", k2, tag))
            present.append(k2)
        if len(present) in (1, 2, 3, 7, 8, 15, 16, 31, 64, 200, top):
            ops += [("c",), ("f",), ("t",), ("b",)]
    ops += [("c",), ("A",)]
    avl_queries(rng, ops, present, 40, kmax)
    dorder = rng.choice(["rand", "asc", "desc", "mid"])
    if dorder == "rand":
        rng.shuffle(present)
    elif dorder == "asc":
        present.sort()
    elif dorder == "desc":
        present.sort(reverse=True)
    else:
        present.sort(key=lambda k: abs(k - step * top // 2))           # from the middle outwards: two-child deletions
    while present:
        k = present.pop(0)
        ops.append(("d", k))
        r = rng.random()
        if r < 0.08:
            ops.append(("d", k))                                     # already deleted
        elif r < 0.2:
            avl_queries(rng, ops, present, 1, kmax)
        if len(present) in (0, 1, 2, 5, 9, 17, 33, 100, top // 2) or rng.random() < 0.01:
            ops += [("c",), ("t",), ("b",)] + ([("f",)] if rng.random() < 0.5 else [])
        if len(present) == top // 3 and rng.random() < 0.3:
            ops += [("z",), ("c",)]
            present = []
    ops += [("c",), ("f",), ("e",)]
    return mk("avl", [mode, withfree], ops)


def gen_avl_rekey(rng, mode, top):
    """the use the header documents for avl_unlink_node: unlink a node, change its key, avl_insert_node the SAME object again -
    for nodes that are the root (median key), inner nodes and leaves; self-check after every re-insertion"""
    step = 4 if mode == 2 else 1
    present = []
    ops = []
    tag = 0
    keys = list(range(1, top + 1))
    rng.shuffle(keys)
    for k in keys:
        tag += 1
        ops.append(("i", step * k, tag))
        present.append(step * k)
    ops += [("c",), ("f",)]
    nd = 0
    nxt = step * (top + 1)
    for rnd in range(3 * top):
        present.sort()
        r = rng.random()
        idx = len(present) // 2 if r < 0.45 else (0 if r < 0.55 else (len(present) - 1 if r < 0.65 else rng.randrange(len(present))))
        k = present.pop(idx)
        ops.append(("U", k))
        nd += 1
        if rng.random() < 0.1:
            ops.append(("U", k))                                       # already unlinked
        tag += 1
        r = rng.random()
        if r < 0.15 and present:
            ops.append(("R", 0, rng.choice(present), tag, rng.randrange(2)))     # the new key is present: refused, the object stays
            tag += 1
        newk = nxt if r < 0.5 else (step * rng.randrange(1, top + 1))
        nxt += step
        if newk in present:
            newk = nxt
            nxt += step
        ops.append(("R", nd - 1 if rng.random() < 0.5 else 0, newk, tag, rng.randrange(2)))
        present.append(newk)
        nd -= 1
        ops.append(("c",))
        if rnd % 5 == 0:
            avl_queries(rng, ops, present, 2, nxt + 3)
            ops += [("f",), ("b",)]
    ops += [("c",), ("A",), ("t",), ("y",), ("c",), ("i", 5, tag + 1), ("i", 3, tag + 2), ("c",), ("f",)]
    return mk("avl", [mode, rng.randrange(2)], ops)


def gen_avl_random(rng, nops):
    mode = rng.randrange(4)
    kr = rng.choice([6, 16, 40, 200, 2000])
    ops = []
    for t in range(nops):
        r = rng.random()
        k = rng.randrange(kr)
        if r < 0.34:
            ops.append(("i", k, t + 1))
        elif r < 0.50:
            ops.append(("d", k))
        elif r < 0.56:
            ops.append(("U", k))
        elif r < 0.61:
            ops.append(("R", rng.randrange(3), k, t + 1, rng.randrange(2)))
        elif r < 0.64:
            ops.append(("s", k))
        elif r < 0.70:
            ops.append(("n", k))
        elif r < 0.77:
            ops.append(("a", rng.randrange(kr // 2 + 2)))
        elif r < 0.84:
            ops.append(("x", k))
        elif r < 0.89:
            ops.append(("c",))
        elif r < 0.93:
            ops.append((rng.choice("fA"),))
        elif r < 0.96:
            ops.append((rng.choice("tb"),))
        elif r < 0.985:
            ops.append(("e",))
        elif r < 0.993:
            ops.append(("y",))
        else:
            ops.append(("z",))
    ops += [("c",), ("f",), ("t",), ("b",)]
    return mk("avl", [mode, rng.randrange(2)], ops)


def gen_aseq(rng, nops, style="rand", top=0):
    """AVL tree as a sequence.  Positions are aimed at the case split of ins_before / ins_after / del_at: both ends, beyond the
    end (node NULL), nodes with and without a child on the side of the new leaf (any inner position), draining to empty and refilling."""
    ops = []
    n = 0
    tag = [0]

    def pos(kind):
        r = rng.random()
        if n == 0 or r < 0.08:
            return n + rng.randrange(3)            # NULL node
        if r < 0.25:
            return 0
        if r < 0.42:
            return n - 1
        return rng.randrange(n)

    def ins(u=None, o=None):
        nonlocal n
        tag[0] += 1
        ops.append((o or rng.choice("PN"), pos("i") if u is None else u, rng.randrange(1 << 16), tag[0], int(rng.random() < 0.3)))
        n += 1

    def dele(u=None):
        nonlocal n
        u = pos("d") if u is None else u
        ops.append(("D", u))
        if u < n:
            n -= 1
    nd = 0             # node objects kept by the caller

    def unlink(u=None):
        nonlocal n, nd
        u = pos("d") if u is None else u
        ops.append(("K", u))
        if u < n:
            n -= 1
            nd += 1

    def relink(u=None):
        nonlocal n, nd
        tag[0] += 1
        ops.append((rng.choice("QW"), pos("i") if u is None else u, rng.randrange(nd + 1) if rng.random() < 0.05 else rng.randrange(max(nd, 1)),
                    rng.randrange(1 << 16), tag[0], rng.randrange(2)))
        if ops[-1][2] < nd:
            nd -= 1
            n += 1
    if style == "rekey":
        # grow, then again and again: unlink a node (root region n // 2, inner nodes, leaves at the ends, random), change its
        # item, link the SAME object in somewhere else; self-check after every re-insertion
        for k in range(top):
            ins(rng.choice([0, n, n // 2, None]), None)
        ops += [("c",), ("f",)]
        for k in range(3 * top):
            r = rng.random()
            unlink(n // 2 if r < 0.4 else (n // 4 if r < 0.5 else (3 * n // 4 if r < 0.6 else (0 if r < 0.7 else (n - 1 if r < 0.8 else None)))))
            if rng.random() < 0.3:
                unlink()
            while nd > 0 and rng.random() < 0.85:
                relink()
                ops.append(("c",))
            if k % 7 == 0:
                ops += [("f",), ("b",), ("a", n // 2), ("x", n // 2)]
        while nd > 0:
            relink()
        ops += [("c",), ("f",), ("t",), ("b",), ("y",), ("c",)]
        for k in range(5):
            ins()
        return mk("aseq", [rng.randrange(2)], ops + [("c",), ("f",)])
    if style == "rand":
        while len(ops) < nops:
            r = rng.random()
            if r < 0.07:
                unlink()
            elif r < 0.14:
                relink()
            elif r < 0.15:
                ops.append(("y",))
                n = 0
            elif r < 0.45:
                ins()
            elif r < 0.70:
                dele()
            elif r < 0.80:
                ops.append(("a", pos("a")))
            elif r < 0.87:
                ops.append(("x", pos("x")))
            elif r < 0.97:
                ops.append((rng.choice("cftbe"),))
            else:
                ops.append(("z",))
                n = 0
    else:
        # grow to `top` (front / back / middle / random positions), check, drain to empty in a chosen order, refill
        for k in range(top):
            u = {"front": 0, "back": n, "mid": n // 2, "rand": None}[style]
            ins(u, {"front": "P", "back": rng.choice("PN") if n == 0 else "P", "mid": rng.choice("PN"), "rand": None}[style])
            if k % 97 == 0:
                ops.append(("c",))
        ops += [("c",), ("f",), ("t",), ("b",), ("e",)]
        for k in range(0, top, max(1, top // 25)):
            ops += [("a", k), ("x", k)]
        ops += [("a", top), ("x", top + 1)]
        order = rng.choice(["front", "back", "mid", "rand"])
        while n > 0:
            dele({"front": 0, "back": n - 1, "mid": n // 2, "rand": rng.randrange(n)}[order])
            if n % 89 == 0:
                ops.append(("c",))
        ops += [("c",), ("f",), ("e",), ("D", 0)]
        for k in range(min(top, 40)):
            ins()
        ops += [("c",), ("t",), ("b",)]
    ops += [("c",), ("f",)]
    return mk("aseq", [rng.randrange(2)], ops)


def gen_mlist(rng, nops):
    """two lists on one allocator: interleaved operations so that links freed by one list are recycled by the other
    (the freed stack of the pool is shared), drains to empty and refills, resets while the other list is non-empty"""
    pre = rng.choice([0, 1, 3, 260])
    ops = []
    ns = [0, 0]
    v = 0
    burst = 0
    w = 0
    for _ in range(nops):
        if burst == 0:
            w = rng.randrange(2)
            burst = rng.choice([1, 1, 2, 5])
        burst -= 1
        n = ns[w]
        r = rng.random()
        v += 1
        if r < 0.15:
            ops.append(("p", w, v)); ns[w] += 1
        elif r < 0.30:
            ops.append(("q", w, v)); ns[w] += 1
        elif r < 0.46 and n > 0:
            ops.append(("n", w, rng.choice([0, n - 1, rng.randrange(n)]), v)); ns[w] += 1
        elif r < 0.62 and n > 1:
            ops.append(("m", w, rng.choice([0, n - 2, rng.randrange(n - 1)]))); ns[w] -= 1
        elif r < 0.80 and n > 0:
            ops.append(("o", w, rng.randrange(2))); ns[w] -= 1
        elif r < 0.92:
            ops.append(("d", rng.randrange(2)))
        elif r < 0.97:
            ops.append(("x", w)); ns[w] = 0
        elif r < 0.975:
            ops.append(("u", w)); ns[w] = 0
        else:
            ops.append(("q", w, v)); ns[w] += 1
    ops += [("d", 0), ("d", 1)]
    return mk("mlist", [pre], ops)


def gen_cases(ctx):
    rng = ctx.rng
    q = ctx.quick
    cases = []
    # pools
    for _ in range(140 if q else 3000):
        cases.append(gen_pool(rng, rng.choice([30, 100, 300, 700])))
    for kind, esz, n in [(1, 1, 9000), (2, 2, 5000), (0, 3, 3000), (1, 1000, 400), (2, 4096, 200)] + ([] if q else [(1, 1, 30000), (2, 3, 20000)]):
        cases.append(gen_pool(rng, n, kind, esz))
    for _ in range(40 if q else 600):
        cases.append(gen_uc(rng, rng.choice([10, 60, 300])))
    # lists
    for _ in range(150 if q else 3000):
        cases.append(gen_list(rng, rng.choice([15, 60, 200, 500])))
    for _ in range(120 if q else 3000):
        cases.append(gen_mlist(rng, rng.choice([15, 60, 200, 600])))
    # hash: full grow/shrink cycles across both resize directions (255 -> 1019 -> 4075 -> 1019 -> 255 slots)
    cyc = [(1, HASH_PARAMS[0], 4200), (0, HASH_PARAMS[4], 4100), (1, HASH_PARAMS[3], 1300), (0, HASH_PARAMS[1], 4090),
           (1, HASH_PARAMS[8], 4100)]
    if not q:
        cyc += [(rng.randrange(2), hp, rng.choice([1100, 4100, 4300])) for hp in HASH_PARAMS] + [(1, HASH_PARAMS[1], 16400), (0, HASH_PARAMS[6], 16350)]
    for own, hp, top in cyc:
        cases.append(gen_hash_cycle(rng, own, hp, top))
    for base, hp in [(1015, HASH_PARAMS[0]), (1017, HASH_PARAMS[4]), (250, HASH_PARAMS[2]), (505, HASH_PARAMS[5])] * (1 if q else 6):
        cases.append(gen_hash_threshold(rng, base, hp))
    for _ in range(160 if q else 4000):
        cases.append(gen_hash_random(rng, rng.choice([20, 60, 150, 400])))
    # hash array: growth across the 4x threshold of the internal table, colliding families, truncate and reuse
    for rip, hp, top in [(0, HASH_PARAMS[0], 4200), (1, HASH_PARAMS[1], 1100), (0, HASH_PARAMS[5], 1300), (1, HASH_PARAMS[4], 500), (0, HASH_PARAMS[3], 300)] + (
            [] if q else [(1, HASH_PARAMS[8], 1100), (0, HASH_PARAMS[6], 1300), (1, HASH_PARAMS[2], 600), (0, HASH_PARAMS[1], 16400)]):   # the model reads positions through unary naturals: long collision chains cost n^3
        cases.append(gen_harr_grow(rng, rip, hp, top))
    for _ in range(120 if q else 3000):
        cases.append(gen_harr_random(rng, rng.choice([20, 60, 150, 400])))
    # recycle array
    for _ in range(150 if q else 4000):
        cases.append(gen_rec(rng, rng.choice([20, 80, 300, 1000])))
    # key-value store
    for _ in range(150 if q else 4000):
        cases.append(gen_kv(rng, rng.choice([20, 60, 200, 500])))
    for big in [1100, 4200] + ([] if q else [4100, 16400]):
        cases.append(gen_kv(rng, 100, idr=200, big=big))
    # AVL tree
    for mode, order, top in [(0, "asc", 1200), (0, "desc", 700), (3, "rand", 2500), (1, "asc", 300), (2, "rand", 400), (0, "zig", 500),
                             (1, "rand", 64), (3, "zig", 33), (2, "asc", 100)] + ([] if q else [(0, "rand", 20000), (3, "asc", 9000), (1, "zig", 5000)]):
        cases.append(gen_avl_cycle(rng, mode, rng.randrange(2), top, order))
    for _ in range(250 if q else 6000):
        cases.append(gen_avl_random(rng, rng.choice([15, 50, 150, 500])))
    for mode, top in [(0, 3), (3, 7), (0, 40), (1, 15), (2, 25), (0, 300)] + ([] if q else [(3, 2000), (1, 500), (2, 300)]):
        cases.append(gen_avl_rekey(rng, mode, top))
    for top in [3, 4, 7, 20, 100, 400] + ([] if q else [2500, 1000]):
        cases.append(gen_aseq(rng, 0, "rekey", top))
    # AVL tree as a sequence (positions chosen by the caller)
    for style, top in [("front", 600), ("back", 600), ("mid", 700), ("rand", 1500), ("front", 33), ("back", 64), ("mid", 9)] + (
            [] if q else [("rand", 12000), ("front", 5000), ("mid", 6000)]):
        cases.append(gen_aseq(rng, 0, style, top))
    for _ in range(150 if q else 4000):
        cases.append(gen_aseq(rng, rng.choice([12, 40, 120, 400])))
    return cases


# ----------------------------------------------------------------------------------------------
def judge(container, params, ops, impl_line):
    """property oracle on one implementation output line; returns None or a message"""
    try:
        outs = split_out(impl_line)
        if len(outs) < len(ops) + 1:
            return "output too short (%d results for %d operations): %s" % (len(outs), len(ops), impl_line[-200:])
        ORACLES[container](params, ops, outs)
    except Bad as e:
        return str(e)
    except (ValueError, IndexError, KeyError, TypeError) as e:
        return "malformed output (%s: %s)" % (type(e).__name__, e)
    return None


def compare(container, ops, impl_line, model_line):
    """-> (index of first judged difference or None, number of info differences)"""
    a, b = split_out(impl_line), split_out(model_line)
    infod = 0
    for n in range(max(len(a), len(b))):
        if n >= len(a) or n >= len(b):
            return n, infod
        op = ops[n] if n < len(ops) else ("E",)
        if canon(container, op, a[n][0]) != canon(container, op, b[n][0]):
            return n, infod
        if a[n][1] != b[n][1] or (container == "hash" and a[n][0][:1] in (["f"], ["s"]) and a[n][0] != b[n][0]):
            infod += 1
    return None, infod


def run_impl(ctx, exe, text, timeout=900, case_limit=20):
    env = dict(os.environ, ASAN_OPTIONS="detect_leaks=1:abort_on_error=0", UBSAN_OPTIONS="print_stacktrace=1",
               C09_CASE_TIMEOUT=str(case_limit))
    rc, out, err = ctx.run_lines([exe], text, timeout=timeout, env=env)
    return rc, [l for l in out if l != ""], err


def run_impl_all(ctx, exe, cases, timeout):
    """run all cases; when the harness dies in a case (sanitizer report, crash, per-case time limit) record it and
    continue with the following cases.  -> (list of output line or None per case, {index: (rc, stderr)})"""
    res = [None] * len(cases)
    died = {}
    start = 0
    while start < len(cases) and len(died) < 8:
        rc, out, err = run_impl(ctx, exe, "\n".join(cases[start:]) + "\n", timeout=timeout)
        for k, l in enumerate(out[:len(cases) - start]):
            res[start + k] = l
        if len(out) >= len(cases) - start:
            if rc != 0:
                died[len(cases) - 1] = (rc, err)
                res[len(cases) - 1] = None
            break
        died[start + len(out)] = (rc, err)
        start = start + len(out) + 1
    return res, died


def shrink(ctx, exe, container, params, ops, budget=120, seconds=60):
    """delta debugging on the operation list, keeping documented preconditions; the failure is re-established on
    the real code for every candidate"""
    import time
    deadline = time.time() + seconds

    def fails(cand):
        line = mk(container, params, cand)
        rc, out, err = run_impl(ctx, exe, line + "\n", timeout=60, case_limit=5)
        if rc != 0 or not out:
            return True
        return judge(container, params, cand, out[0]) is not None
    n = 2
    cur = list(ops)
    runs = 0
    while len(cur) >= 2 and runs < budget and time.time() < deadline:
        chunk = max(1, len(cur) // n)
        reduced = False
        for i in range(0, len(cur), chunk):
            cand = cur[:i] + cur[i + chunk:]
            if not cand or not legal(container, params, cand):
                continue
            runs += 1
            if fails(cand):
                cur = cand
                n = max(n - 1, 2)
                reduced = True
                break
            if runs >= budget or time.time() > deadline:
                break
        if not reduced:
            if chunk == 1:
                break
            n = min(len(cur), n * 2)
    return cur


def run(ctx):
    import genall
    st = genall.run(["HashResize", "AvlBalance", "ContainersC09", "AvlStepsC09", "KeyValueC09"])
    for g, s in st.items():
        ctx.log("c2g", g, s)
        if s.startswith("FAILED"):
            ctx.tie_broken("translator group " + g, s)
    ctx.props()
    v = ctx.variant(mpi="off", san=True)
    exe = ctx.cc([os.path.join(vlib.TOOLS, "harness", "c09_harness.c")], os.path.join(ctx.scratch, "c09_harness"), v)
    cases = gen_cases(ctx)
    if ctx.replay:
        rp = json.load(open(ctx.replay))
        r = rp.get("replay", {})
        if "case" in r:
            cases = [r["case"]] + cases[:20]
    text = "\n".join(cases) + "\n"
    impl, died = run_impl_all(ctx, exe, cases, timeout=1500 if ctx.quick else 7200)
    ctx.log("implementation run: %d cases, %d stopped the harness" % (len(cases), len(died)))
    model = []
    try:
        mexe = ctx.model("c09")
        rc2, model, err2 = ctx.run_lines([mexe], text, timeout=1500 if ctx.quick else 7200)
        model = [l for l in model if l != ""]
        if rc2 != 0:
            ctx.tie_broken("c09 model run", "exit %s: %s" % (rc2, err2[-1500:]))
    except vlib.BuildError as e:
        ctx.tie_broken("c09 model build (extraction / driver)", str(e)[-1500:])
    ctx.log("model run done")
    dist = {}
    opdist = {}
    nviol = ndis = ninfo = 0
    resize_actions = 0
    resize_by = {}
    for i, line in enumerate(cases):
        container, params, ops = parse_case(line)
        dist[container] = dist.get(container, 0) + 1
        for o in ops:
            k = container + ":" + o[0]
            opdist[k] = opdist.get(k, 0) + 1
        ctx.count_case(line, nontrivial=len(ops) >= 3)
        if impl[i] is None:
            if i in died:
                rcd, errd = died[i]
                msg = "the implementation run stopped in this case (exit %s): %s" % (rcd, errd[-1200:])
                ncrash_shrunk = ctx.notes.get("_crash_shrunk", 0)
                ctx.notes["_crash_shrunk"] = ncrash_shrunk + 1
                small = shrink(ctx, exe, container, params, ops, budget=60, seconds=40) if ncrash_shrunk < 2 else ops
                ctx.violation("%s:crash:%s" % (container, hashlib.md5(line.encode()).hexdigest()[:10]),
                              "%s history makes libsc fail (sanitizer report, crash or endless loop): %s" % (container, msg[:600]),
                              dict(case=mk(container, params, small), original_ops=len(ops), stderr=errd[-3000:]))
            else:
                ctx.tie_broken("c09 harness run", "case %d was not run (too many failing cases before it)" % i)
            continue
        il = impl[i]
        ml = model[i] if i < len(model) else None
        msg = judge(container, params, ops, il)
        if msg is not None:
            nviol += 1
            if nviol <= 4:
                small = shrink(ctx, exe, container, params, ops)
                sline = mk(container, params, small)
                rcs, outs, errs = run_impl(ctx, exe, sline + "\n", timeout=120)
                smsg = judge(container, params, small, outs[0]) if outs else "no output"
                ctx.violation("%s:%s" % (container, hashlib.md5(sline.encode()).hexdigest()[:10]),
                              "%s: %s  [case shrunk from %d to %d operations: %s]" % (container, smsg or msg, len(ops), len(small), sline[:400]),
                              dict(case=sline, impl=outs[0] if outs else None, original_case_ops=len(ops), first_message=msg))
        if ml is not None:
            d, infod = compare(container, ops, il, ml)
            if infod and not ninfo:
                ctx.log("note: internal layout differs between model and libsc (not judged), first in case %d (%s %s)" % (i, container, params))
            ninfo += infod
            if d is not None:
                ndis += 1
                if ndis <= 3:
                    a, b = split_out(il), split_out(ml)
                    ctx.tie_broken("correspondence %s" % container,
                                   "case %d (%s %s, %d ops): operation %d (%s): libsc gives `%s`, the model gives `%s`" % (
                                       i, container, params, len(ops), d, ops[d] if d < len(ops) else "end",
                                       " ".join(a[d][0])[:200] if d < len(a) else "<missing>", " ".join(b[d][0])[:200] if d < len(b) else "<missing>"))
        if container in ("hash", "harr", "kv"):
            for j, info in split_out(il):
                if j[:1] in (["c"], ["C"]) and info:
                    ra = int(info.split()[2], 16)
                    resize_by[container] = max(resize_by.get(container, 0), ra)
                    if container == "hash":
                        resize_actions = max(resize_actions, ra)
    ctx.cov["disagreements_checked"] = len(cases)
    ctx.cov["rule"] = ("operation histories per container (hash: full grow/shrink cycles over 4000-16000 keys crossing the 4x and 1/4x "
                       "thresholds in both directions under identity / multiplicative / few-bucket / constant / slot-count-multiple hash "
                       "functions, walks around the resize triggers, random mixed histories with colliding key families; pools: "
                       "interleaved alloc/free/write/read/truncate over item sizes 1..5000 and stamp units around multiples of the item "
                       "size; lists: prepend/append/insert/remove/pop/reset/unlink with own and shared allocators; hash arrays: growth to "
                       "300-4300 elements across the 4x threshold of the internal table under the same hash function families, duplicates, "
                       "truncate and reuse, destroy or rip; recycle arrays: interleaved insert/remove/write/read/reset over element sizes "
                       "1..100; key-value: construction by sc_keyvalue_newf with repeated keys, typed set/get/get_int_check/exists/unset/"
                       "foreach over small and large key ranges, 1100 and 4200 keys set and unset again so that the internal table grows and "
                       "shrinks; AVL: growth in ascending / descending / random / zig-zag key order up to 2500 keys and deletion in random / "
                       "ascending / descending / middle-out order under four compare functions (difference, reversed, classes of equal keys, "
                       "sign), rank queries at and beyond the ends, closest queries, forward/backward list walks, structural self-check); "
                       "a case is non-trivial if it has at least 3 operations; distinct = distinct case text")
    ctx.cov["exhaustive"] = False
    ctx.notes["cases_per_container"] = dist
    ctx.notes["op_distribution"] = opdist
    ctx.notes["hash_max_resize_actions_in_one_case"] = resize_actions
    ctx.notes["max_table_resize_actions_in_one_case"] = resize_by
    ctx.notes["judged_disagreements"] = ndis
    ctx.notes["info_differences_not_judged"] = ninfo
    ctx.notes["oracle_violations"] = nviol
    ctx.notes.pop("_crash_shrunk", None)
    ctx.notes["unproved_or_partial"] = UNPROVED
    for c in cases[:: max(1, len(cases) // 5)][:5]:
        ctx.sample({"case": c[:300]})
    ctx.cov["trusted_base"] = ["tools/c2g translator and clang-14's JSON AST for the hash resize arithmetic (the generated constants are used by the model that is run against libsc)",
                               "the AST rewrites of tools/c2g/groups_C09.py (mk_rw: pointer aliases of struct members, hoisting of prefix increments, split of chained "
                               "assignments, calls as ghost outputs with opaque addresses of struct members) used for the 43 slices of ContainersC09 / AvlStepsC09 / KeyValueC09",
                               "tools/harness/c09_harness.c: derives item identities, overlap and content checks from the pointers libsc returns; "
                               "reads the two fields of the opaque struct sc_keyvalue through a redeclared layout (counts only); walks the AVL "
                               "nodes to check counts, parent and prev/next pointers",
                               "the Python reference ADTs in checks/C09.py (ordered set, slot allocator, typed map, sorted set with ranks)"]
    ctx.assumptions += ["hash: equal_fn is an equivalence relation and equal elements have equal hash values (contract of sc_hash_new); an override through **found stores an equal element",
                        "pools/lists: only live items are returned, written or read; documented preconditions of sc_list_insert/remove/pop",
                        "hash array: the user's equal_fn is an equivalence and equal elements have equal hash values; elements are not modified after insertion",
                        "recycle array: only live positions are removed, written or read",
                        "key-value: set/get of an existing key use the entry's type (SC_ASSERTs of sc_keyvalue.c); keys are compared by content",
                        "AVL: the compare function is a total order comparator (sign antisymmetric, transitive, equal items compare alike); node counts stay below 2^32",
                        "memory safety and termination of the C code are observed (ASan/UBSan), not proved"]
    return "proof"


UNPROVED = ["sc_hash_array_rip is run (memory balance, ripped contents) but has no model operation of its own",
            "avl_fixup_node: not modelled (avl_insert_before / _after / _top with a node chosen by the caller, avl_delete_node on a node: "
            "AvlSeqModel.v; avl_unlink_node and re-insertion of the same node object by avl_insert_node / _before / _after, caller-filled nodes: "
            "AvlRelinkModel.v)",
            "T1: the pointer rotations of avl_rebalance / avl_unlink_node are not sliced (c2g has no heap: an access path through a pointer that is "
            "reassigned inside the slice would be mistranslated); tied by the correspondence run (tree root and height compared) and the structural "
            "self-check; not sliced either: the loops of sc_hash_lookup / insert_unique / remove / foreach / truncate / unlink, sc_keyvalue_set_* "
            "(SC_EXECUTE_ASSERT_TRUE around a call), sc_keyvalue_newv (va_arg)",
            "shared allocator: proved for two lists plus a third user holding items; hash tables sharing an allocator are modelled by the link count only",
            "AVL balance (height logarithmic in the count) is a performance property and is not claimed; the unsigned 32-bit wrap of node counts is not modelled",
            "sc_hash_function_string itself is not modelled: the key-value theorem quantifies over every hash function on keys",
            "sc_list / sc_hash statistics printing, sc_*_memory_used: not modelled",
            "prev/next of the AVL model is ONE list (forward = backward reversed by construction); the two pointer chains of the C code are compared by the run"]
