"""C20 - the declared public API links; accessors read back exactly what was set.

Part 1: tools/c2g/groups_C20.py (group ApiC20) extracts, for every build configuration, the function and
extern-object declarations of every installed header with clang's AST and the symbols of the library built
from /repo's working tree with nm; both go into coq/Gen/ApiC20.v and the finite obligation
`forallb cfg_ok configs = true` is re-checked.  Independently, a program that references every declared name
is LINKED against each configuration's library (oracle): an undefined reference that is not recorded in
known_findings.d/C20.txt is a VIOLATION whose replay is the symbol and the failing link command.
Part 2: the accessor bodies are regenerated (group AccessC20), the round-trip theorems re-checked, and every
setter/getter pair is called on the real library (serial sanitizer build, OpenMPI build) and compared with
the extracted model and with a Python oracle that remembers the last stored value - also after the objects
were USED in between (notification rounds on 3 OpenMPI ranks and on the serial build, shared-array traffic,
option parsing/printing): a use stores nothing (theorems C20_last_stored*, C20_use_identity).  Group UseC20
regenerates slices of the writers outside the setters (sc_notify_new / set_type / nary_init / ranges_init) and
a census of every store into a configuration field; C20_gen_* tie them to the model."""
import os, sys, json, re, subprocess
from concurrent.futures import ThreadPoolExecutor
import vlib
sys.path.insert(0, os.path.join(vlib.TOOLS, "c2g"))

INT_MAX = 0x7fffffff


def hx(v):
    return ("-%x" % -v) if v < 0 else ("%x" % v)


# ------------------------------------------------------------------------------------------------
# part 1: link oracle
# ------------------------------------------------------------------------------------------------
def link_program(v, extra, hdrs, funs, objs, out, workdir, tag):
    src = os.path.join(workdir, "c20_link_%s.c" % tag)
    rels = [r for _, r in hdrs]
    order = [r for r in rels if r == "sc.h"] + [r for r in rels if r != "sc.h"]
    with open(src, "w") as f:
        for r in order:
            f.write("#include <%s>\n" % r)
        f.write("void *c20_refs[] = {\n")
        for x in funs:
            f.write("  (void *) %s,\n" % x)
        for x in objs:
            f.write("  (void *) &%s,\n" % x)
        f.write("  (void *) 0 };\nint main (void) { return c20_refs[0] == (void *) 0; }\n")
    inc = ["-I" + os.path.join(v.dir, "inc"), "-I" + os.path.join(vlib.REPO, "src")]
    cmd = [v.cc, "-w", "-O0"] + inc + [src] + list(extra) + [v.lib] + v.ldflags + ["-o", out]
    p = subprocess.run(cmd, stdout=subprocess.PIPE, stderr=subprocess.STDOUT)
    txt = p.stdout.decode("utf-8", "replace")
    undef = sorted(set(re.findall(r"undefined reference to [`']([A-Za-z0-9_]+)'", txt)))
    return p.returncode, undef, txt, " ".join(cmd)


def finding_key(ctx, sym, cfg):
    for p, k, _ in ctx.known:
        if p == "C20" and (k == "undefined:" + sym or (k.startswith("undefined:%s@" % sym) and cfg in k.split("@", 1)[1].split(","))):
            return k
    return "undefined:" + sym


def part1(ctx, survey, g20):
    summary = {}
    for name, d in survey:
        v = d["variant"]
        hdr_of = dict(d["declared"] + d["declared_vars"])
        funs = sorted(set(x for x, _ in d["declared"]))
        objs = sorted(set(x for x, _ in d["declared_vars"]))
        known = set(g20.known_undefined(vlib.VERIF, name))
        have = d["defined"] | d["defined_objs"] | set(d["system"])
        missing_nm = sorted(x for x in funs + objs if x not in have)
        # positive link test: a program referencing every name that is not recorded must link
        rc, undef, txt, cmd = link_program(v, d["extra"], d["headers"], [x for x in funs if x not in known], [x for x in objs if x not in known],
                                           os.path.join(ctx.scratch, "c20_link_%s" % name), ctx.scratch, name)
        if rc != 0 and not undef:
            ctx.tie_broken("link test (%s)" % name, "the reference program does not build: %s" % txt[-800:])
        for sym in sorted(set(undef) | set(x for x in missing_nm if x not in known)):
            hdr = hdr_of.get(sym, "?")
            ctx.violation(finding_key(ctx, sym, name),
                          "installed header %s declares %s, but the library built in configuration '%s' does not define it: a program that "
                          "compiles against the header does not link (ld reports it undefined: %s; nm lists a definition: %s)"
                          % (hdr, sym, name, sym in undef, sym not in missing_nm),
                          dict(symbol=sym, header=hdr, configuration=name, link=cmd, linker_output=[l for l in txt.split("\n") if sym in l][:3]))
        # negative link test: every recorded name must still fail to link (else the finding is stale)
        kn_decl = sorted(x for x in known if x in funs or x in objs)
        todo = kn_decl if (name == "serial" or not ctx.quick) else [x for x in kn_decl if finding_key(ctx, x, name) != "undefined:" + x] + kn_decl[:2]

        def neg(sym):
            r, u, t, c = link_program(v, d["extra"], d["headers"], [sym] if sym in funs else [], [sym] if sym in objs else [],
                                      os.path.join(ctx.scratch, "c20_neg_%s_%s" % (name, sym)), ctx.scratch, "%s_%s" % (name, sym))
            return sym, r, u, c
        with ThreadPoolExecutor(max_workers=vlib.NCPU) as ex:
            negs = list(ex.map(neg, sorted(set(todo))))
        for sym, r, u, c in negs:
            if r == 0:
                ctx.tie_broken("recorded finding undefined:%s (%s)" % (sym, name),
                               "a program referencing the symbol links now: delete its line from known_findings.d/C20.txt")
            else:
                ctx.violation(finding_key(ctx, sym, name), "%s declares %s but the library of configuration %s does not define it (ld: undefined reference)"
                              % (hdr_of.get(sym), sym, name), dict(symbol=sym, configuration=name, link=c))
        for sym in sorted(x for x in known if x not in funs and x not in objs):
            ctx.tie_broken("recorded finding undefined:%s (%s)" % (sym, name), "no installed header declares this name any more: delete the finding")
        for sym in sorted(x for x in known if x in have):
            ctx.tie_broken("recorded finding undefined:%s (%s)" % (sym, name), "the library defines this name now: delete the finding")
        ctx.count_case(("api", name, len(funs), len(objs)), nontrivial=True)
        ctx.cov["evaluations"] += len(funs) + len(objs) - 1
        summary[name] = dict(headers=len(d["headers"]), declared_functions=len(funs), declared_objects=len(objs),
                             defined_in_library=len(d["defined"] | d["defined_objs"]),
                             resolved_by_system_libraries=sorted(x for x in funs + objs if x not in d["defined"] and x not in d["defined_objs"] and x in d["system"]),
                             undefined=missing_nm, recorded=len(known), macro_made_declarations_ignored=sorted(set(x for x, _ in d["macro_made"])),
                             headers_needing_sc_h_first=d["needs_sc"], negative_links=len(negs))
    root = os.path.realpath(vlib.REPO)
    summary["third_party_headers_installed"] = [rel for _, d in survey[:1] for p, rel in d["headers"]
                                                if os.path.realpath(p).startswith((os.path.join(root, "libb64"), os.path.join(root, "iniparser")))]
    return summary


# ------------------------------------------------------------------------------------------------
# part 2: scenarios and oracle
# ------------------------------------------------------------------------------------------------
NARY, RANGES, SUPERSET = 2, 7, 8


# serial build (no MPI): sc_MPI_Isend / Recv / Iprobe / Reduce_scatter abort, so only these rounds are legal there
# (type -> set of (min (mode, 1), pay); "v": payloadv); with a payload above the eager threshold the payload travels by
# Isend as soon as there is a receiver.  Rounds dropped from the serial scenario stay in the MPI scenario.
SERIAL_USE = {0: {(0, 0), (0, 1), (1, 0), (1, 3)}, 1: {(0, 0), (0, 1), (1, 0), (1, 3)},
              2: {(m, p) for m in (0, 1) for p in (0, 1, 2, 3)} | {(0, "v")}, 3: {(m, p) for m in (0, 1) for p in (0, 1, 2, 3)} | {(0, "v")},
              7: {(m, p) for m in (0, 1) for p in (0, 1, 2, 3)} | {(0, "v")}}
NO_ROUND_TYPES = (5,)        # SC_NOTIFY_RSX needs MPI_Win_create, which the Open MPI of this machine refuses (MPI_ERR_WIN)


class U(str):
    """an operation that is left out of the serial scenario"""


def serial_ok(t, mode, pay, eager):
    if (min(mode, 1), pay) not in SERIAL_USE.get(t, ()):
        return False
    if pay in (2, "v") and eager < 4:
        return False      # memcpy (NULL, .., 0) at sc_notify.c:2912 (in-place payload, nobody notifies this rank): UBSan stops the sanitizer build
    return not (pay in (1, 2) and mode >= 1 and eager < 4)


def use_op(t, k, mode, pay, eager):
    txt = "usev %d %d" % (k, mode) if pay == "v" else "use %d %d %d" % (k, mode, pay)
    return txt if serial_ok(t, mode, pay, eager) else U(txt)


def lines_of(ops):
    return ";".join(ops), ";".join(o for o in ops if not isinstance(o, U))


def gen_scenarios(rng, n):
    """list of (scenario for the MPI build, the same without the rounds the serial build cannot run)"""
    out = []
    W = [2, 3, 5, 7, 11, 64, 1000, INT_MAX, INT_MAX - 1]
    E = [0, 1, 0x400, 0xffffffff, 0x100000000, (1 << 63) - 1, 1 << 63, (1 << 64) - 1]
    ALLW = "getw 0 1 1 1 0 0 0"
    # systematic: every mask of the width getter with pairwise different values, all types, boundaries of every scalar
    for (a, b, c) in ((3, 5, 7), (INT_MAX, 2, 1000), (11, 11, 13), (2, INT_MAX, INT_MAX - 1)):
        ops = ["new 0 0", "settype 0 2", "setw 0 %s %s %s" % (hx(a), hx(b), hx(c))]
        for m in range(8):
            ops.append("getw 0 %d %d %d -65 -66 -67" % (m & 1, (m >> 1) & 1, (m >> 2) & 1))
        ops += ["gettype 0", "geteager 0", "getstats 0", "getcomm 0", "settype 0 2", "getw 0 1 1 1 0 0 0",      # same type: data kept
                "settype 0 7", "settype 0 2", "getw 0 1 1 1 0 0 0"]                                              # type changed: defaults
        out.append(";".join(ops))
    for t in range(-1, 9):
        out.append("new 0 1;gettype 0;settype 0 %s;gettype 0;settype 0 %s;gettype 0;getcomm 0;settype 0 3;gettype 0" % (hx(t), hx(t)))
    out.append(";".join(["new 1 0"] + ["seteager 1 %x;geteager 1" % e for e in E] + ["setstats 1 %d;getstats 1;geteager 1" % s for s in (1, 2, 3, 0, 7)]))
    out.append(";".join(["new 2 0", "settype 2 7", "getnr 2", "getpk 2"] + ["setnr 2 %x;getnr 2;getpk 2" % v for v in (1, 2, 25, INT_MAX)] +
                        ["setpk 2 %s;getpk 2;getnr 2" % hx(v) for v in (-1, 0, 1, 5, INT_MAX)]))
    out.append(";".join(["pkgid 0", "new 2 1", "settype 2 7", "getpk 2", "getnr 2", "settype 2 2", "getw 2 1 1 1 0 0 0", "settype 2 7", "getpk 2", "getnr 2"]))
    out.append(";".join(["new 3 0", "settype 3 8"] + ["setcb 3 %d %d;getcb 3" % (f, x) for f in range(4) for x in (0, 1, 5, 7)]))
    out.append(";".join(["shget 0", "shget 1"] + ["shset %d %d;shget %d;shget %d" % (c, t, c, 1 - c) for c in (0, 1) for t in (0, 1, 0)]))
    out.append(";".join(["spacing0"] + ["spacing %s %s" % (hx(a), hx(b)) for a in (-1, -5, 0, 1, 13, 14, 15, 20, 21, 40, 200) for b in (-1, 0, 19, 20, 21, 32, 33, 47, 300)]))
    out.append("defaults 2 10 4 5 6 9;new 3 0;gettype 3;getw 3 1 1 1 0 0 0;geteager 3;settype 3 7;getnr 3;settype 3 -1;gettype 3;getw 3 1 1 1 0 0 0")
    # re-selecting the CURRENT type through the placeholder SC_NOTIFY_DEFAULT (public default = the controller's type) keeps the data
    out.append("defaults 2 400 4 5 6 9;new 0 0;gettype 0;setw 0 3 b d;settype 0 -1;gettype 0;getw 0 1 1 1 0 0 0;settype 0 2;getw 0 1 1 1 0 0 0")
    out.append("defaults 7 400 4 5 6 9;new 0 0;gettype 0;setnr 0 b;setpk 0 2a;settype 0 -1;gettype 0;getnr 0;getpk 0;settype 0 7;getnr 0;getpk 0")
    out.append("defaults 8 400 4 5 6 9;new 0 0;settype 0 8;setcb 0 2 5;settype 0 -1;getcb 0;gettype 0")
    out = [(x, x) for x in out]

    # ---- set, USE, get (systematic): the objects are used between the setter and the getter ------------------------------------
    EG = 0x400
    ALLG = ["gettype 0", "geteager 0", "getstats 0", "getcomm 0"]
    rounds = [(0, 0), (1, 1), (1, 2), (2, 0), (3, 1), (0, 3), (3, "v"), (0, "v"), (1, 0), (3, 2)]
    for comm in (0, 1):
        # n-ary widths: the FIRST round after the type was selected, later rounds, a second set on the used object, the same type
        # selected again, another type and back; with every NULL mask after the first round
        ops = ["new 0 %d" % comm, "settype 0 2", "setw 0 3 4 5", ALLW, use_op(2, 0, 0, 0, EG), ALLW]
        ops += ["getw 0 %d %d %d -65 -66 -67" % (m & 1, (m >> 1) & 1, (m >> 2) & 1) for m in range(8)]
        ops += [use_op(2, 0, 1, 1, EG), ALLW, "setw 0 7 2 9", ALLW, use_op(2, 0, 1, 2, EG), ALLW, use_op(2, 0, 0, "v", EG), ALLW,
                "settype 0 2", ALLW, "settype 0 3", "settype 0 2", "setw 0 6 5 4", use_op(2, 0, 3, 0, EG), ALLW, use_op(2, 0, 2, 3, EG), ALLW] + ALLG
        out.append(lines_of(ops))
        # the controller is born n-ary (public default type): first round without / with a set before it; the public defaults
        # change between creation and first round
        out.append(lines_of(["defaults 2 400 4 5 6 9", "new 0 %d" % comm, use_op(2, 0, 1, 0, EG), ALLW, "setw 0 3 b d", use_op(2, 0, 1, 1, EG), ALLW]))
        out.append(lines_of(["defaults 2 400 4 5 6 9", "new 0 %d" % comm, "setw 0 3 b d", use_op(2, 0, 0, 0, EG), ALLW, use_op(2, 0, 3, 2, EG), ALLW]))
        out.append(lines_of(["defaults 2 400 4 5 6 9", "new 0 %d" % comm, "defaults 3 8 7 8 9 3", use_op(2, 0, 1, 0, EG), ALLW, "geteager 0", "gettype 0"]))
        out.append(lines_of(["defaults 3 400 4 5 6 9", "new 0 %d" % comm, "settype 0 2", "defaults 3 8 7 8 9 3", use_op(2, 0, 0, 1, EG), ALLW,
                             "setw 0 2 3 2", "settype 0 -1", "settype 0 2", use_op(2, 0, 1, 0, EG), ALLW]))
        # ranges: both fields; the public default changes between selection and round; libsc initialised (sc_package_id = 0)
        ops = ["new 0 %d" % comm, "settype 0 7", "setnr 0 3", "setpk 0 5"]
        for (m, p) in rounds[:6]:
            ops += [use_op(7, 0, m, p, EG), "getnr 0", "getpk 0"]
        ops += ["setnr 0 40", use_op(7, 0, 1, 1, EG), "getnr 0", "getpk 0", "setpk 0 -1", use_op(7, 0, 3, "v", EG), "getpk 0", "getnr 0"] + ALLG
        out.append(lines_of(ops))
        out.append(lines_of(["pkgid 0", "new 0 %d" % comm, "settype 0 7", "defaults 3 400 2 2 2 7", use_op(7, 0, 1, 0, EG), "getpk 0", "getnr 0",
                             "setpk 0 -1", use_op(7, 0, 0, 0, EG), "getpk 0", "setpk 0 3", use_op(7, 0, 3, 1, EG), "getpk 0", "getnr 0"]))
        # the eager threshold around the payload-free form of sc_notify_payloadv, thresholds below, at and above sizeof (int)
        for t in (0, 1, 2, 3, 4, 6, 7, 8):
            ops = ["new 0 %d" % comm, "settype 0 %d" % t] + (["setcb 0 2 3"] if t == 8 else [])
            for e in (0, 1, 2, 3, 4, 5, 0x400):
                ops += ["seteager 0 %s" % hx(e), U("usevn 0 %d" % (e % 4)), "geteager 0", U("usev 0 1"), "geteager 0"]
            out.append(lines_of(ops + ALLG))
        # superset callback and context
        ops = ["new 0 %d" % comm, "settype 0 8"]
        for i, (f, x) in enumerate(((1, 0), (2, 5), (3, 7), (1, 1))):
            m, p = rounds[(2 * i) % len(rounds)]
            ops += ["setcb 0 %d %d" % (f, x), U("use 0 %s %s" % (m, p)) if p != "v" else U("usev 0 %d" % m), "getcb 0", U("usev 0 3"), "getcb 0"]
        out.append(lines_of(ops + ALLG))
        # the fields every controller has, for every type and every kind of round; a statistics object is attached
        for t in (0, 1, 2, 3, 4, 6, 7, 8):
            ops = ["new 0 %d" % comm, "settype 0 %d" % t] + (["setcb 0 2 3"] if t == 8 else [])
            for i, (m, p) in enumerate(rounds):
                e = E[(i + t) % len(E)]
                st = (i + t) % 8
                ops += ["seteager 0 %x" % e, "setstats 0 %d" % st, use_op(t, 0, m, p, e)] + ALLG
            ops += {2: [ALLW], 7: ["getnr 0", "getpk 0"], 8: ["getcb 0"]}.get(t, [])
            out.append(lines_of(ops))
        # two controllers on one communicator, rounds interleaved
        out.append(lines_of(["new 0 %d" % comm, "new 1 %d" % comm, "settype 0 2", "settype 1 2", "setw 0 3 4 5", "setw 1 8 9 a", use_op(2, 0, 1, 0, EG),
                             "getw 1 1 1 1 0 0 0", ALLW, use_op(2, 1, 3, 1, EG), "getw 1 1 1 1 0 0 0", ALLW, "settype 1 7", "setnr 1 2", use_op(7, 1, 1, 0, EG),
                             use_op(2, 0, 0, 0, EG), "getnr 1", ALLW]))
    # shared-array flavour: set, allocate / fill / gather / free, get
    out.append(lines_of(["shset 0 1", "shuse 0 7", "shget 0", "shuse 0 0", "shget 0", "shset 0 0", "shuse 0 3", "shget 0", "shget 1", "shset 1 1", "shuse 1 7", "shuse 0 5",
                         "shget 1", "shget 0", "shset 1 0", "shuse 1 1", "shget 1"]))
    # option spacing: parse / print_usage / print_summary / more options between set_spacing and the observed usage message
    out.append(lines_of(["spacingu %s %s %x" % (hx(a), hx(b), u) for (a, b) in ((-1, -1), (0, 0), (14, 20), (15, 21), (30, 50), (13, 19), (40, 32), (-5, 300))
                         for u in (1, 2, 4, 8, 3, 15)]))

    # ---- seeded histories ----------------------------------------------------------------------------------------------------
    SMALL = [2, 3, 4, 5, 7, 11, 64]
    for _ in range(n):
        ops = []
        dflt = dict(t=3, e=0x400, w=(2, 2, 2), n=25)        # initial values of the public default variables
        pkg = -1
        if rng.random() < 0.3:
            ops.append("pkgid 0"); pkg = 0
        typ, live, cbset, cfg = {}, set(), set(), {}

        def fresh_data(k):
            cfg[k].update(w=dflt["w"], nr=dflt["n"], pk=pkg, cb=0)

        def round_ok(k):
            t, c = typ[k], cfg[k]
            if t in NO_ROUND_TYPES or not (0 <= t < 9):
                return False
            if t == NARY:
                return all(2 <= x <= 64 for x in c["w"])
            if t == RANGES:
                return 1 <= c["nr"] <= 64 and c["pk"] >= -1
            if t == SUPERSET:
                return c["cb"] != 0
            return True
        for _ in range(rng.randrange(8, 60)):
            r = rng.random()
            k = rng.randrange(4)
            if k not in live:
                if r < 0.15:
                    t = rng.choice([NARY, RANGES, SUPERSET, rng.randrange(0, 9)])
                    dflt = dict(t=t, e=rng.choice(E + [rng.getrandbits(64)]), w=(rng.choice(W + SMALL), rng.choice(W + SMALL), rng.choice(W + SMALL)),
                                n=rng.choice([1, 2, 25, INT_MAX, rng.randrange(1, 1 << 31)]))
                    ops.append("defaults %d %x %x %x %x %x" % ((t, dflt["e"]) + dflt["w"] + (dflt["n"],)))
                    continue
                ops.append("new %d %d" % (k, rng.randrange(2)))
                live.add(k); typ[k] = dflt["t"]; cbset.discard(k)
                cfg[k] = dict(e=dflt["e"]); fresh_data(k)
                continue
            if r < 0.03:
                ops.append("destroy %d" % k); live.discard(k)
            elif r < 0.16:
                t = rng.choice([-1, -1, 2, 7, 8, 2, 7, 8, rng.randrange(0, 9)] + ([-1, -1, -1] if dflt["t"] in (NARY, RANGES, SUPERSET) else []))
                nt = dflt["t"] if t == -1 else t
                if nt != typ[k]:
                    cbset.discard(k); fresh_data(k)
                typ[k] = nt
                ops.append("settype %d %s" % (k, hx(t)))
            elif r < 0.20:
                ops.append("gettype %d" % k)
            elif r < 0.26:
                e = rng.choice(E + [rng.getrandbits(64), rng.getrandbits(20), 3, 4])
                cfg[k]["e"] = e
                ops.append("seteager %d %x" % (k, e))
            elif r < 0.30:
                ops.append("geteager %d" % k)
            elif r < 0.34:
                ops.append("setstats %d %d" % (k, rng.randrange(8)))
            elif r < 0.38:
                ops.append("getstats %d" % k)
            elif r < 0.40:
                ops.append("getcomm %d" % k)
            elif r < 0.58 and round_ok(k):
                pay = rng.choice([0, 0, 1, 1, 2, 3, "v"])
                ops.append(use_op(typ[k], k, rng.randrange(4), pay, cfg[k]["e"]))
            elif typ[k] == NARY:
                if r < 0.78:
                    ws = tuple(rng.choice(SMALL) for _ in range(3)) if rng.random() < 0.6 else tuple(rng.choice(W + [rng.randrange(2, 1 << 31)]) for _ in range(3))
                    cfg[k]["w"] = ws
                    ops.append("setw %d %x %x %x" % ((k,) + ws))
                else:
                    ops.append("getw %d %d %d %d %s %s %s" % (k, rng.random() < 0.7, rng.random() < 0.7, rng.random() < 0.7,
                                                              hx(rng.randrange(-99, -1)), hx(rng.randrange(-99, -1)), hx(rng.randrange(-99, -1))))
            elif typ[k] == RANGES:
                q = rng.randrange(4)
                if q == 0:
                    cfg[k]["nr"] = rng.choice([1, 2, 3, 25, 64, 65, INT_MAX, rng.randrange(1, 1 << 31)])
                    ops.append("setnr %d %x" % (k, cfg[k]["nr"]))
                elif q == 2:
                    cfg[k]["pk"] = rng.choice([-1, 0, 1, 5, INT_MAX, rng.randrange(0, 1 << 31)])
                    ops.append("setpk %d %s" % (k, hx(cfg[k]["pk"])))
                else:
                    ops.append("getnr %d" % k if q == 1 else "getpk %d" % k)
            elif typ[k] == SUPERSET:
                if r < 0.8 or k not in cbset:
                    cfg[k]["cb"] = rng.randrange(4)
                    ops.append("setcb %d %d %d" % (k, cfg[k]["cb"], rng.randrange(8))); cbset.add(k)
                else:
                    ops.append("getcb %d" % k)
            else:
                ops.append(rng.choice(["shset %d %d" % (rng.randrange(2), rng.randrange(2)), "shget %d" % rng.randrange(2),
                                       "shuse %d %d" % (rng.randrange(2), rng.randrange(8)),
                                       "spacing %s %s" % (hx(rng.randrange(-3, 60)), hx(rng.randrange(-3, 90))),
                                       "spacingu %s %s %x" % (hx(rng.randrange(-3, 60)), hx(rng.randrange(-3, 90)), rng.randrange(1, 16))]))
        out.append(lines_of(ops))
    return out


class AccOracle:
    """the property restated: a getter returns what the last setter stored (per controller and field)"""

    def __init__(self, mpi, shmem):
        self.mpi, self.shmem = mpi, shmem      # shmem attribute persists in the harness process (MPI)
        self.f = {}                            # (k, field) -> value
        self.dflt = {}

    # use / usev / shuse store nothing: the oracle's memory is not touched by them (that IS the property)
    def forget(self, k, fields):
        for fld in fields:
            self.f.pop((k, fld), None)

    def op(self, tok, out):
        """returns None (fine / not judged) or a text describing the deviation"""
        w = tok.split()
        name = w[0]
        a = [(-int(x[1:], 16) if x.startswith("-") else int(x, 16)) for x in w[1:]]
        res = [(-int(x[1:], 16) if x.startswith("-") else int(x, 16)) for x in out.split(",")] if out else []

        def expect(vals, what):
            if any(v is None for v in vals):
                return None
            return None if res == vals else "%s: got %s, last stored %s" % (what, [hx(x) for x in res], [hx(x) for x in vals])
        if name == "new":
            k = a[0]
            self.forget(k, ["type", "eager", "stats", "w", "nr", "pk", "cb"])
            self.f[(k, "comm")] = a[1]
            self.f[(k, "stats")] = 0
            if "t" in self.dflt:
                self.f[(k, "type")] = self.dflt["t"]
                self.f[(k, "eager")] = self.dflt["e"]
                if self.dflt["t"] == NARY:
                    self.f[(k, "w")] = self.dflt["w"]
                if self.dflt["t"] == RANGES:
                    self.f[(k, "nr")] = self.dflt["n"]
        elif name == "destroy":
            self.forget(a[0], ["type", "eager", "stats", "w", "nr", "pk", "cb", "comm"])
        elif name == "settype":
            k, t = a[0], a[1]
            nt = self.dflt.get("t") if t == -1 else t
            if nt is None or self.f.get((k, "type")) != nt:
                self.forget(k, ["w", "nr", "pk", "cb"])
                if nt is not None and "t" in self.dflt:
                    if nt == NARY:
                        self.f[(k, "w")] = self.dflt["w"]
                    if nt == RANGES:
                        self.f[(k, "nr")] = self.dflt["n"]
            if nt is None:
                self.f.pop((k, "type"), None)
            else:
                self.f[(k, "type")] = nt
            return expect([0], "sc_notify_set_type return value")
        elif name == "gettype":
            return expect([self.f.get((a[0], "type"))], "sc_notify_get_type")
        elif name == "seteager":
            self.f[(a[0], "eager")] = a[1]
        elif name == "geteager":
            return expect([self.f.get((a[0], "eager"))], "sc_notify_get_eager_threshold")
        elif name == "setstats":
            self.f[(a[0], "stats")] = a[1]
        elif name == "getstats":
            return expect([self.f.get((a[0], "stats"))], "sc_notify_get_stats")
        elif name == "getcomm":
            return expect([self.f.get((a[0], "comm"))], "sc_notify_get_comm")
        elif name == "setw":
            self.f[(a[0], "w")] = (a[1], a[2], a[3])
        elif name == "getw":
            st = self.f.get((a[0], "w"))
            if st is None:
                return None
            return expect([st[i] if a[1 + i] else a[4 + i] for i in range(3)], "sc_notify_nary_get_widths (outputs given: %s)" % a[1:4])
        elif name == "setnr":
            self.f[(a[0], "nr")] = a[1]
        elif name == "getnr":
            return expect([self.f.get((a[0], "nr"))], "sc_notify_ranges_get_num_ranges")
        elif name == "setpk":
            self.f[(a[0], "pk")] = a[1]
        elif name == "getpk":
            return expect([self.f.get((a[0], "pk"))], "sc_notify_ranges_get_package_id")
        elif name == "setcb":
            self.f[(a[0], "cb")] = (a[1], a[2])
        elif name == "getcb":
            st = self.f.get((a[0], "cb"))
            return None if st is None else expect(list(st), "sc_notify_superset_get_callback")
        elif name == "defaults":
            self.dflt = dict(t=a[0], e=a[1], w=(a[2], a[3], a[4]), n=a[5])
        elif name == "shset":
            self.shmem[a[0]] = a[1]
        elif name == "shget":
            return expect([self.shmem.get(a[0])], "sc_shmem_get_type")
        elif name in ("spacing", "spacingu"):
            c1 = max(14, 20 if a[0] < 0 else a[0])
            return expect([c1, max(c1 + 6, 32 if a[1] < 0 else a[1])], "columns of sc_options_print_usage after sc_options_set_spacing")
        elif name == "spacing0":
            return expect([20, 32], "default columns of sc_options_print_usage")
        return None


def part2_compare(ctx, label, mpi, scen, impl, model, stats):
    shmem = {}
    nbad = ndis = 0
    perkey = {}
    for i, line in enumerate(scen):
        toks = [t for t in line.split(";") if t.strip()]
        ig = impl[i].split("|") if i < len(impl) else []
        mg = model[i].split("|") if model is not None and i < len(model) else None
        if len(ig) != len(toks):
            ctx.tie_broken("c20 harness output (%s)" % label, "scenario %d: %d operations, %d outputs" % (i, len(toks), len(ig)))
            continue
        orc = AccOracle(mpi, shmem)
        for j, tok in enumerate(toks):
            dev = orc.op(tok, ig[j])
            name = tok.split()[0]
            if name.startswith("get") or name in ("shget", "spacing", "spacing0", "spacingu"):
                stats["getter_calls"] += 1
            if name in ("use", "usev", "usevn", "shuse", "spacingu"):
                stats["use_calls"] = stats.get("use_calls", 0) + 1
            elif name.startswith("set") or name == "shset":
                stats["setter_calls"] += 1
            if dev is not None:
                key = "accessor:%s" % name
                if name == "shget" and not mpi:
                    key = "accessor:shmem-serial"
                if key != "accessor:shmem-serial":
                    nbad += 1
                perkey[key] = perkey.get(key, 0) + 1
                if perkey[key] <= 2:
                    ctx.violation(key, "libsc (%s) operation %d '%s' of scenario '%s...': %s" % (label, j, tok, line[:90], dev),
                                  dict(scenario=line, op_index=j, variant=label, impl=impl[i][:1500]))
            if mg is not None and (j >= len(mg) or mg[j] != ig[j]):
                ndis += 1
                if ndis <= 3:
                    ctx.tie_broken("correspondence model/libsc (%s)" % label,
                                   "scenario '%s...' op %d '%s': libsc '%s', model '%s'" % (line[:100], j, tok, ig[j], mg[j] if j < len(mg) else "<missing>"))
        ctx.count_case((label, line), nontrivial=True)
    stats["scenarios"] += len(scen)
    stats["oracle_deviations"] = stats.get("oracle_deviations", 0) + nbad
    stats["model_disagreements"] = stats.get("model_disagreements", 0) + ndis


def run(ctx):
    import genall
    # let the translator group and this check share the library builds
    genall.GROUPS["ApiC20"].scratch = ctx.scratch
    import importlib.util
    spec = importlib.util.spec_from_file_location("groups_C20_mod", os.path.join(vlib.TOOLS, "c2g", "groups_C20.py"))
    g20 = importlib.util.module_from_spec(spec)
    spec.loader.exec_module(g20)
    st = genall.run(["ApiC20", "AccessC20", "UseC20"])
    for g, s in st.items():
        ctx.log("c2g", g, s)
        if s.startswith("FAILED"):
            ctx.tie_broken("translator group " + g, s)
    survey = getattr(genall.GROUPS["ApiC20"], "last_survey", None)
    if survey is None:
        # the group failed before producing lists: survey here so that a concrete failing input can still be named
        try:
            survey = g20.survey(vlib, ctx.scratch, vlib.REPO)
        except Exception as e:
            ctx.tie_broken("survey of declarations and symbols", "%s: %s" % (type(e).__name__, str(e)[-800:]))
            survey = []
    for name, d in survey:
        for rel, err in d["errors"]:
            ctx.tie_broken("installed header %s (%s)" % (rel, name), "does not parse: %s" % err[-400:])
    summary = part1(ctx, survey, g20)
    ctx.log("part 1: %s" % ", ".join("%s %d+%d declared / %d undefined" % (n, s["declared_functions"], s["declared_objects"], len(s["undefined"]))
                                      for n, s in summary.items() if isinstance(s, dict)))
    ctx.props()

    # ---- part 2 -------------------------------------------------------------------------------
    harness = os.path.join(vlib.TOOLS, "harness", "c20_harness.c")
    env = dict(os.environ, ASAN_OPTIONS="detect_leaks=0")
    pairs = gen_scenarios(ctx.rng, 400 if ctx.quick else 8000)
    if ctx.replay:
        rp = json.load(open(ctx.replay)).get("replay", {})
        if "scenario" in rp:
            ser = str(rp.get("variant", "")).startswith("serial")
            pairs = [(rp["scenario"] if not ser else "spacing0", rp["scenario"] if ser else "spacing0")] + pairs[:30]
    scen_mpi, scen_ser = [a for a, _ in pairs], [b for _, b in pairs]
    stats = dict(getter_calls=0, setter_calls=0, scenarios=0)
    try:
        mexe = ctx.model("c20")
    except vlib.BuildError as e:
        ctx.tie_broken("c20 model build (generated definitions do not extract/compile)", str(e)[-1500:])
        mexe = None
    model_cache = {}

    def model_lines(mpi, scen):
        if mexe is None:
            return None
        key = (mpi, id(scen))
        if key not in model_cache:
            rc, out, err = ctx.run_lines([mexe] + (["mpi"] if mpi else []), "\n".join(scen) + "\n", timeout=600)
            if rc != 0:
                ctx.tie_broken("c20 model run", "exit %s: %s" % (rc, err[-800:]))
                out = None
            model_cache[key] = out
        return model_cache[key]

    def run_impl(cmd, label, mpi, scen, nranks=1):
        # the scenarios travel as a file (mpirun's stdin forwarding has crashed mpirun itself with long inputs)
        scenfile = os.path.join(ctx.scratch, "c20_scenarios_%s.txt" % ("mpi" if mpi else "serial"))
        open(scenfile, "w").write("\n".join(scen) + "\n")
        outbase = scenfile + ".out"
        for r in range(1, nranks):
            if os.path.exists("%s.%d" % (outbase, r)):
                os.unlink("%s.%d" % (outbase, r))
        rc, impl, err = ctx.run_lines(cmd + [scenfile, outbase], "", timeout=900, env=env)
        if rc != 0 and mpi and re.search(r"mca_iof_hnp|orte_iof|mpirun\(\+0x", err):
            # the launcher died, not the program: run once more
            ctx.notes["mpirun_relaunched"] = ctx.notes.get("mpirun_relaunched", 0) + 1
            rc, impl, err = ctx.run_lines(cmd + [scenfile, outbase], "", timeout=900, env=env)
        impl = [l for l in impl]
        notes = [l for l in err.split("\n") if "c20_harness: note" in l]
        if notes:
            # results of the rounds themselves are C01/C02's subject: recorded, not judged here
            ctx.notes.setdefault("round_result_notes", []).extend(notes[:5])
        if rc != 0:
            k = min(max(0, len(impl) - 1), len(scen) - 1)
            ctx.violation("crash:%s" % label.replace(" ", "_"), "libsc (%s) ends the process (exit %s) in scenario '%s': %s" % (label, rc, scen[k][:160], err.strip()[-300:].replace("\n", " | ")),
                          dict(scenario=scen[k], variant=label, stderr=err[-1500:]))
            return
        part2_compare(ctx, label if nranks == 1 else label + " rank 0 of %d" % nranks, mpi, scen, impl, model_lines(mpi, scen), stats)
        for r in range(1, nranks):
            try:
                other = open("%s.%d" % (outbase, r)).read().split("\n")
            except OSError as e:
                ctx.tie_broken("c20 harness output (%s)" % label, "rank %d wrote no output: %s" % (r, e))
                continue
            part2_compare(ctx, label + " rank %d of %d" % (r, nranks), mpi, scen, other, model_lines(mpi, scen), stats)

    v = ctx.variant(mpi="off", san=True)
    exe = ctx.cc([harness], os.path.join(ctx.scratch, "c20_serial"), v)
    run_impl([exe], "serial release", False, scen_ser)
    NP = 3
    try:
        vm = ctx.variant(mpi="ompi", san=False)
        exem = ctx.cc([harness], os.path.join(ctx.scratch, "c20_mpi"), vm)
        run_impl(["mpirun", "--allow-run-as-root", "--oversubscribe", "-np", str(NP), exem], "ompi release", True, scen_mpi, NP)
    except vlib.BuildError as e:
        ctx.tie_broken("c20 OpenMPI build", str(e)[-1000:])
    scen = scen_mpi

    ctx.cov["disagreements_checked"] = stats["scenarios"]
    ctx.cov["exhaustive"] = False
    ctx.cov["rule"] = ("part 1: one evaluation per declared name and configuration (clang declaration versus nm symbol, plus one link of a program "
                       "referencing all of them per configuration and one failing link per recorded name); part 2: one evaluation per scenario and "
                       "build: systematic scenarios (all 8 NULL masks of the width getter with pairwise different widths, all types incl. DEFAULT, "
                       "boundaries 0/1/2^32/2^63/2^64-1 of the eager threshold, INT_MAX, every callback/context pair, spacing around the column "
                       "boundaries 13/14/20/32); set-USE-get scenarios: per communicator the first / later rounds (sc_notify_payload with no receivers, "
                       "itself, the next rank, every rank; with / without payload, in place, senders NULL; sc_notify_payloadv) between setter and getter for the "
                       "n-ary widths (every NULL mask after the first round, public defaults changed between selection and round, controller born n-ary), "
                       "number of ranges / package id, superset callback / context, eager threshold (boundaries) / statistics object (attached, real) / type / "
                       "communicator for every type except RSX, two controllers interleaved; sc_shmem_malloc/write/allgather/prefix/memcpy/free between "
                       "sc_shmem_set_type and get; sc_options_parse / print_usage / print_summary / more options between set_spacing and the observed usage "
                       "message; plus seeded histories over 4 controllers with rounds wherever the stored settings make one legal.  The OpenMPI build runs "
                       "on 3 ranks (every rank executes every operation, each rank's output is compared); the serial build runs the same scenarios without "
                       "the rounds its MPI stubs cannot run; distinct = distinct (build+rank, scenario)")
    ctx.notes["part1"] = summary
    ctx.notes["part2"] = stats
    ctx.notes["input_distribution"] = ("histories: 8-60 operations; per step: creation if the handle is free (15% a change of the public defaults instead), "
                                       "else destroy 3%, set_type 13%, get_type 4%, eager set/get 10%, stats set/get 8%, comm 2%, a round 18% (if legal), then type specific "
                                       "setter/getter (widths >= 2 incl. INT_MAX, num_ranges >= 1, package id >= -1, callbacks 0..3 x contexts 0..7) or "
                                       "shmem/spacing operations (incl. shuse, spacingu); when the stored settings allow a round (widths in [2,64], 1..64 ranges, callback set, "
                                       "type not RSX) a round has receiver pattern uniform in none/self/next/all; payload none x2, separate x2, in place, "
                                       "senders NULL, payloadv; 60% of the width setters use small widths so that rounds become legal; 30% of the scenarios run "
                                       "after sc_init (sc_package_id = 0)")
    ctx.notes["mpi_ranks"] = NP
    for s in (scen[0], scen[5], scen[32], scen[-1]):
        ctx.sample({"scenario": s[:240]})
    ctx.cov["trusted_base"] = ["clang-14's JSON AST for the declarations, binutils nm and ld for the symbols, this check's reading of the CMake install rule "
                               "(validated once against a real `cmake --install`)",
                               "tools/c2g with the accessor extension of tools/c2g/groups_C20.py (mitigated by the differential run)",
                               "hand-written model of sc_notify_new / set_type / the union, of the shmem attribute and of the usage columns (C20/AccessModel.v)",
                               "configurations are emulated with tools/build/sc_config.h.in instead of running CMake (sources and install rule are read from the CMake files)",
                               "tools/c2g/slicelib.py (calls as ghost outputs) for the slices of sc_notify_new / set_type / nary_init / ranges_init and the AST census of "
                               "stores into configuration fields (tools/c2g/groups_C20.py, group UseC20; completeness of the function list checked against nm of the object file)",
                               "the model's `a round is the identity on the configuration` (C20/AccessModel.v OUse/OUseV/OShUse/OSpacingU) - tied by the census theorem "
                               "C20_gen_writers and by the differential run on 1 (serial) and 3 (OpenMPI) processes"]
    ctx.assumptions += ["accessors are called on a controller of the documented type; superset callbacks are read only after they were set (the union is not initialised for that type)",
                        "n-ary widths >= 2, number of ranges >= 1, package id >= -1, spacing below the line buffer size",
                        "declarations produced by macro expansions (sc_extern_c_hack_3/4 of SC_EXTERN_C_BEGIN/END) are not API and are ignored",
                        "a notification round is run only on a controller whose settings describe a runnable algorithm (n-ary widths in [2,64], 1..64 ranges, "
                        "package id >= -1, superset callback not NULL, statistics NULL or a real object) and is followed by a barrier (back-to-back findings of C01/C02); "
                        "SC_NOTIFY_RSX rounds are not run (MPI_Win_create fails in this Open MPI installation)"]
    return "proof"
