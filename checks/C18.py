"""C18 - pure helpers.  T1: definitions regenerated from /repo, theorems re-checked against them,
translator validation = generated functions (extracted) vs compiled C on grids + random arguments,
independent Python oracle on every implementation output."""
import os, sys, json, bisect, itertools
import vlib
sys.path.insert(0, os.path.join(vlib.TOOLS, "c2g"))

M64 = 1 << 64
M128 = 1 << 128


def hx(v):
    return ("-%x" % -v) if v < 0 else ("%x" % v)


def s_wrap(v, bits):
    v &= (1 << bits) - 1
    return v - (1 << bits) if v >> (bits - 1) else v


def oracle(op, a):
    """independent specification; returns expected output text or None (not judged)"""
    if op in ("add", "addi"):
        v = ((a[0] << 64 | a[1]) + (a[2] << 64 | a[3])) % M128
    elif op in ("sub", "subi"):
        v = ((a[0] << 64 | a[1]) - (a[2] << 64 | a[3])) % M128
    elif op in ("or", "ori"):
        v = (a[0] << 64 | a[1]) | (a[2] << 64 | a[3])
    elif op in ("and", "andi"):
        v = (a[0] << 64 | a[1]) & (a[2] << 64 | a[3])
    elif op in ("shrio",):
        v = (a[0] << 64 | a[1]) >> min(a[2], 200)
    elif op in ("shlio",):
        v = ((a[0] << 64 | a[1]) << min(a[2], 200)) % M128
    elif op == "negio":
        v = M128 - 1 - (a[0] << 64 | a[1])
    elif op in ("orra", "orrb"):
        v = (a[0] << 64 | a[1]) | (a[2] << 64 | a[3])
    elif op in ("andra", "andrb"):
        v = (a[0] << 64 | a[1]) & (a[2] << 64 | a[3])
    elif op in ("orrab", "andrab"):
        v = a[0] << 64 | a[1]
    elif op == "addab":
        v = (2 * (a[0] << 64 | a[1])) % M128
    elif op == "subab":
        v = 0
    elif op == "addia":
        v = (2 * (a[0] << 64 | a[1])) % M128
    elif op == "subia":
        v = 0
    elif op in ("oria", "andia"):
        v = a[0] << 64 | a[1]
    elif op == "neg":
        v = M128 - 1 - (a[0] << 64 | a[1])
    elif op == "shr":
        v = (a[0] << 64 | a[1]) >> min(a[2], 200)
    elif op == "shl":
        v = ((a[0] << 64 | a[1]) << min(a[2], 200)) % M128
    elif op == "set":
        v = (a[0] << 64 | a[1]) | (1 << a[2])
    elif op in ("init", "copy"):
        v = a[0] << 64 | a[1]
    elif op == "chk":
        return hx(((a[0] << 64 | a[1]) >> a[2]) & 1)
    elif op == "cmp":
        x, y = (a[0] << 64 | a[1]), (a[2] << 64 | a[3])
        return hx((x > y) - (x < y))
    elif op == "eq":
        return hx(int((a[0], a[1]) == (a[2], a[3])))
    elif op == "bias":
        m, l, i, t = a
        w = 1 << (m - l)
        lo, hi = i * w, (i + 1) * w - 1
        return hx(min(max(t, lo), hi))
    elif op == "lb":
        t, g, n = a[0], a[1], a[2]
        arr = a[3:3 + n]
        k = bisect.bisect_left(arr, t)
        return hx(k if k < n else -1)
    elif op == "br":
        key, n = a[0], a[1]
        arr = a[2:]
        for k in range(n):
            if arr[k] <= key < arr[k + 1]:
                return hx(k)
        return hx(n)
    elif op == "pow":
        return hx(s_wrap(pow(a[0], a[1], 1 << 32), 32))
    elif op == "pow64":
        return hx(s_wrap(pow(a[0], a[1], 1 << 64), 64))
    elif op == "pow64u":
        return hx(pow(a[0], a[1], M64))
    elif op.startswith("log2_"):
        return hx(a[0].bit_length() - 1) if a[0] > 0 else None
    elif op in ("ru32", "ru64"):
        x = a[0]
        if x <= 0:
            return hx(0)
        return hx(1 << (x - 1).bit_length())
    elif op == "min":
        return hx(min(a))
    elif op == "max":
        return hx(max(a))
    else:
        return None
    return "%x %x" % (v >> 64, v & (M64 - 1))


def gen_cases(ctx):
    rng = ctx.rng
    cases = []
    W = [0, 1, 2, 3, (1 << 31) - 1, 1 << 31, (1 << 32) - 1, 1 << 32, (1 << 63) - 1, 1 << 63, (1 << 63) + 1, M64 - 2, M64 - 1,
         0x5555555555555555, 0xaaaaaaaaaaaaaaaa]
    def rw():
        k = rng.random()
        if k < 0.3:
            return rng.choice(W)
        if k < 0.5:
            return (1 << rng.randrange(64)) + rng.choice([-1, 0, 1]) & (M64 - 1)
        return rng.getrandbits(64)
    grid = [(h, l) for h in W[:13:2] + [W[12]] for l in (0, 1, (1 << 63), M64 - 1)]
    nrand = 300 if ctx.quick else 6000
    # the in-place functions called with the same object for both arguments ("a == b is allowed")
    for op in ("addia", "subia", "oria", "andia"):
        for (ah, al) in grid:
            cases.append((op, [ah, al]))
        for _ in range(nrand // 2):
            cases.append((op, [rw(), rw()]))
    # the documented aliasing of the out-of-place functions (result == input, result == a / b, a == b)
    for op in ("negio", "orrab", "andrab", "addab", "subab"):
        for (ah, al) in grid:
            cases.append((op, [ah, al]))
        for _ in range(nrand // 4):
            cases.append((op, [rw(), rw()]))
    for op in ("orra", "orrb", "andra", "andrb"):
        for (ah, al) in grid[::3]:
            for (bh, bl) in grid[::4]:
                cases.append((op, [ah, al, bh, bl]))
        for _ in range(nrand // 4):
            cases.append((op, [rw(), rw(), rw(), rw()]))
    for op in ("shrio", "shlio"):
        for (ah, al) in grid[::2]:
            for sc in (0, 1, 31, 63, 64, 65, 100, 127, 128, 130):
                cases.append((op, [ah, al, sc]))
        for _ in range(nrand // 2):
            cases.append((op, [rw(), rw(), rng.randrange(0, 131)]))
    for op in ("add", "sub", "addi", "subi", "or", "and", "ori", "andi", "cmp", "eq"):
        for (ah, al) in grid[::3]:
            for (bh, bl) in grid[::4]:
                cases.append((op, [ah, al, bh, bl]))
        for _ in range(nrand):
            x = [rw(), rw(), rw(), rw()]
            if op in ("cmp", "eq") and rng.random() < 0.4:
                x[2] = x[0]
                if rng.random() < 0.5:
                    x[3] = x[1]
            cases.append((op, x))
    shifts = list(range(0, 131)) + [191, 192, 255, 256, 1000, (1 << 31) - 1]
    for op in ("shr", "shl"):
        for (h, l) in grid[:: (2 if ctx.quick else 1)] + [(rw(), rw()) for _ in range(6 if ctx.quick else 60)]:
            for s in shifts:
                cases.append((op, [h, l, s]))
    for op in ("chk", "set"):
        for (h, l) in grid[::2] + [(rw(), rw()) for _ in range(4 if ctx.quick else 40)]:
            for e in range(128):
                cases.append((op, [h, l, e]))
    for op in ("neg", "init", "copy"):
        for (h, l) in grid + [(rw(), rw()) for _ in range(50)]:
            cases.append((op, [h, l]))
    # bias: exhaustive for maxlevel <= 6 (the domain stated in the property), plus larger levels sampled
    for m in range(0, 7):
        for l in range(0, m + 1):
            for i in range(1 << l):
                for t in range(1 << m):
                    cases.append(("bias", [m, l, i, t]))
    for _ in range(nrand):
        m = rng.randrange(7, 31)
        l = rng.randrange(0, m + 1)
        cases.append(("bias", [m, l, rng.randrange(1 << l), rng.randrange(1 << m)]))
    # lower bound: all sorted arrays up to length 5 over 0..3, all targets and guesses
    maxlen = 4 if ctx.quick else 6
    for n in range(0, maxlen + 1):
        for arr in itertools.combinations_with_replacement(range(0, 4), n):
            for t in range(-1, 5):
                for g in (range(n) if n else [0]):
                    cases.append(("lb", [t, g, n] + list(arr)))
    for _ in range(nrand):
        n = rng.randrange(1, 60)
        arr = sorted(rng.randrange(-50, 50) for _ in range(n))
        cases.append(("lb", [rng.randrange(-55, 55), rng.randrange(n), n] + arr))
    for _ in range(20):
        n = rng.randrange(1, 40)
        arr = sorted(rng.choice([-(1 << 63), (1 << 63) - 1, 0, rng.getrandbits(62)]) for _ in range(n))
        cases.append(("lb", [rng.choice(arr + [0, (1 << 63) - 1, -(1 << 63)]), rng.randrange(n), n] + arr))
    # range search: arrays with n + 1 entries
    for n in range(0, maxlen + 1):
        for arr in itertools.combinations_with_replacement(range(0, 4), n + 1):
            for key in range(-1, 5):
                cases.append(("br", [key, n] + list(arr)))
    for _ in range(nrand):
        n = rng.randrange(1, 60)
        arr = sorted(rng.randrange(-50, 50) for _ in range(n + 1))
        cases.append(("br", [rng.randrange(-55, 55), n] + arr))
    # powers
    for b in list(range(-12, 13)) + [46340, 46341, -46341, 65536, (1 << 31) - 1, -(1 << 31)]:
        for e in list(range(0, 36)) + [63, 64, 100, (1 << 31) - 1]:
            cases.append(("pow", [b, e]))
    for b in list(range(-12, 13)) + [3037000499, 3037000500, -3037000500, 1 << 32, (1 << 63) - 1, -(1 << 63)]:
        for e in list(range(0, 70)) + [127, 128, (1 << 31) - 1]:
            cases.append(("pow64", [b, e]))
            if b >= 0:
                cases.append(("pow64u", [b, e]))
    for _ in range(nrand):
        cases.append(("pow64u", [rng.getrandbits(64), rng.randrange(0, 80)]))
    # logarithms and round-up
    for x in range(0, 256):
        cases.append(("log2_8", [x]))
    for x in (range(1, 65536) if not ctx.quick else list(range(1, 1030)) + [rng.randrange(1, 65536) for _ in range(500)] + [65535, 32768, 32767]):
        cases.append(("log2_16", [x]))
    for k in range(0, 64):
        for d in (-1, 0, 1):
            x = (1 << k) + d
            if 0 < x < (1 << 31):
                cases.append(("log2_32", [x])); cases.append(("ru32", [x])) if x <= (1 << 30) else None
            if 0 < x < (1 << 32):
                cases.append(("log2_32u", [x]))
            if 0 < x < (1 << 63):
                cases.append(("log2_64", [x])); cases.append(("ru64", [x])) if x <= (1 << 62) else None
            if 0 < x < (1 << 64):
                cases.append(("log2_64u", [x]))
    for _ in range(nrand):
        cases.append(("log2_32", [rng.randrange(1, 1 << 31)]))
        cases.append(("log2_32u", [rng.randrange(1, 1 << 32)]))
        cases.append(("log2_64", [rng.randrange(1, 1 << 63)]))
        cases.append(("log2_64u", [rng.randrange(1, 1 << 64)]))
        cases.append(("ru32", [rng.randrange(1, (1 << 30) + 1)]))
        cases.append(("ru64", [rng.randrange(1, (1 << 62) + 1)]))
    for x in (0, -1, -5, -(1 << 31)):
        cases.append(("ru32", [x])); cases.append(("ru64", [x]))
    for _ in range(100):
        cases.append(("min", [rng.randrange(-100, 100), rng.randrange(-100, 100)]))
        cases.append(("max", [rng.randrange(-(1 << 31), 1 << 31), rng.randrange(-(1 << 31), 1 << 31)]))
    return cases


def run(ctx):
    import genall
    st = genall.run(["Uint128", "Search", "Functions", "Macros"])
    for g, s in st.items():
        ctx.log("c2g", g, s)
        if s.startswith("FAILED"):
            ctx.tie_broken("translator group " + g, s)
    ctx.props()
    # correspondence: generated (extracted) functions vs compiled C, oracle on every C output
    v = ctx.variant(mpi="off", san=True, cflags_extra=("-fwrapv", "-fno-sanitize=signed-integer-overflow,shift"))
    exe = ctx.cc([os.path.join(vlib.TOOLS, "harness", "c18_harness.c")], os.path.join(ctx.scratch, "c18_harness"), v)
    cases = gen_cases(ctx)
    if ctx.replay:
        rp = json.load(open(ctx.replay))
        r = rp.get("replay", {})
        if "op" in r:
            cases = [(r["op"], [int(x, 16) for x in r["args"]])] + cases[:10]
    text = "\n".join(op + " " + " ".join(hx(x) for x in a) for op, a in cases) + "\n"
    rc, impl, err = ctx.run_lines([exe], text, timeout=900, env=dict(os.environ, ASAN_OPTIONS="detect_leaks=0"))
    if rc != 0:
        ctx.tie_broken("c18 harness run", "exit %s: %s" % (rc, err[-1500:]))
    try:
        mexe = ctx.model("c18")
        rc2, model, err2 = ctx.run_lines([mexe], text, timeout=900)
        if rc2 != 0:
            ctx.tie_broken("c18 model run", "exit %s: %s" % (rc2, err2[-1500:]))
    except vlib.BuildError as e:
        ctx.tie_broken("c18 model build (generated definitions do not extract/compile)", str(e)[-1500:])
        model = []
    impl = [l for l in impl if l != ""]
    model = [l for l in model if l != ""]
    dist = {}
    nviol = 0
    ndis = 0
    for i, (op, a) in enumerate(cases):
        dist[op] = dist.get(op, 0) + 1
        ctx.count_case((op, tuple(a)), nontrivial=any(x not in (0, 1) for x in a))
        io = impl[i] if i < len(impl) else "<missing>"
        mo = model[i] if i < len(model) else "<missing>"
        exp = oracle(op, a)
        if exp is not None and io != exp:
            nviol += 1
            if nviol <= 5:
                ctx.violation("%s:%s" % (op, ",".join(hx(x) for x in a))[:70],
                              "libsc %s(%s) returned %s, definition gives %s" % (op, " ".join(hx(x) for x in a), io, exp),
                              dict(op=op, args=[hx(x) for x in a], impl=io, expected=exp, model=mo))
        if model and io != mo:
            ndis += 1
            if ndis <= 3:
                ctx.tie_broken("translator validation %s" % op, "case %s %s: C gives %s, generated Gallina gives %s" % (op, " ".join(hx(x) for x in a), io, mo))
    ctx.cov["disagreements_checked"] = len(cases)
    ctx.cov["rule"] = ("boundary grids x shift counts 0..130 and beyond, exhaustive bias for maxlevel<=6, exhaustive sorted arrays "
                       "(length<=%d over 4 values) x targets x guesses, powers incl. wrap-around, log2/roundup at 2^k-1,2^k,2^k+1, plus "
                       "seeded random operands; a case is non-trivial if some argument is not 0/1; distinct = distinct (op,args)" % (4 if ctx.quick else 6))
    ctx.cov["exhaustive"] = False
    ctx.notes["op_distribution"] = dist
    ctx.notes["translator_disagreements"] = ndis
    for c in cases[:: max(1, len(cases) // 5)][:5]:
        ctx.sample({"case": c[0] + " " + " ".join(hx(x) for x in c[1][:8])})
    ctx.cov["trusted_base"] = ["tools/c2g translator and clang-14's JSON AST (mitigated by the differential run of this check)",
                               "signed-overflow UB inside sc_intpow squaring is modelled as two's complement wrap (harness built with -fwrapv)"]
    ctx.assumptions += ["parameters are in the range of their C types; shift counts as written",
                        "comparison callback of sc_bsearch_range is consistent with a sorted integer array (hypotheses of C18_bsearch_range)"]
    return "proof"
