"""C02 - notify delivers every payload intact.  Proof: generated slot formula (4 sites) = ceil(size/4), pack/unpack,
offsets, pair-preserving sort; generated epilogues (sort call, senders extraction, per-sender copy loop) = the cleanup model,
which delivers every item at its sender's position for every item size.  Tie: T1 + the real code on the simulated MPI with an oracle that recomputes, per
(sender, receiver), the bytes that must arrive at the position of that sender."""
import os, sys, json
import vlib, mpitrace
import notify_common as nc
sys.path.insert(0, os.path.join(vlib.TOOLS, "c2g"))


# item sizes by size class: everything small, and windows around the powers of two 64 .. 4096 (cache line, eager limits of MPI
# implementations, page) and around libsc's default eager threshold 1024; any code that treats sizes by class has its boundary there
SIZE_WINDOWS = [list(range(59, 70)), [100], list(range(124, 133)), list(range(252, 261)), list(range(508, 517)), [1000],
                list(range(1020, 1029)), list(range(4092, 4101))]
WINDOW_SIZES = [s for w in SIZE_WINDOWS for s in w]
SAMPLED_WINDOWS = [list(range(2044, 2053)), list(range(8188, 8197))]      # three sizes of each per algorithm and run
SMALL_SIZES = list(range(1, 41))
WILDCARD_TYPES = (4, 5, 6, 8)       # pcx rsx nbx superset: the order of arrival at a receiver is decided by the scheduler


def size_class(sz):
    if sz <= 40:
        return "1..40"
    for w in SIZE_WINDOWS + SAMPLED_WINDOWS:
        if w[0] <= sz <= w[-1]:
            return "%d..%d" % (w[0], w[-1]) if len(w) > 1 else str(w[0])
    return "other"


def hub_pattern(rng, P, k):
    """a hub rank (lowest, highest or any rank) with k senders, light traffic elsewhere; returns (R, hub)"""
    hub = rng.choice([0, P - 1, rng.randrange(P)])
    others = [q for q in range(P) if q != hub]
    snd = set(rng.sample(others, min(len(others), k)))
    if rng.random() < 0.15:
        snd.add(hub)
    R = []
    for p in range(P):
        s = {hub} if p in snd else set()
        if rng.random() < 0.3:
            s |= set(rng.sample(range(P), min(P, rng.choice([1, 1, 2]))))
        R.append(sorted(s))
    return R, hub


def hub_case(rng, typ, sz, sorted_, paymode=1, eager=None):
    if rng.random() < 0.1:
        # number-of-senders classes: 8, 9, 15, 16, 17 and "everybody"
        P = rng.choice([12, 17, 20, 33])
        k = min(P - 1, rng.choice([8, 9, 15, 16, 17, P - 1]))
    else:
        P = rng.choice([4, 5, 5, 6, 7, 9])
        k = rng.choice([3, 3, 3, 4, 4, 5, 6])
    if eager is None:
        eager = rng.random() < 0.75
    thr = rng.choice([sz, sz + 1, max(sz, 1024), 1 << 20]) if eager else rng.choice([0, sz - 1])
    c = nc.make_case(rng, P, typ, paymode=paymode, paysize=sz, threshold=max(thr, 0), sorted_=sorted_, style="empty")
    R, hub = hub_pattern(rng, P, k)
    c.patterns = [R]
    c.lengths = [[[rng.choice([0, 1, 1, 2, 3]) for _ in R[p]] for p in range(P)]]
    c.adv = rng.choice([0, 0, 0, 1, 2, 2, 3, 4, 5, 7, 7, 6])
    c.hub = hub
    return c


def sweep_cases(ctx):
    """ALL nine algorithms x every item size of the windows (sorted output) and of 1..40, on hub patterns"""
    rng = ctx.rng
    cases = []
    reps = 1 if ctx.quick else 4
    for typ in range(9):
        for _ in range(reps):
            for sz in WINDOW_SIZES:
                cases.append(hub_case(rng, typ, sz, 1))
                if rng.random() < 0.34:
                    cases.append(hub_case(rng, typ, sz, 0))
            for w in SAMPLED_WINDOWS:
                for sz in rng.sample(w, 3):
                    cases.append(hub_case(rng, typ, sz, 1))
            for sz in SMALL_SIZES:
                cases.append(hub_case(rng, typ, sz, rng.randrange(2)))
            for sz in rng.sample(WINDOW_SIZES, 10) + rng.sample(SMALL_SIZES, 4):
                cases.append(hub_case(rng, typ, sz, rng.randrange(2), paymode=2))
    return cases


def arrival_order(case, run):
    """order in which the hub's senders were first received from (trace of the hub rank), None if not all were seen"""
    h = case.hub
    exp = [q for q in range(case.P) if h in case.patterns[0][q]]
    seen = []
    for e in sorted([e for e in run.trace if e.get("r") == h and e.get("f") == "MPI_Recv"], key=lambda e: e.get("s", 0)):
        m = e.get("msrc")
        if m in exp and m not in seen:
            seen.append(m)
    return seen if len(seen) == len(exp) else None


def gen_cases(ctx):
    rng = ctx.rng
    cases = []
    Ps = [1, 2, 3, 4, 5, 7, 8, 9, 12, 16, 17] if ctx.quick else list(range(1, 26)) + [31, 32, 33, 48, 64]
    sizes = list(range(1, 14)) + [15, 16, 17, 24, 31, 40] + WINDOW_SIZES
    reps = 1 if ctx.quick else 4
    for typ in range(9):
        for P in Ps:
            for _ in range(reps):
                # fixed-size items, below and above the eager threshold
                sz = rng.choice(sizes)
                thr = rng.choice([0, sz - 1, sz, sz + 1, 1024]) if rng.random() < 0.7 else 1024
                cases.append(nc.make_case(rng, P, typ, paymode=1, paysize=sz, threshold=max(thr, 0)))
                # variable slices
                cases.append(nc.make_case(rng, P, typ, paymode=2, paysize=rng.choice([1, 2, 3, 4, 5, 8, 12])))
    for typ in range(9):
        for _ in range(2 if ctx.quick else 8):
            P = rng.choice([2, 3, 5, 9])
            cases.append(nc.make_case(rng, P, typ, ncalls=rng.choice([2, 3]), paymode=rng.choice([1, 2]), paysize=rng.choice([1, 4, 6, 9]), barrier=rng.randrange(2)))
    for api in (3, 4):
        for _ in range(4 if ctx.quick else 20):
            cases.append(nc.make_case(rng, rng.choice([1, 2, 5, 9, 13]), 0, api=api, paymode=1, paysize=rng.choice(sizes)))
    # the caller reuses its output arrays over the calls of a case / passes non-empty output arrays
    cases += nc.reuse_cases(rng, [1, 2, 2], 8 if ctx.quick else 48)
    return cases


def run(ctx):
    import genall
    st = genall.run(["NotifyC01", "NotifyC02"])
    for g, s in st.items():
        if s.startswith("FAILED"):
            ctx.tie_broken("translator group " + g, s)
    ctx.props()
    cases = gen_cases(ctx)
    sweep = sweep_cases(ctx)
    traced = [c for c in sweep if c.type in WILDCARD_TYPES]
    cases += [c for c in sweep if c.type not in WILDCARD_TYPES]
    if ctx.replay:
        rp = json.load(open(ctx.replay)).get("replay", {})
        if "case" in rp:
            cases = [nc.Case(**rp["case"])] + cases[:5]
            traced = traced[:5]
    dist = {"type": {}, "paymode": {}, "size_class": {}, "size_class_by_type_sorted": {}, "above_threshold": 0, "multi_call": 0, "P": {}, "adversary": {}}
    arrival = {}

    def judge_all(cases, runs):
        for c, r in zip(cases, runs):
            t = nc.TYPES[c.type]
            dist["type"][t] = dist["type"].get(t, 0) + 1
            dist["paymode"][c.paymode] = dist["paymode"].get(c.paymode, 0) + 1
            sc = size_class(c.paysize)
            dist["size_class"][sc] = dist["size_class"].get(sc, 0) + 1
            if c.api == 0 and c.paymode == 1 and c.sorted:
                k2 = "%s sorted %s" % (t, sc)
                dist["size_class_by_type_sorted"][k2] = dist["size_class_by_type_sorted"].get(k2, 0) + 1
            dist["P"][c.P] = dist["P"].get(c.P, 0) + 1
            dist["adversary"][c.adv] = dist["adversary"].get(c.adv, 0) + 1
            dist["above_threshold"] += 1 if (c.paymode == 1 and c.paysize > c.threshold) else 0
            dist["multi_call"] += 1 if c.ncalls > 1 else 0
            ctx.count_case(c.text(), nontrivial=c.P > 1 and any(len(x) for pat in c.patterns for x in pat))
            for kind, text, detail in nc.judge(c, r):
                kk = nc.known_key(c, kind, text)
                key = kk or ("%s:%s" % (kind, c.key()))
                if not kk and c.paymode and c.paysize > 40:
                    key += "-size" + size_class(c.paysize)
                rep = dict(case=c.to_json(), kind=kind)
                rep.update(detail)
                ctx.violation(key, "%s [%s]" % (text, c.header()), rep)
            if r.trace and getattr(c, "hub", None) is not None and r.rc == 0:
                o = arrival_order(c, r)
                if o is not None and len(o) >= 3:
                    a = arrival.setdefault(t, dict(hubs=0, ascending=0, descending=0, other=0, sorted_output=0, senders_ge_8=0))
                    a["hubs"] += 1
                    a["senders_ge_8"] += 1 if len(o) >= 8 else 0
                    a["ascending" if o == sorted(o) else "descending" if o == sorted(o, reverse=True) else "other"] += 1
                    a["sorted_output"] += 1 if c.sorted else 0

    rc, runs, err = nc.run_cases(ctx, cases)
    if rc != 0:
        nc.crash_violation(ctx, cases, runs, rc, err)
    judge_all(cases, runs)
    # the wildcard algorithms of the sweep run with the trace on: the order of arrival at the hub is MEASURED, not assumed
    rc2, runs2, err2 = nc.run_cases(ctx, traced, trace=True)
    if rc2 != 0:
        nc.crash_violation(ctx, traced, runs2, rc2, err2, what="notify harness (size sweep, wildcard algorithms)")
    judge_all(traced, runs2)
    for t in [nc.TYPES[k] for k in WILDCARD_TYPES]:
        a = arrival.get(t, {})
        if not ctx.replay and (a.get("descending", 0) == 0 or a.get("other", 0) == 0):
            ctx.tie_broken("generator coverage", "no hub of %s with >= 3 senders received in descending / in mixed rank order: %s" % (t, a))
    if len(runs2) < len(traced):
        ctx.tie_broken("harness output", "%d of %d runs reported (size sweep)" % (len(runs2), len(traced)))
    if len(runs) < len(cases):
        ctx.tie_broken("harness output", "%d of %d runs reported" % (len(runs), len(cases)))
    # T2: the static sc_notify_merge of the working tree against the extracted int-level model, records with payload
    nc.merge_tie(ctx, [1, 1, 2, 3, 4, 10], 1500 if ctx.quick else 20000)
    # T3: every rank's trace of single calls with fixed-size items co-simulated against the extracted per-rank programs
    nc.cosim_tie(ctx, [1], 90 if ctx.quick else 1200,
                 sizes=[1, 2, 3, 4, 5, 7, 8, 9, 12, 13, 16] + [60, 61, 63, 64, 65, 68, 127, 128, 129, 255, 256, 257, 260])
    # T3: sc_notify_payloadv with pcx / rsx (variable slices, output offsets) against the extracted program censusv_core
    nc.cosimv_tie(ctx, 30 if ctx.quick else 400)
    ctx.cov["rule"] = ("sc_notify_payload / sc_notify_payloadv (+ sc_notify_ext, sc_notify_nary) on the simulated MPI: all 9 algorithm types; item sizes by size CLASS - every size "
                       "1..40 and every size of the windows 59..69, 124..132, 252..260, 508..516, 1020..1028, 4092..4100 (+ 100, 1000) for every algorithm with sorted output, "
                       "a third also unsorted, a sample with variable slices - on hub patterns (a rank with 3..6 senders) under 8 scheduler adversaries; the order of arrival at "
                       "the hub is measured from the trace for pcx / rsx / nbx / superset (notes.hub_arrival_order: ascending / descending / mixed; the check fails if descending "
                       "or mixed arrival was never produced); eager threshold below / at / above the item size, variable slices of 0..7 items, in-place and separate outputs, "
                       "back-to-back calls, reused output arrays; non-trivial = P > 1 and at least one receiver")
    ctx.notes["distribution"] = dist
    ctx.notes["hub_arrival_order"] = arrival
    for c in cases[:: max(1, len(cases) // 4)][:4]:
        ctx.sample(dict(header=c.header(), receivers_call0=c.patterns[0][:4]))
    ctx.cov["trusted_base"] = ["tools/c2g slices of the slot formula and of the epilogues (sc_notify_payload_cleanup, census tails, receive slots of nbx / superset; anchored on the source text "
                               "of sc_notify.c; conventions of tools/c2g/slicelib.py + the three local ones documented in tools/c2g/groups_C02.py)", "tools/simmpi",
                               "qsort contract (the records come back as a rank-ascending permutation) as hypothesis of C02_cleanup_sorted_is_sort_by_src"]
    ctx.assumptions += ["receiver lists are sorted and duplicate free (documented precondition)",
                        "misaligned int access inside sc_notify_payload_census for item sizes that are not multiples of 4 is tolerated (x86; UBSan alignment check off)"]
    return "proof"
