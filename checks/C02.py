"""C02 - notify delivers every payload intact.  Proof: generated slot formula (4 sites) = ceil(size/4), pack/unpack,
offsets, pair-preserving sort.  Tie: T1 + the real code on the simulated MPI with an oracle that recomputes, per
(sender, receiver), the bytes that must arrive at the position of that sender."""
import os, sys, json
import vlib, mpitrace
import notify_common as nc
sys.path.insert(0, os.path.join(vlib.TOOLS, "c2g"))


def gen_cases(ctx):
    rng = ctx.rng
    cases = []
    Ps = [1, 2, 3, 4, 5, 7, 8, 9, 12, 16, 17] if ctx.quick else list(range(1, 26)) + [31, 32, 33, 48, 64]
    sizes = list(range(1, 14)) + [15, 16, 17, 24, 31, 40]
    reps = 1 if ctx.quick else 4
    for typ in range(9):
        for P in Ps:
            for _ in range(reps):
                # fixed-size items, below and above the eager threshold
                sz = rng.choice(sizes)
                thr = rng.choice([0, sz - 1, sz, sz + 1, 1024]) if rng.random() < 0.7 else 1024
                cases.append(nc.make_case(rng, P, typ, paymode=1, paysize=sz, threshold=max(thr, 0)))
                # variable slices
                cases.append(nc.make_case(rng, P, typ, paymode=2, paysize=rng.choice([1, 2, 3, 4, 5, 8, 12])))
    for typ in range(9):
        for _ in range(2 if ctx.quick else 8):
            P = rng.choice([2, 3, 5, 9])
            cases.append(nc.make_case(rng, P, typ, ncalls=rng.choice([2, 3]), paymode=rng.choice([1, 2]), paysize=rng.choice([1, 4, 6, 9]), barrier=rng.randrange(2)))
    for api in (3, 4):
        for _ in range(4 if ctx.quick else 20):
            cases.append(nc.make_case(rng, rng.choice([1, 2, 5, 9, 13]), 0, api=api, paymode=1, paysize=rng.choice(sizes)))
    # the caller reuses its output arrays over the calls of a case / passes non-empty output arrays
    cases += nc.reuse_cases(rng, [1, 2, 2], 8 if ctx.quick else 48)
    return cases


def run(ctx):
    import genall
    st = genall.run(["NotifyC01"])
    for g, s in st.items():
        if s.startswith("FAILED"):
            ctx.tie_broken("translator group " + g, s)
    ctx.props()
    cases = gen_cases(ctx)
    if ctx.replay:
        rp = json.load(open(ctx.replay)).get("replay", {})
        if "case" in rp:
            cases = [nc.Case(**rp["case"])] + cases[:5]
    rc, runs, err = nc.run_cases(ctx, cases)
    if rc != 0:
        nc.crash_violation(ctx, cases, runs, rc, err)
    dist = {"type": {}, "paymode": {}, "size": {}, "above_threshold": 0, "multi_call": 0, "P": {}}
    nshown = 0
    for c, r in zip(cases, runs):
        t = nc.TYPES[c.type]
        dist["type"][t] = dist["type"].get(t, 0) + 1
        dist["paymode"][c.paymode] = dist["paymode"].get(c.paymode, 0) + 1
        dist["size"][c.paysize] = dist["size"].get(c.paysize, 0) + 1
        dist["P"][c.P] = dist["P"].get(c.P, 0) + 1
        dist["above_threshold"] += 1 if (c.paymode == 1 and c.paysize > c.threshold) else 0
        dist["multi_call"] += 1 if c.ncalls > 1 else 0
        ctx.count_case(c.text(), nontrivial=c.P > 1 and any(len(x) for pat in c.patterns for x in pat))
        for kind, text, detail in nc.judge(c, r):
            kk = nc.known_key(c, kind, text)
            key = kk or ("%s:%s" % (kind, c.key()))
            rep = dict(case=c.to_json(), kind=kind)
            rep.update(detail)
            if ctx.violation(key, "%s [%s]" % (text, c.header()), rep):
                nshown += 1
    if len(runs) < len(cases):
        ctx.tie_broken("harness output", "%d of %d runs reported" % (len(runs), len(cases)))
    # T2: the static sc_notify_merge of the working tree against the extracted int-level model, records with payload
    nc.merge_tie(ctx, [1, 1, 2, 3, 4, 10], 1500 if ctx.quick else 20000)
    # T3: every rank's trace of single calls with fixed-size items co-simulated against the extracted per-rank programs
    nc.cosim_tie(ctx, [1], 90 if ctx.quick else 1200)
    # T3: sc_notify_payloadv with pcx / rsx (variable slices, output offsets) against the extracted program censusv_core
    nc.cosimv_tie(ctx, 30 if ctx.quick else 400)
    ctx.cov["rule"] = ("sc_notify_payload / sc_notify_payloadv (+ sc_notify_ext, sc_notify_nary) on the simulated MPI: all 9 algorithm types, item sizes 1..17,24,31,40 (most not "
                       "multiples of sizeof(int)), eager threshold set below/at/above the item size, variable slices of 0..7 items, sorted 0/1, in-place and separate "
                       "outputs, 8 scheduler adversaries, some back-to-back calls; non-trivial = P > 1 and at least one receiver")
    ctx.notes["distribution"] = dist
    for c in cases[:: max(1, len(cases) // 4)][:4]:
        ctx.sample(dict(header=c.header(), receivers_call0=c.patterns[0][:4]))
    ctx.cov["trusted_base"] = ["tools/c2g slices of the slot formula (anchored on the source text of sc_notify.c)", "tools/simmpi"]
    ctx.assumptions += ["receiver lists are sorted and duplicate free (documented precondition)",
                        "misaligned int access inside sc_notify_payload_census for item sizes that are not multiples of 4 is tolerated (x86; UBSan alignment check off)"]
    return "proof"
